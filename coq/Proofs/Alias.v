(* Proofs/Alias.v — facts about the thin entry points of Model/Alias.v: each inherits the theorem of the core it wraps;
   the total-valuation mutators are point updates of a fixed-length vector. *)
From Coq Require Import List Arith NArith Bool Lia. Import ListNotations.
From BddVerif Require Import Model.Bdd Model.Apply Model.Ops Model.Serial Model.Expr Model.OptDnf Model.VarSet Model.Dot Model.Alias
  Proofs.Sem Proofs.Canon Proofs.SerialIO Proofs.SerialBytes Proofs.SerialText Proofs.ExprShow Proofs.ExprParse Proofs.ExprEval.
Open Scope N_scope.

(* ---- panicking readers *)
Lemma clean_nil : clean [].
Proof. constructor. Qed.

Theorem from_string_roundtrip b : in_range b -> from_string_m (write_text b) = Ok b.
Proof. intros R. unfold from_string_m. now rewrite (text_roundtrip b [] R clean_nil). Qed.

Theorem from_bytes_roundtrip b : in_range b -> from_bytes_m (write_bytes b) = Ok b.
Proof. intros R. unfold from_bytes_m. now rewrite (proj1 (bytes_roundtrip b [] R clean_nil)). Qed.

(* from_string / from_bytes answer exactly when the reader answers Ok, with the same diagram; they panic exactly when it
   answers Err (or panics itself) *)
Theorem from_string_spec data b : from_string_m data = Ok b <-> read_text_sched data [] = Ok (ROk b).
Proof.
  unfold from_string_m, expect_read. destruct (read_text_sched data []) as [[x|]| |]; split; intros H; try discriminate;
  now inversion H.
Qed.
Theorem from_bytes_spec data b : from_bytes_m data = Ok b <-> read_bytes_sched data [] = Ok (ROk b).
Proof.
  unfold from_bytes_m, expect_read. destruct (read_bytes_sched data []) as [[x|]| |]; split; intros H; try discriminate;
  now inversion H.
Qed.

(* ---- eval_expression_string *)
Theorem eval_expr_string_show names e : safe_names e = true -> eval_expr_string names (show e) = eval_expr names e.
Proof. intros S. unfold eval_expr_string. now rewrite (show_parse e S). Qed.

Theorem eval_expr_string_spec names s :
  match parse_string s with
  | POk e => eval_expr_string names s = eval_expr names e
  | _ => eval_expr_string names s = Panic \/ eval_expr_string names s = OutOfFuel
  end.
Proof. unfold eval_expr_string. destruct (parse_string s); auto. Qed.

(* on a string of the grammar whose variables are declared: the canonical diagram of the parsed tree's function *)
Theorem eval_expr_string_sem names s e : parse_string s = POk e -> declared names e = true ->
  exists r, eval_expr_string names s = Ok r /\ Canonical r /\ nvars r = nvars_of names /\
    forall v, eval r v = esem e (env_of names v).
Proof. intros P D. unfold eval_expr_string. rewrite P. now apply eval_expr_sem. Qed.

(* it panics exactly when the string is outside the grammar or mentions an undeclared variable, and never runs out of fuel *)
Theorem eval_expr_string_panic_iff names s :
  eval_expr_string names s = Panic <->
  parse_string s = PErr \/ exists e, parse_string s = POk e /\ declared names e = false.
Proof.
  unfold eval_expr_string. pose proof (parse_string_total s) as [NP NF].
  destruct (parse_string s) as [e| | |] eqn:P; try congruence.
  - rewrite eval_expr_panic_iff. split.
    + intros D. right. exists e. now split.
    + intros [H|(e' & H & D)]; [discriminate|]. now inversion H; subst.
  - split; [now left|reflexivity].
Qed.

(* ---- total valuations *)
Lemma upd_at_spec l : forall i f,
  match upd_at l i f with
  | Some w => (i < length l)%nat /\ length w = length l /\
              forall j, nth_error w j = if Nat.eqb j i then option_map f (nth_error l i) else nth_error l j
  | None => (length l <= i)%nat
  end.
Proof.
  induction l as [|c r IH]; intros i f; cbn [upd_at].
  - destruct i; cbn; lia.
  - destruct i as [|i].
    + cbn. split; [lia|]. split; [reflexivity|]. intros [|j]; reflexivity.
    + specialize (IH i f). destruct (upd_at r i f) as [w|]; cbn [option_map length].
      * destruct IH as (L & E & G). split; [lia|]. split; [now rewrite E|].
        intros [|j]; cbn [nth_error Nat.eqb]; [reflexivity|]. apply G.
      * lia.
Qed.

(* one mutator: succeeds exactly on an index inside the vector, keeps the length, rewrites that one cell *)
Theorem val_step_spec v o :
  match val_step v o with
  | Ok w => val_op_var o < N.of_nat (length v) /\ length w = length v /\
            forall y, val_value w y =
              if y =? val_op_var o then bind (val_value v y) (fun c => Ok (val_op_fun o c)) else val_value v y
  | Panic => N.of_nat (length v) <= val_op_var o
  | OutOfFuel => False
  end.
Proof.
  unfold val_step. pose proof (upd_at_spec v (N.to_nat (val_op_var o)) (val_op_fun o)) as H.
  destruct (upd_at v (N.to_nat (val_op_var o)) (val_op_fun o)) as [w|].
  - destruct H as (L & E & G). split; [lia|]. split; [exact E|]. intros y. unfold val_value. rewrite G.
    destruct (N.eqb_spec y (val_op_var o)) as [->|NE].
    + rewrite Nat.eqb_refl. destruct (nth_error v (N.to_nat (val_op_var o))); reflexivity.
    + destruct (Nat.eqb_spec (N.to_nat y) (N.to_nat (val_op_var o))) as [EQ|_]; [|reflexivity].
      exfalso. apply NE. lia.
  - lia.
Qed.

Theorem val_run_length v ops w : val_run v ops = Ok w -> length w = length v.
Proof.
  revert v. induction ops as [|o r IH]; intros v; cbn [val_run].
  - intros H. now inversion H.
  - pose proof (val_step_spec v o) as S. destruct (val_step v o) as [u| |]; cbn [bind]; try discriminate.
    intros H. rewrite (IH _ H). apply S.
Qed.

(* a history never runs out of fuel and panics exactly when some step indexes beyond the (constant) length *)
Theorem val_run_ok_iff v ops :
  (exists w, val_run v ops = Ok w) <-> Forall (fun o => val_op_var o < N.of_nat (length v)) ops.
Proof.
  revert v. induction ops as [|o r IH]; intros v; cbn [val_run].
  - split; [constructor|eauto].
  - pose proof (val_step_spec v o) as S. destruct (val_step v o) as [u| |]; cbn [bind].
    + destruct S as (L & E & _). rewrite IH, E. split.
      * intros F. constructor; assumption.
      * intros F. now inversion F.
    + split; [intros [w H]; discriminate|]. intros F. inversion F; subst. lia.
    + destruct S.
Qed.

Lemma nth_error_ext_local {T} : forall (a b : list T), (forall j, nth_error a j = nth_error b j) -> a = b.
Proof.
  induction a as [|x a IH]; intros [|y b] H; try reflexivity; try (specialize (H O); discriminate).
  f_equal; [specialize (H O); now inversion H|]. apply IH. intros j. exact (H (S j)).
Qed.

Theorem val_flip_flip v x w u : val_step v (VFlip x) = Ok w -> val_step w (VFlip x) = Ok u -> u = v.
Proof.
  intros H1 H2. pose proof (val_step_spec v (VFlip x)) as S1. rewrite H1 in S1.
  pose proof (val_step_spec w (VFlip x)) as S2. rewrite H2 in S2. cbn [val_op_var val_op_fun] in *.
  destruct S1 as (L1 & E1 & G1), S2 as (_ & E2 & G2).
  apply nth_error_ext_local. intros j.
  assert (Q : forall a b : list bool, (forall y, val_value a y = val_value b y) -> forall j, nth_error a j = nth_error b j).
  { intros a b Hy k. specialize (Hy (N.of_nat k)). unfold val_value in Hy. rewrite Nat2N.id in Hy.
    destruct (nth_error a k), (nth_error b k); congruence. }
  revert j. apply Q. intros y. rewrite G2. destruct (N.eqb_spec y x) as [->|NE].
  - rewrite G1, N.eqb_refl. unfold val_value. destruct (nth_error v (N.to_nat x)) as [c|]; cbn [bind]; [|reflexivity].
    now rewrite negb_involutive.
  - rewrite G1. apply N.eqb_neq in NE. now rewrite NE.
Qed.

Lemma val_all_value c n x : val_value (val_all c n) x = if x <? n then Ok c else Panic.
Proof.
  unfold val_value, val_all. destruct (N.ltb_spec x n) as [L|G].
  - rewrite (nth_error_repeat c) by lia. reflexivity.
  - destruct (nth_error (repeat c (N.to_nat n)) (N.to_nat x)) eqn:E; [|reflexivity].
    exfalso. assert (nth_error (repeat c (N.to_nat n)) (N.to_nat x) <> None) as NN by congruence.
    apply nth_error_Some in NN. rewrite repeat_length in NN. lia.
Qed.

Lemma val_all_num_vars c n : n < 65536 -> val_num_vars (val_all c n) = n.
Proof. intros L. unfold val_num_vars, val_all. rewrite repeat_length, N2Nat.id. now apply N.mod_small. Qed.

(* ---- write_as_dot_string into a writer with partial writes / interruptions: nothing is lost *)
Theorem dot_write_clean b names pruned sched text : clean sched -> dot_of_names b names pruned = Ok text ->
  dot_write_sched_m b names pruned sched = Ok (true, text).
Proof.
  intros C D. unfold dot_write_sched_m. rewrite D. cbn [bind].
  destruct (write_all_clean sched C text []) as (s' & E & _). rewrite E. cbn [fst snd].
  now rewrite app_nil_r, rev_involutive.
Qed.
