(* Proofs/Apply3Stack.v — the explicit-stack machine of Model/Apply3Stack.v (one sstep3 = one iteration of the
   Rust `while` loop of ternary_apply) computes exactly what the recursive engine of Model/Apply3.v computes:
   apply3_stack_eq.  Hence every theorem about apply3 / fused_ternary_flip_op_faithful transfers to the stack machine.
   The proof is the proof of Proofs/ApplyStack.v replayed for triples of pointers. *)
From Coq Require Import List NArith Lia Bool Arith PeanoNat.
Import ListNotations.
From BddVerif Require Import Model.Bdd Model.Apply Model.Ops Model.Apply3 Model.Apply3Stack
  Proofs.Sem Proofs.Canon Proofs.ApplySem Proofs.ApplyTop Proofs.TernSem Proofs.Apply3Sem.
Open Scope N_scope.

Section Stack3.
  Variables (A B C : bdd) (fa fb fc fo : option N) (op : op3).
  Local Notation ensure_with := (Apply3.ensure_with3 op).
  Local Notation level := (Apply3.level3 A B C).
  Local Notation t_lo := (Apply3.t_lo3 A B C fa fb fc).
  Local Notation t_hi := (Apply3.t_hi3 A B C fa fb fc).
  Local Notation process := (Apply3.process3 A B C fa fb fc fo op).
  Local Notation s0 := (Apply3.s03 A).
  Local Notation root := (Apply3.root3 A B C).
  Local Notation apply3 := (Apply3.apply3 A B C fa fb fc fo op).
  Local Notation lookup := (Apply3Stack.lookup3 op).
  Local Notation resolve := (Apply3Stack.resolve3 fo).
  Local Notation sstep := (Apply3Stack.sstep3 A B C fa fb fc fo op).
  Local Notation srun := (Apply3Stack.srun3 A B C fa fb fc fo op).
  Local Notation apply3_stack := (Apply3Stack.apply3_stack A B C fa fb fc fo op).
  Local Notation tvalid := (Apply3Sem.tvalid3 A B C).

  (* ------------------------------------------------------------------ *)
  (* k iterations of the loop body; srun d = 2^d iterations (early exit is invisible:
     the body is the identity on the empty stack)                        *)
  Fixpoint siter3 (k : nat) (c : list task3 * st3) : list task3 * st3 :=
    match k with O => c | S k' => siter3 k' (sstep c) end.

  Lemma siter_add a b c : siter3 (a + b) c = siter3 b (siter3 a c).
  Proof. revert c; induction a as [|a IH]; intros c; cbn; auto. Qed.

  Lemma siter_empty k s : siter3 k ([], s) = ([], s).
  Proof. induction k as [|k IH]; cbn; auto. Qed.

  Lemma srun_siter d : forall c, srun d c = siter3 (2 ^ d) c.
  Proof.
    induction d as [|d IH]; intros c; [reflexivity|].
    cbn [Apply3Stack.srun3]. rewrite Nat.pow_succ_r', Nat.mul_succ_l, Nat.mul_1_l, siter_add, <- !IH.
    destruct (srun d c) as [[|x stk] s] eqn:E; cbn [stack_empty3 fst]; [|reflexivity].
    rewrite IH. symmetry. apply siter_empty.
  Qed.

  Lemma srun3_reach d k c s' : siter3 k c = ([], s') -> (k <= 2 ^ d)%nat -> srun d c = ([], s').
  Proof.
    intros E Hk. rewrite srun_siter. replace (2 ^ d)%nat with (k + (2 ^ d - k))%nat by lia.
    rewrite siter_add, E. apply siter_empty.
  Qed.

  (* ------------------------------------------------------------------ *)
  (* the loop body in terms of the vocabulary of Model/Apply.v            *)
  Lemma sstep3_eq t rest s : sstep (t :: rest, s) =
    match tfind3 t (finished3 s) with
    | Some _ => (rest, s)
    | None =>
      match lookup (t_lo t) s, lookup (t_hi t) s with
      | Some nl, Some nh => (rest, resolve t (level t) nl nh s)
      | nlo, nhi =>
        if oeq fo (level t)
        then (push_unknown3 nlo (t_lo t) (push_unknown3 nhi (t_hi t) (t :: rest)), s)
        else (push_unknown3 nhi (t_hi t) (push_unknown3 nlo (t_lo t) (t :: rest)), s)
      end
    end.
  Proof.
    unfold Apply3Stack.sstep3, Apply3.t_lo3, Apply3.t_hi3, Apply3.level3.
    destruct (tfind3 t (finished3 s)); [reflexivity|].
    destruct (kids A fa (t3a t) _) as [al ah], (kids B fb (t3b t) _) as [bl bh], (kids C fc (t3c t) _) as [cl ch]. cbn [fst snd].
    destruct (lookup (al, bl, cl) s), (lookup (ah, bh, ch) s); reflexivity.
  Qed.

  (* what `process` does after its two ensure_with calls *)
  Definition finish3 (t : task3) (dv plo phi : N) (s : st3) : N * st3 :=
    let s3 := set_ne3 s ((plo =? 1) || (phi =? 1)) in
    let '(p, s4) := if oeq fo dv then mk3 s3 dv phi plo else mk3 s3 dv plo phi in
    (p, memo3 s4 t p).

  Lemma resolve3_finish3 t dv plo phi s : resolve t dv plo phi s = snd (finish3 t dv plo phi s).
  Proof.
    unfold Apply3Stack.resolve3, finish3, mk3. destruct (oeq fo dv).
    - rewrite (N.eqb_sym phi plo). destruct (N.eqb_spec plo phi) as [->|NE]; [reflexivity|].
      destruct (nfind _ _); reflexivity.
    - destruct (N.eqb_spec plo phi) as [->|NE]; [reflexivity|].
      destruct (nfind _ _); reflexivity.
  Qed.

  Lemma mk3_finished s d x y : finished3 (snd (mk3 s d x y)) = finished3 s.
  Proof. unfold mk3. destruct (x =? y); [reflexivity|]. destruct (nfind _ _); reflexivity. Qed.

  Lemma finish3_finished3 t dv plo phi s :
    finished3 (snd (finish3 t dv plo phi s)) = (t, fst (finish3 t dv plo phi s)) :: finished3 s.
  Proof.
    unfold finish3. destruct (oeq fo dv).
    - pose proof (mk3_finished (set_ne3 s ((plo =? 1) || (phi =? 1))) dv phi plo) as H.
      destruct (mk3 _ dv phi plo) as [p s4]. cbn in *. rewrite H. reflexivity.
    - pose proof (mk3_finished (set_ne3 s ((plo =? 1) || (phi =? 1))) dv plo phi) as H.
      destruct (mk3 _ dv plo phi) as [p s4]. cbn in *. rewrite H. reflexivity.
  Qed.

  Lemma task3_eqb_refl t : task3_eqb t t = true.
  Proof. destruct (task3_eqb_spec t t); congruence. Qed.

  (* ------------------------------------------------------------------ *)
  (* lookup versus ensure_with                                            *)
  Lemma ensure_cases proc t s p s1 : ensure_with proc t s = Some (p, s1) ->
    (lookup t s = Some p /\ s1 = s) \/ (lookup t s = None /\ proc t s = Some (p, s1)).
  Proof.
    unfold Apply3.ensure_with3, Apply3Stack.lookup3. destruct (op _ _) as [c|].
    - intros E; inversion E; subst; auto.
    - destruct (tfind3 t (finished3 s)) as [q|]; [intros E; inversion E; subst; auto|auto].
  Qed.

  Lemma ensure_lookup proc t s p : lookup t s = Some p -> ensure_with proc t s = Some (p, s).
  Proof.
    unfold Apply3.ensure_with3, Apply3Stack.lookup3. destruct (op _ _) as [c|].
    - intros E; inversion E; subst; auto.
    - intros ->. reflexivity.
  Qed.

  Lemma lookup_none t s : lookup t s = None ->
    op (as_bool (t3a t)) (as_bool (t3b t)) (as_bool (t3c t)) = None /\ tfind3 t (finished3 s) = None.
  Proof. unfold Apply3Stack.lookup3. destruct (op _ _); [discriminate|auto]. Qed.

  Lemma lookup_tfind t s p : op (as_bool (t3a t)) (as_bool (t3b t)) (as_bool (t3c t)) = None ->
    tfind3 t (finished3 s) = Some p -> lookup t s = Some p.
  Proof. unfold Apply3Stack.lookup3. intros -> H. exact H. Qed.

  (* memo3 entries are never removed or changed; entries below level L are not touched at all *)
  Definition stable3 (L : N) (s s' : st3) : Prop :=
    (forall t q, tfind3 t (finished3 s) = Some q -> tfind3 t (finished3 s') = Some q) /\
    (forall t, level t < L -> tfind3 t (finished3 s') = tfind3 t (finished3 s)).

  Lemma stable3_refl L s : stable3 L s s.
  Proof. split; auto. Qed.
  Lemma stable3_trans L a b c : stable3 L a b -> stable3 L b c -> stable3 L a c.
  Proof. intros (H1 & H2) (H3 & H4). split; [auto|]. intros t Ht. rewrite H4, H2; auto. Qed.
  Lemma stable3_weaken L L' a b : L' <= L -> stable3 L a b -> stable3 L' a b.
  Proof. intros Hl (H1 & H2). split; [auto|]. intros t Ht. apply H2. lia. Qed.

  Lemma lookup_stable L s s' t q : stable3 L s s' -> lookup t s = Some q -> lookup t s' = Some q.
  Proof. intros (H & _). unfold Apply3Stack.lookup3. destruct (op _ _); [auto|apply H]. Qed.

  (* ------------------------------------------------------------------ *)
  Hypothesis WA : wf A.
  Hypothesis WB : wf B.
  Hypothesis WC : wf C.
  Hypothesis NV : nvars A = nvars B.
  Hypothesis NVC : nvars A = nvars C.
  Hypothesis TOT : forall a b c, op (Some a) (Some b) (Some c) <> None.
  Let nv := nvars A.

  Local Lemma as_bool_term3 p : p < 2 -> exists a, as_bool p = Some a.
  Proof. intros H. assert (p = 0 \/ p = 1) as [->| ->] by lia; eexists; reflexivity. Qed.

  Lemma terminal_lookup t s : tvalid t -> level t = nv -> exists q, lookup t s = Some q.
  Proof.
    intros Vt E. destruct (level_nv_terminal3 A B C WA WB WC NV NVC t Vt E) as (T1 & T2 & T3).
    destruct (as_bool_term3 _ T1) as (a & Ea), (as_bool_term3 _ T2) as (b & Eb), (as_bool_term3 _ T3) as (c & Ec).
    unfold Apply3Stack.lookup3. rewrite Ea, Eb, Ec. destruct (op (Some a) (Some b) (Some c)) as [r|] eqn:Eo; [eauto|].
    exfalso. exact (TOT a b c Eo).
  Qed.

  Lemma lookup_none_level t s : tvalid t -> lookup t s = None -> level t < nv.
  Proof.
    intros Vt E. pose proof (level_le3 A B C WA NV NVC t Vt) as Hle.
    destruct (N.eq_dec (level t) nv) as [En|NE]; [|unfold nv in *; lia].
    destruct (terminal_lookup t s Vt En) as (q & Hq). congruence.
  Qed.

  Lemma terminal_kids t : tvalid t -> level t = nv -> t_lo t = t /\ t_hi t = t.
  Proof.
    intros Vt E. destruct (level_nv_terminal3 A B C WA WB WC NV NVC t Vt E) as (T1 & T2 & T3). destruct Vt as (V1 & V2 & V3).
    unfold Apply3.t_lo3, Apply3.t_hi3, kids. rewrite E.
    rewrite (term_get A B NV A _ WA V1 T1), (term_get A B NV B _ WB V2 T2), (term_get A B NV C _ WC V3 T3). cbn [nvar nlow nhigh].
    rewrite <- NV, <- NVC. fold nv. rewrite N.eqb_refl. cbn [negb].
    destruct (oeq fa nv), (oeq fb nv), (oeq fc nv); cbn [fst snd]; destruct t as [[x y] z]; auto.
  Qed.

  Lemma children t : tvalid t -> level t < nv ->
    tvalid (t_lo t) /\ tvalid (t_hi t) /\ level t < level (t_lo t) /\ level t < level (t_hi t).
  Proof.
    intros Vt Hl.
    destruct (spec_expand3 A B C fa fb fc (fun _ _ _ => false) WA WB WC NV NVC t (fun _ => false) Vt Hl) as (a & b & c & d & _).
    auto.
  Qed.

  Lemma pow_ge4 f : (4 <= 2 ^ (f + 2))%nat.
  Proof. rewrite Nat.pow_add_r. pose proof (Nat.pow_nonzero 2 f ltac:(lia)). cbn. lia. Qed.
  Lemma pow_step f : (2 ^ (S f + 2) = 2 * 2 ^ (f + 2))%nat.
  Proof. cbn [plus]. apply Nat.pow_succ_r'. Qed.

  (* ------------------------------------------------------------------ *)
  (* Simulation: one successful call of `process` on a task that is not yet memoised is matched by a
     run of the stack machine that starts with the task on top and ends when it has been popped;
     the stack below is untouched and the stores coincide.                *)
  Lemma process3_sim : forall f t s p s', process f t s = Some (p, s') -> tvalid t -> tfind3 t (finished3 s) = None ->
    stable3 (level t) s s' /\ tfind3 t (finished3 s') = Some p /\
    forall rest, exists k, (k + 2 <= 2 ^ (f + 2))%nat /\ siter3 k (t :: rest, s) = (rest, s').
  Proof.
    induction f as [|f IH]; intros t s p s' E Vt Ht; [discriminate|].
    set (dv := level t) in *.
    (* one sub-task: `sa` is the store in which the machine decided whether to push it,
       `s1` the store in which `process` ensures it *)
    assert (Hchild : forall sa tb s1 pb s2,
              (forall q, lookup tb sa = Some q -> lookup tb s1 = Some q) ->
              ensure_with (process f) tb s1 = Some (pb, s2) -> tvalid tb -> dv < level tb ->
              stable3 (dv + 1) s1 s2 /\ lookup tb s2 = Some pb /\
              forall rest, exists k, (k + 2 <= 2 ^ (f + 2))%nat /\
                siter3 k (push_unknown3 (lookup tb sa) tb rest, s1) = (rest, s2)).
    { intros sa tb s1 pb s2 Hst Ee Vb Lb. pose proof (pow_ge4 f) as P4.
      destruct (ensure_cases _ _ _ _ _ Ee) as [(Hl & ->)|(Hl & Hp)].
      - split; [apply stable3_refl|]. split; [exact Hl|]. intros rest.
        destruct (lookup tb sa) as [q|] eqn:Ea; cbn [push_unknown3].
        + exists 0%nat. split; [lia|reflexivity].
        + exists 1%nat. split; [lia|]. cbn [siter3]. rewrite sstep3_eq.
          destruct (lookup_none _ _ Ea) as (Eo & _).
          unfold Apply3Stack.lookup3 in Hl. rewrite Eo in Hl. rewrite Hl. reflexivity.
      - destruct (lookup_none _ _ Hl) as (Eo & Ef).
        destruct (IH tb s1 pb s2 Hp Vb Ef) as (St & Fd & Run).
        split; [apply (stable3_weaken (level tb)); [lia|exact St]|].
        split; [apply lookup_tfind; assumption|]. intros rest.
        destruct (lookup tb sa) as [q|] eqn:Ea; [rewrite (Hst q eq_refl) in Hl; discriminate|].
        cbn [push_unknown3]. apply Run. }
    (* both sub-tasks, `ta` first *)
    assert (Hcore : forall ta tb pa s1 pb s2 plo phi,
              ensure_with (process f) ta s = Some (pa, s1) ->
              ensure_with (process f) tb s1 = Some (pb, s2) ->
              (oeq fo dv = true /\ ta = t_lo t /\ tb = t_hi t /\ pa = plo /\ pb = phi) \/
              (oeq fo dv = false /\ ta = t_hi t /\ tb = t_lo t /\ pa = phi /\ pb = plo) ->
              let r := finish3 t dv plo phi s2 in
              stable3 dv s (snd r) /\ tfind3 t (finished3 (snd r)) = Some (fst r) /\
              forall rest, exists k, (k + 2 <= 2 ^ (S f + 2))%nat /\ siter3 k (t :: rest, s) = (rest, snd r)).
    { intros ta tb pa s1 pb s2 plo phi Ea Eb Hsw r.
      assert (Hfin : forall s2', stable3 (dv + 1) s s2' ->
                let r' := finish3 t dv plo phi s2' in
                stable3 dv s (snd r') /\ tfind3 t (finished3 (snd r')) = Some (fst r')).
      { intros s2' (S1 & S2) r'. subst r'. split; [|rewrite finish3_finished3; cbn [tfind3]; now rewrite task3_eqb_refl].
        split.
        - intros t' q Hq. rewrite finish3_finished3. cbn [tfind3]. destruct (task3_eqb_spec t' t) as [->|NE]; [congruence|auto].
        - intros t' Hl. rewrite finish3_finished3. cbn [tfind3]. destruct (task3_eqb_spec t' t) as [->|NE]; [unfold dv in Hl; lia|].
          apply S2. lia. }
      assert (Hgen : lookup ta s = None \/ lookup tb s = None ->
                stable3 dv s (snd r) /\ tfind3 t (finished3 (snd r)) = Some (fst r) /\
                forall rest, exists k, (k + 2 <= 2 ^ (S f + 2))%nat /\ siter3 k (t :: rest, s) = (rest, snd r)).
      { intros Hnone.
        assert (Hlt : dv < nv).
        { pose proof (level_le3 A B C WA NV NVC t Vt) as Hle.
          destruct (N.eq_dec dv nv) as [En|NE]; [exfalso|unfold nv, dv in *; lia].
          destruct (terminal_kids t Vt En) as (K1 & K2). destruct (terminal_lookup t s Vt En) as (q & Hq).
          destruct Hsw as [(_ & -> & -> & _)|(_ & -> & -> & _)]; rewrite K1, K2 in Hnone; destruct Hnone; congruence. }
        destruct (children t Vt Hlt) as (Vlo & Vhi & Llo & Lhi). fold dv in Llo, Lhi.
        assert (Vab : tvalid ta /\ dv < level ta /\ tvalid tb /\ dv < level tb)
          by (destruct Hsw as [(_ & -> & -> & _)|(_ & -> & -> & _)]; auto).
        destruct Vab as (Va & Lva & Vb & Lvb).
        destruct (Hchild s ta s pa s1 (fun q H => H) Ea Va Lva) as (St1 & Lk1 & Run1).
        destruct (Hchild s tb s1 pb s2 (fun q H => lookup_stable _ _ _ _ _ St1 H) Eb Vb Lvb) as (St2 & Lk2 & Run2).
        pose proof (stable3_trans _ _ _ _ St1 St2) as St.
        destruct (Hfin s2 St) as (F1 & F2). fold r in F1, F2. split; [exact F1|]. split; [exact F2|].
        intros rest.
        destruct (Run1 (push_unknown3 (lookup tb s) tb (t :: rest))) as (k1 & B1 & R1).
        destruct (Run2 (t :: rest)) as (k2 & B2 & R2).
        exists (1 + (k1 + (k2 + 1)))%nat. split; [rewrite pow_step; lia|].
        assert (Hfirst : sstep (t :: rest, s) =
                  (push_unknown3 (lookup ta s) ta (push_unknown3 (lookup tb s) tb (t :: rest)), s)).
        { rewrite sstep3_eq, Ht. fold dv.
          destruct Hsw as [(Esw & -> & -> & _)|(Esw & -> & -> & _)]; rewrite Esw;
            destruct (lookup (t_lo t) s), (lookup (t_hi t) s); try reflexivity; destruct Hnone; discriminate. }
        assert (Hlast : sstep (t :: rest, s2) = (rest, snd r)).
        { rewrite sstep3_eq. destruct St as (_ & St). rewrite (St t) by (unfold dv; lia). rewrite Ht.
          pose proof (lookup_stable _ _ _ _ _ St2 Lk1) as Lk1'.
          destruct Hsw as [(Esw & -> & -> & -> & ->)|(Esw & -> & -> & -> & ->)];
            rewrite Lk1', Lk2, resolve3_finish3; reflexivity. }
        cbn [plus siter3]. rewrite Hfirst, siter_add, R1, siter_add, R2. cbn [siter3]. exact Hlast. }
      destruct (lookup ta s) as [qa|] eqn:La; [destruct (lookup tb s) as [qb|] eqn:Lb|]; [|apply Hgen; auto..].
      (* both known at the first examination: resolve at once *)
      rewrite (ensure_lookup _ _ _ _ La) in Ea. inversion Ea; subst qa s1. clear Ea.
      rewrite (ensure_lookup _ _ _ _ Lb) in Eb. inversion Eb; subst qb s2. clear Eb.
      destruct (Hfin s (stable3_refl _ _)) as (F1 & F2). fold r in F1, F2.
      split; [exact F1|]. split; [exact F2|]. intros rest. exists 1%nat.
      split; [rewrite pow_step; pose proof (pow_ge4 f); lia|]. cbn [siter3]. rewrite sstep3_eq, Ht.
      destruct Hsw as [(Esw & -> & -> & -> & ->)|(Esw & -> & -> & -> & ->)]; rewrite La, Lb, resolve3_finish3; reflexivity. }
    cbn [Apply3.process3] in E. fold dv in E.
    destruct (oeq fo dv) eqn:Esw.
    - destruct (ensure_with (process f) (t_lo t) s) as [[p1 s1]|] eqn:E1; [|discriminate].
      destruct (ensure_with (process f) (t_hi t) s1) as [[p2 s2]|] eqn:E2; [|discriminate].
      pose proof (Hcore _ _ _ _ _ _ p1 p2 E1 E2 (or_introl (conj eq_refl (conj eq_refl (conj eq_refl (conj eq_refl eq_refl)))))) as H.
      unfold finish3 in H. rewrite Esw in H. cbv zeta in H.
      destruct (mk3 _ dv p2 p1) as [q s4]. inversion E; subst p s'. exact H.
    - destruct (ensure_with (process f) (t_hi t) s) as [[p1 s1]|] eqn:E1; [|discriminate].
      destruct (ensure_with (process f) (t_lo t) s1) as [[p2 s2]|] eqn:E2; [|discriminate].
      pose proof (Hcore _ _ _ _ _ _ p2 p1 E1 E2 (or_intror (conj eq_refl (conj eq_refl (conj eq_refl (conj eq_refl eq_refl)))))) as H.
      unfold finish3 in H. rewrite Esw in H. cbv zeta in H.
      destruct (mk3 _ dv p2 p1) as [q s4]. inversion E; subst p s'. exact H.
  Qed.
  Lemma ensure_none proc t s : lookup t s = None -> ensure_with proc t s = proc t s.
  Proof.
    unfold Apply3.ensure_with3, Apply3Stack.lookup3. destruct (op _ _); [discriminate|]. intros ->. reflexivity.
  Qed.

  (* the recursive engine does not run out of fuel (no semantic hypothesis on op needed) *)
  Lemma process3_some : forall f t s, tvalid t -> (N.to_nat (nv - level t) < f)%nat ->
    exists p s', process f t s = Some (p, s').
  Proof.
    induction f as [|f IH]; intros t s Vt Hf; [lia|].
    assert (Hens : forall t' s1, t' = t_lo t \/ t' = t_hi t -> exists p s2, ensure_with (process f) t' s1 = Some (p, s2)).
    { intros t' s1 Ht'. destruct (lookup t' s1) as [q|] eqn:El; [exists q, s1; now apply ensure_lookup|].
      rewrite (ensure_none _ _ _ El). pose proof (level_le3 A B C WA NV NVC t Vt) as Hle.
      destruct (N.eq_dec (level t) nv) as [En|NE].
      - exfalso. destruct (terminal_kids t Vt En) as (K1 & K2). destruct (terminal_lookup t s1 Vt En) as (q & Hq).
        destruct Ht' as [->| ->]; congruence.
      - destruct (children t Vt ltac:(unfold nv in *; lia)) as (Vlo & Vhi & Llo & Lhi).
        destruct Ht' as [->| ->]; apply IH; try assumption; lia. }
    cbn [Apply3.process3]. destruct (oeq fo (level t)).
    + destruct (Hens (t_lo t) s (or_introl eq_refl)) as (p1 & s1 & ->).
      destruct (Hens (t_hi t) s1 (or_intror eq_refl)) as (p2 & s2 & ->). destruct (mk3 _ _ _ _); eauto.
    + destruct (Hens (t_hi t) s (or_intror eq_refl)) as (p1 & s1 & ->).
      destruct (Hens (t_lo t) s1 (or_introl eq_refl)) as (p2 & s2 & ->). destruct (mk3 _ _ _ _); eauto.
  Qed.

  Lemma apply3_stack_eq_section : apply3_stack = apply3.
  Proof.
    pose proof (root_valid3 A B C WA WB WC NV NVC) as Vr.
    unfold Apply3Stack.apply3_stack, Apply3.apply3. fold nv.
    destruct (process3_some (S (S (N.to_nat nv))) root s0 Vr ltac:(lia)) as (p & s' & E).
    rewrite E.
    destruct (process3_sim _ _ _ _ _ E Vr eq_refl) as (_ & _ & Run).
    destruct (Run []) as (k & Hk & R).
    rewrite (srun3_reach (S (S (S (S (N.to_nat nv))))) k _ s' R); [reflexivity|].
    replace (S (S (N.to_nat nv)) + 2)%nat with (S (S (S (S (N.to_nat nv))))) in Hk by lia. lia.
  Qed.
End Stack3.
(* ====================================================================== *)
(* Top-level statements                                                    *)

(* k iterations of the loop body, closed form of the section-local iterator *)
Definition stack3_iter := siter3.

(* The simulation lemma for ONE call of the recursive engine (any fuel, any store, any stack below):
   if `process3` succeeds on a valid task that is not memoised yet, the stack machine started with the task
   on top pops it after k < 2^(fuel+2) iterations, leaves the rest of the stack untouched and ends in
   exactly the store `process3` returns (nodes, existing, finished and the nonempty flag all equal);
   the task is memoised with the returned pointer and no older memo entry was changed. *)
Theorem process3_simulated : forall A B C fa fb fc fo op,
  wf A -> wf B -> wf C -> nvars A = nvars B -> nvars B = nvars C -> total3 op ->
  forall fuel t s p s', process3 A B C fa fb fc fo op fuel t s = Some (p, s') ->
  tvalid3 A B C t -> tfind3 t (finished3 s) = None ->
  tfind3 t (finished3 s') = Some p /\
  (forall t' q, tfind3 t' (finished3 s) = Some q -> tfind3 t' (finished3 s') = Some q) /\
  forall rest, exists k, (k + 2 <= 2 ^ (fuel + 2))%nat /\
    stack3_iter A B C fa fb fc fo op k (t :: rest, s) = (rest, s').
Proof.
  intros A B C fa fb fc fo op WA WB WC NAB NBC T fuel t s p s' E Vt Ht.
  destruct (process3_sim A B C fa fb fc fo op WA WB WC NAB (eq_trans NAB NBC) T fuel t s p s' E Vt Ht) as ((St & _) & Fd & Run).
  auto.
Qed.

(* The refinement theorem.  Hypotheses: valid operands over the same variable count and a table that answers on
   total inputs — exactly what guarantees that the recursive engine does not exhaust its fuel; the four flips need
   not be in range and the table need not be consistent. *)
Theorem apply3_stack_eq : forall A B C fa fb fc fo op,
  wf A -> wf B -> wf C -> nvars A = nvars B -> nvars B = nvars C -> total3 op ->
  apply3_stack A B C fa fb fc fo op = apply3 A B C fa fb fc fo op.
Proof.
  intros A B C fa fb fc fo op WA WB WC NAB NBC T.
  exact (apply3_stack_eq_section A B C fa fb fc fo op WA WB WC NAB (eq_trans NAB NBC) T).
Qed.

(* at API level the variable-count guard is part of the function, so only validity and totality remain *)
Corollary fused_ternary_flip_op_stack_eq : forall A B C fa fb fc fo op,
  wf A -> wf B -> wf C -> total3 op ->
  fused_ternary_flip_op_stack A B C fa fb fc fo op = fused_ternary_flip_op_faithful A B C fa fb fc fo op.
Proof.
  intros A B C fa fb fc fo op WA WB WC T. unfold fused_ternary_flip_op_stack, fused_ternary_flip_op_faithful, guard3.
  destruct (N.eqb_spec (nvars A) (nvars B)) as [NAB|NE]; cbn [andb negb]; [|reflexivity].
  destruct (N.eqb_spec (nvars B) (nvars C)) as [NBC|NE]; cbn [andb negb]; [|reflexivity].
  now rewrite apply3_stack_eq.
Qed.

Corollary ternary_op_stack_eq : forall A B C op, wf A -> wf B -> wf C -> total3 op ->
  ternary_op_stack A B C op = ternary_op_faithful A B C op.
Proof. intros. now apply fused_ternary_flip_op_stack_eq. Qed.

Corollary if_then_else_stack_eq : forall A B C, wf A -> wf B -> wf C ->
  if_then_else_stack A B C = if_then_else_faithful A B C.
Proof. intros. apply ternary_op_stack_eq; auto using ite_total3. Qed.

(* ---- transferred statements ---- *)
Theorem apply3_stack_full : forall A B C fa fb fc fo (op : op3) (bop3 : bool -> bool -> bool -> bool),
  wf A -> wf B -> wf C -> nvars A = nvars B -> nvars B = nvars C ->
  (forall x, fa = Some x -> x < nvars A) ->
  (forall x, fb = Some x -> x < nvars A) ->
  (forall x, fc = Some x -> x < nvars A) ->
  (forall a b c, op (Some a) (Some b) (Some c) = Some (bop3 a b c)) ->
  (forall x y z r, op x y z = Some r ->
     forall a b c, ApplySem.refines a x -> ApplySem.refines b y -> ApplySem.refines c z -> bop3 a b c = r) ->
  exists r, apply3_stack A B C fa fb fc fo op = Some r /\ (Canonical r /\ nvars r = nvars A) /\
    forall v, eval r v = bop3 (eval A (oflip fa (oflip fo v))) (eval B (oflip fb (oflip fo v)))
                              (eval C (oflip fc (oflip fo v))).
Proof.
  intros A B C fa fb fc fo op bop3 WA WB WC NAB NBC FA FB FC OT OC.
  rewrite apply3_stack_eq; try assumption; [now apply apply3_full|].
  intros a b c. rewrite OT. discriminate.
Qed.

(* the correctness theorem of the faithful engine (Apply3Sem.fused_ternary_flip_op_faithful_correct), for the machine *)
Theorem fused_ternary_flip_op_stack_correct : forall A B C fa fb fc fo op,
  wf A -> wf B -> wf C -> nvars A = nvars B -> nvars B = nvars C ->
  (flip_ok (nvars A) fa && flip_ok (nvars A) fb && flip_ok (nvars A) fc && flip_ok (nvars A) fo = true) ->
  total3 op -> consistent3 op ->
  exists r, fused_ternary_flip_op_stack A B C fa fb fc fo op = Ok r /\ Canonical r /\ nvars r = nvars A /\
    forall v, eval r v = conn3 op (eval A (oflip fa (oflip fo v))) (eval B (oflip fb (oflip fo v)))
                                  (eval C (oflip fc (oflip fo v))).
Proof.
  intros A B C fa fb fc fo op WA WB WC NAB NBC FL T K.
  rewrite fused_ternary_flip_op_stack_eq by assumption. now apply fused_ternary_flip_op_faithful_correct.
Qed.

(* the machine against the compositional model of Model/Ops.v (five binary applies) *)
Theorem ternary_stack_eq_model : forall A B C fa fb fc fo op,
  wf A -> wf B -> wf C -> total3 op -> consistent3 op ->
  fused_ternary_flip_op_stack A B C fa fb fc fo op = fused_ternary_flip_op A B C fa fb fc fo op.
Proof.
  intros A B C fa fb fc fo op WA WB WC T K.
  rewrite fused_ternary_flip_op_stack_eq by assumption. now apply ternary_faithful_eq.
Qed.

Theorem if_then_else_stack_eq_model : forall A B C, wf A -> wf B -> wf C ->
  if_then_else_stack A B C = if_then_else A B C.
Proof. intros A B C WA WB WC. rewrite if_then_else_stack_eq by assumption. now apply if_then_else_faithful_eq. Qed.

(* no hypotheses: the guards are the same argument checks *)
Theorem fused_ternary_flip_op_stack_panic_iff A B C fa fb fc fo op :
  fused_ternary_flip_op_stack A B C fa fb fc fo op = Panic <->
  (~ (nvars A = nvars B /\ nvars B = nvars C) \/
   flip_ok (nvars A) fa && flip_ok (nvars A) fb && flip_ok (nvars A) fc && flip_ok (nvars A) fo = false).
Proof.
  unfold fused_ternary_flip_op_stack, guard3.
  destruct (N.eqb_spec (nvars A) (nvars B)) as [NAB|NAB]; cbn [andb negb];
    [|split; [intros _; left; intros [H _]; contradiction|reflexivity]].
  destruct (N.eqb_spec (nvars B) (nvars C)) as [NBC|NBC]; cbn [andb negb];
    [|split; [intros _; left; intros [_ H]; contradiction|reflexivity]].
  destruct (flip_ok (nvars A) fa && flip_ok (nvars A) fb && flip_ok (nvars A) fc && flip_ok (nvars A) fo) eqn:F; cbn [negb].
  - split; [|intros [H|H]; [exfalso; apply H; split; assumption|discriminate]].
    destruct (apply3_stack A B C fa fb fc fo op); cbn; discriminate.
  - split; auto.
Qed.

(* a non-trivial instance with all four flips and a table that is total but answers early on partial inputs
   (if-then-else), computed by both engines *)
Example apply3_stack_example :
  let A := [mkNode 4 0 0; mkNode 4 1 1; mkNode 3 1 0; mkNode 3 0 1; mkNode 2 3 2; mkNode 1 2 4; mkNode 1 4 2; mkNode 0 6 5] in
  let B := [mkNode 4 0 0; mkNode 4 1 1; mkNode 3 1 0; mkNode 3 0 1; mkNode 2 3 2; mkNode 2 1 0; mkNode 1 5 4; mkNode 0 6 1] in
  let C := [mkNode 4 0 0; mkNode 4 1 1; mkNode 3 0 1; mkNode 2 2 1; mkNode 1 0 3; mkNode 0 4 2] in
  wfb A = true /\ wfb B = true /\ wfb C = true /\
  apply3_stack A B C (Some 1) (Some 2) (Some 3) (Some 1) ite_function = apply3 A B C (Some 1) (Some 2) (Some 3) (Some 1) ite_function /\
  exists r, apply3_stack A B C (Some 1) (Some 2) (Some 3) (Some 1) ite_function = Some r /\ size r = 10.
Proof. vm_compute. repeat split; try reflexivity. eexists; split; reflexivity. Qed.

(* the machine really runs differently from the recursion: on the example above the root task is popped after
   exactly 18 iterations of the loop body; the task (2,1,2) is pushed twice (iterations 2 and 3) and its second
   copy is found memoised when it reaches the top after 6 iterations (the "skip finished tasks" branch) *)
Example apply3_stack_example_steps :
  let A := [mkNode 4 0 0; mkNode 4 1 1; mkNode 3 1 0; mkNode 3 0 1; mkNode 2 3 2; mkNode 1 2 4; mkNode 1 4 2; mkNode 0 6 5] in
  let B := [mkNode 4 0 0; mkNode 4 1 1; mkNode 3 1 0; mkNode 3 0 1; mkNode 2 3 2; mkNode 2 1 0; mkNode 1 5 4; mkNode 0 6 1] in
  let C := [mkNode 4 0 0; mkNode 4 1 1; mkNode 3 0 1; mkNode 2 2 1; mkNode 1 0 3; mkNode 0 4 2] in
  let run k := stack3_iter A B C (Some 1) (Some 2) (Some 3) (Some 1) ite_function k ([root3 A B C], s03 A) in
  stack_empty3 (run 17%nat) = false /\ stack_empty3 (run 18%nat) = true /\
  fst (run 3%nat) = [(2, 1, 2); (3, 1, 2); (4, 1, 2); (2, 1, 2); (5, 1, 2); (6, 6, 4); (7, 7, 5)] /\
  fst (run 6%nat) = [(2, 1, 2); (5, 1, 2); (6, 6, 4); (7, 7, 5)] /\ tfind3 (2, 1, 2) (finished3 (snd (run 6%nat))) = Some 2 /\
  run 7%nat = (tl (fst (run 6%nat)), snd (run 6%nat)).
Proof. vm_compute. repeat split; reflexivity. Qed.

(* the totality hypothesis is what makes the LOOP terminate (a finding about the Rust code, not an artefact of the
   model): on a table that does not answer a total input the machine reaches a task of three terminal pointers, whose
   two sub-tasks are that task itself (terminal nodes link to themselves), finds neither in `finished`, and pushes two
   more copies in every iteration — the stack grows without bound and no node is ever created.  Here: the table that
   never answers, from iteration 2 on the top of the stack is (1,1,1) and the stack grows by 2 per iteration; the
   bounded runner gives up (None), and so does the recursive engine (fuel). *)
Example apply3_stack_total_table_needed :
  let A := [mkNode 2 0 0; mkNode 2 1 1; mkNode 1 0 1; mkNode 0 0 2] in
  let op : op3 := fun _ _ _ => None in
  let run k := stack3_iter A A A None None None None op k ([root3 A A A], s03 A) in
  wfb A = true /\
  map (fun k => (hd (0, 0, 0) (fst (run k)), length (fst (run k)))) [2; 3; 4; 5; 20]%nat =
    [((1, 1, 1), 5%nat); ((1, 1, 1), 7%nat); ((1, 1, 1), 9%nat); ((1, 1, 1), 11%nat); ((1, 1, 1), 41%nat)] /\
  nodes3 (snd (run 20%nat)) = nodes3 (s03 A) /\
  apply3_stack A A A None None None None op = None /\ apply3 A A A None None None None op = None.
Proof. vm_compute. repeat split; reflexivity. Qed.

Print Assumptions process3_simulated.
Print Assumptions apply3_stack_eq.
Print Assumptions fused_ternary_flip_op_stack_eq.
Print Assumptions if_then_else_stack_eq.
Print Assumptions apply3_stack_full.
Print Assumptions fused_ternary_flip_op_stack_correct.
Print Assumptions ternary_stack_eq_model.
Print Assumptions fused_ternary_flip_op_stack_panic_iff.
