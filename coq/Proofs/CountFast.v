(* Proofs/CountFast.v — the memoised counting functions of Model/CountFast.v compute what the un-memoised
   reference recursions of Model/Count.v compute:
     exact_cardinality_fast_eq, exact_clause_cardinality_fast_eq, cardinality_f64_fast_eq   (for wf operands),
     wfb_fast_eq                                                                             (no hypotheses),
     exact_cardinality_auto_eq, exact_clause_cardinality_auto_eq, cardinality_f64_auto_eq    (no hypotheses).
   Method: one generic argument.  `ref_walk` is the un-memoised recursion over the list, generic in the cached
   value; the three reference recursions are instances (card_fuel_ref, clause_fuel_ref, cardf_fuel_ref).  On a
   well-formed diagram its value at a node does not depend on the fuel once the fuel exceeds nvars - var
   (ref_walk_enough), so "the value of node q" R q := ref_walk (count_fuel b) b q is well defined and obeys the
   unfolding equation (ref_walk_unfold).  The cache invariant is: slots 0 and 1 hold the seeds and every other
   binding q |-> v has v = R q (the cache only ever stores reference values); memo_walk preserves it and returns R p
   (memo_walk_ok). *)
From Coq Require Import List NArith Lia Bool Arith PeanoNat FMapPositive.
Import ListNotations.
From BddVerif Require Import Model.Bdd Model.Apply Model.ApplyFast Model.Count Model.CountFast
  Proofs.Sem Proofs.Canon Proofs.Reflect Proofs.ApplySem Proofs.ApplyTop Proofs.ApplyFast Proofs.RelSem Proofs.CountSem.
Open Scope N_scope.

Module PM := PositiveMap.

(* ------------------------------------------------------------------ *)
(* the generic un-memoised recursion and its fuel irrelevance           *)
Section Walk.
  Variables (V : Type) (exhausted zero one : V) (step : node -> N -> N -> V -> V -> V).

  Fixpoint ref_walk (fuel : nat) (b : bdd) (p : N) : V :=
    match fuel with
    | O => exhausted
    | S f =>
      if p =? 0 then zero else if p =? 1 then one
      else let n := get b p in
           step n (var_of b (nlow n)) (var_of b (nhigh n)) (ref_walk f b (nlow n)) (ref_walk f b (nhigh n))
    end.

  Lemma ref_walk_enough b : wf b -> forall f1 f2 p, valid b p ->
    (N.to_nat (nvars b - var_of b p) < f1)%nat -> (N.to_nat (nvars b - var_of b p) < f2)%nat ->
    ref_walk f1 b p = ref_walk f2 b p.
  Proof.
    intros Hwf. induction f1 as [|f1 IH]; intros f2 p Vp H1 H2; [lia|].
    destruct f2 as [|f2]; [lia|]. cbn [ref_walk].
    destruct (N.eqb_spec p 0) as [|N0]; [reflexivity|]. destruct (N.eqb_spec p 1) as [|N1]; [reflexivity|].
    assert (Hge : 2 <= p) by lia. destruct Vp as (Vp & _).
    destruct (wf_children b p Hwf Hge Vp) as (Vl & Vh & Hl & Hh & Hnv). unfold var_of in *.
    rewrite (IH f2 (nlow (get b p))), (IH f2 (nhigh (get b p))); try assumption; try reflexivity; lia.
  Qed.

  (* the value of a node: the reference recursion with the fuel of the top-level call *)
  Definition R (b : bdd) (q : N) : V := ref_walk (count_fuel b) b q.

  Lemma R_0 b : R b 0 = zero. Proof. reflexivity. Qed.
  Lemma R_1 b : R b 1 = one. Proof. reflexivity. Qed.

  Lemma ref_walk_R b : wf b -> forall fuel p, valid b p ->
    (N.to_nat (nvars b - var_of b p) < fuel)%nat -> ref_walk fuel b p = R b p.
  Proof.
    intros Hwf fuel p Vp Hf. unfold R, count_fuel. apply ref_walk_enough; try assumption. lia.
  Qed.

  Lemma R_unfold b p : wf b -> 2 <= p -> p < size b ->
    R b p = step (get b p) (var_of b (nlow (get b p))) (var_of b (nhigh (get b p)))
                 (R b (nlow (get b p))) (R b (nhigh (get b p))).
  Proof.
    intros Hwf Hp Hlt. unfold R at 1. unfold count_fuel. cbn [ref_walk].
    destruct (N.eqb_spec p 0); [lia|]. destruct (N.eqb_spec p 1); [lia|].
    destruct (wf_children b p Hwf Hp Hlt) as (Vl & Vh & Hl & Hh & Hnv).
    rewrite (ref_walk_R b Hwf (N.to_nat (nvars b)) (nlow (get b p))) by (try assumption; lia).
    rewrite (ref_walk_R b Hwf (N.to_nat (nvars b)) (nhigh (get b p))) by (try assumption; lia).
    reflexivity.
  Qed.

  (* ---------------------------------------------------------------- *)
  (* the cache invariant and the simulation                            *)
  Definition Inv (b : bdd) (c : PM.t V) : Prop :=
    PM.find (pkey 0) c = Some zero /\ PM.find (pkey 1) c = Some one /\
    forall q v, PM.find (pkey q) c = Some v -> v = R b q.

  Lemma Inv_seed b : Inv b (seed zero one).
  Proof.
    unfold Inv, seed. split; [|split].
    - rewrite !find_add_key. reflexivity.
    - rewrite find_add_key. reflexivity.
    - intros q v. rewrite !find_add_key, PM.gempty.
      destruct (N.eqb_spec q 1) as [->|]; [intros E; inversion E; subst v; reflexivity|].
      destruct (N.eqb_spec q 0) as [->|]; [intros E; inversion E; subst v; reflexivity|discriminate].
  Qed.

  Lemma Inv_add b c p : 2 <= p -> Inv b c -> Inv b (PM.add (pkey p) (R b p) c).
  Proof.
    intros Hp (I0 & I1 & Iq). unfold Inv. split; [|split].
    - rewrite find_add_key. destruct (N.eqb_spec 0 p); [lia|assumption].
    - rewrite find_add_key. destruct (N.eqb_spec 1 p); [lia|assumption].
    - intros q v. rewrite find_add_key. destruct (N.eqb_spec q p) as [->|].
      + intros E; inversion E; subst v; reflexivity.
      + apply Iq.
  Qed.

  Section Sim.
    Variables (b : bdd) (M : arr).
    Hypothesis HM : forall p, aget M p = get b p.
    Hypothesis Hwf : wf b.

    Lemma memo_walk_ok : forall fuel p c, valid b p ->
      (N.to_nat (nvars b - var_of b p) < fuel)%nat -> Inv b c ->
      fst (memo_walk V M exhausted step fuel p c) = R b p /\ Inv b (snd (memo_walk V M exhausted step fuel p c)).
    Proof.
      induction fuel as [|f IH]; intros p c Vp Hf HI; [lia|]. cbn [memo_walk].
      destruct (PM.find (pkey p) c) as [v|] eqn:Ef.
      - cbn [fst snd]. split; [|exact HI]. destruct HI as (_ & _ & Iq). apply Iq. exact Ef.
      - assert (Hge : 2 <= p).
        { destruct HI as (I0 & I1 & _). destruct (N.eq_dec p 0) as [->|]; [congruence|].
          destruct (N.eq_dec p 1) as [->|]; [congruence|]. lia. }
        destruct Vp as (Vp & _).
        destruct (wf_children b p Hwf Hge Vp) as (Vl & Vh & Hl & Hh & Hnv).
        rewrite !HM.
        destruct (IH (nhigh (get b p)) c Vh ltac:(lia) HI) as (Eh & I1).
        destruct (memo_walk V M exhausted step f (nhigh (get b p)) c) as [vh c1]. cbn [fst snd] in Eh, I1.
        destruct (IH (nlow (get b p)) c1 Vl ltac:(lia) I1) as (El & I2).
        destruct (memo_walk V M exhausted step f (nlow (get b p)) c1) as [vl c2]. cbn [fst snd] in El, I2.
        cbn [fst snd]. subst vh vl. fold (var_of b (nlow (get b p))). fold (var_of b (nhigh (get b p))).
        rewrite <- (R_unfold b p Hwf Hge Vp). split; [reflexivity|]. apply Inv_add; assumption.
    Qed.

    (* the entry cached for the root after the walk is the reference value of the root *)
    Lemma root_value_ok : root_value (size b) M exhausted zero one step = R b (size b - 1).
    Proof.
      unfold root_value. rewrite HM. change (nvar (get b 0)) with (nvars b).
      apply memo_walk_ok; [apply root_valid; exact Hwf| lia |apply Inv_seed].
    Qed.
  End Sim.
End Walk.

(* ------------------------------------------------------------------ *)
(* the three reference recursions are instances of ref_walk             *)
Lemma card_fuel_ref b : forall fuel p, card_fuel fuel b p = ref_walk N 0 0 1 card_step fuel b p.
Proof.
  induction fuel as [|f IH]; intros p; [reflexivity|]. cbn [card_fuel ref_walk].
  destruct (N.ltb_spec p 2) as [Hlt|Hge].
  - assert (p = 0 \/ p = 1) as [->| ->] by lia; reflexivity.
  - destruct (N.eqb_spec p 0); [lia|]. destruct (N.eqb_spec p 1); [lia|].
    unfold card_step. rewrite !IH. reflexivity.
Qed.

Lemma clause_fuel_ref b : forall fuel p, clause_fuel fuel b p = ref_walk N 0 0 1 clause_step fuel b p.
Proof.
  induction fuel as [|f IH]; intros p; [reflexivity|]. cbn [clause_fuel ref_walk].
  destruct (N.ltb_spec p 2) as [Hlt|Hge].
  - assert (p = 0 \/ p = 1) as [->| ->] by lia; reflexivity.
  - destruct (N.eqb_spec p 0); [lia|]. destruct (N.eqb_spec p 1); [lia|].
    unfold clause_step. rewrite !IH. reflexivity.
Qed.

Lemma cardf_fuel_ref b : forall fuel p, cardf_fuel fuel b p = ref_walk fl FNaN (FFin 0) (FFin 1) cardf_step fuel b p.
Proof.
  induction fuel as [|f IH]; intros p; [reflexivity|]. cbn [cardf_fuel ref_walk].
  destruct (N.ltb_spec p 2) as [Hlt|Hge].
  - assert (p = 0 \/ p = 1) as [->| ->] by lia; reflexivity.
  - destruct (N.eqb_spec p 0); [lia|]. destruct (N.eqb_spec p 1); [lia|].
    unfold cardf_step. rewrite !IH. reflexivity.
Qed.

(* ------------------------------------------------------------------ *)
(* refinement theorems                                                  *)
Theorem exact_cardinality_fast_eq b : wf b -> exact_cardinality_fast b = exact_cardinality b.
Proof.
  intros Hwf. unfold exact_cardinality_fast, exact_cardinality, is_false, cardp.
  destruct (load_get b) as (SB & GB). destruct (load b 0 (PM.empty node)) as [sz M]. cbn [fst snd] in SB, GB. subst sz.
  destruct (size b =? 1); [reflexivity|].
  rewrite (root_value_ok N 0 0 1 card_step b M GB Hwf), GB, card_fuel_ref. reflexivity.
Qed.

Theorem exact_clause_cardinality_fast_eq b : wf b -> exact_clause_cardinality_fast b = exact_clause_cardinality b.
Proof.
  intros Hwf. unfold exact_clause_cardinality_fast, exact_clause_cardinality, is_false.
  destruct (load_get b) as (SB & GB). destruct (load b 0 (PM.empty node)) as [sz M]. cbn [fst snd] in SB, GB. subst sz.
  destruct (size b =? 1); [reflexivity|].
  rewrite (root_value_ok N 0 0 1 clause_step b M GB Hwf), clause_fuel_ref. reflexivity.
Qed.

Theorem cardinality_f64_fast_eq b : wf b -> cardinality_f64_fast b = cardinality_f64 b.
Proof.
  intros Hwf. unfold cardinality_f64_fast, cardinality_f64, is_false, cardfp.
  destruct (load_get b) as (SB & GB). destruct (load b 0 (PM.empty node)) as [sz M]. cbn [fst snd] in SB, GB. subst sz.
  destruct (size b =? 1); [reflexivity|].
  rewrite (root_value_ok fl FNaN (FFin 0) (FFin 1) cardf_step b M GB Hwf), GB, cardf_fuel_ref. reflexivity.
Qed.

(* ------------------------------------------------------------------ *)
(* the linear-time well-formedness checker                              *)
Lemma wf_fromF_spec M sz nv : forall l i,
  wf_fromF M sz nv l i = forallb (wf_nodeF M sz nv) (map N.of_nat (seq (N.to_nat i) (length l))).
Proof.
  induction l as [|n r IH]; intros i; [reflexivity|].
  cbn [wf_fromF length seq map forallb]. rewrite Nnat.N2Nat.id, IH, Nnat.N2Nat.inj_succ. reflexivity.
Qed.

Lemma forallb_pointwise {A} (f g : A -> bool) l : (forall x, f x = g x) -> forallb f l = forallb g l.
Proof. intros H. induction l as [|x r IH]; [reflexivity|]. cbn [forallb]. rewrite H, IH. reflexivity. Qed.

Theorem wfb_fast_eq b : wfb_fast b = wfb b.
Proof.
  unfold wfb_fast, wfb.
  destruct (load_get b) as (SB & GB). destruct (load b 0 (PM.empty node)) as [sz M]. cbn [fst snd] in SB, GB. subst sz.
  rewrite !GB. change (nvar (get b 0)) with (nvars b). f_equal.
  rewrite wf_fromF_spec, skipn_length. change (N.to_nat 2) with 2%nat. unfold idxs.
  apply forallb_pointwise. intros p. unfold wf_nodeF, wf_nodeb, var_of. rewrite !GB. reflexivity.
Qed.

Corollary wfb_fast_sound b : wfb_fast b = true -> wf b.
Proof. rewrite wfb_fast_eq. apply wfb_sound. Qed.

Corollary wfb_fast_complete b : wf b -> wfb_fast b = true.
Proof. rewrite wfb_fast_eq. apply wfb_complete. Qed.

(* ------------------------------------------------------------------ *)
(* the guarded functions equal the reference functions on ALL inputs    *)
Theorem exact_cardinality_auto_eq : forall b, exact_cardinality_auto b = exact_cardinality b.
Proof.
  intros b. unfold exact_cardinality_auto. destruct (wfb_fast b) eqn:W; [|reflexivity].
  apply exact_cardinality_fast_eq, wfb_fast_sound, W.
Qed.

Theorem exact_clause_cardinality_auto_eq : forall b, exact_clause_cardinality_auto b = exact_clause_cardinality b.
Proof.
  intros b. unfold exact_clause_cardinality_auto. destruct (wfb_fast b) eqn:W; [|reflexivity].
  apply exact_clause_cardinality_fast_eq, wfb_fast_sound, W.
Qed.

Theorem cardinality_f64_auto_eq : forall b, cardinality_f64_auto b = cardinality_f64 b.
Proof.
  intros b. unfold cardinality_f64_auto. destruct (wfb_fast b) eqn:W; [|reflexivity].
  apply cardinality_f64_fast_eq, wfb_fast_sound, W.
Qed.

(* transferred specification: the memoised count is the number of satisfying valuations *)
Corollary exact_cardinality_fast_spec b : wf b -> exact_cardinality_fast b = count (nvars b) (eval b).
Proof. intros Hwf. rewrite exact_cardinality_fast_eq by assumption. apply exact_cardinality_spec. assumption. Qed.

(* the hypothesis of the _fast theorems cannot be dropped: on this ill-formed array (two nodes test variable 0 in a
   row) the reference recursion reaches node 2 once with fuel 2 (value 4) and once with fuel 1 (value 0), a cache
   cannot; the guarded functions agree with the reference all the same *)
Example fast_needs_wf :
  let b := [mkNode 2 0 0; mkNode 2 1 1; mkNode 0 1 1; mkNode 0 2 2; mkNode 0 3 2] in
  wfb b = false /\ exact_cardinality b = 4 /\ exact_cardinality_fast b = 12 /\ exact_cardinality_auto b = 4.
Proof. vm_compute. repeat split. Qed.

(* a conjunction of 24 three-literal clauses over 72 variables (7^24 models, 3^24 paths): out of reach for the
   un-memoised recursion, immediate for the memoised one *)
Fixpoint cnf3 (k : nat) (x : N) (acc : bdd) (nxt : N) : bdd :=
  match k with
  | O => acc
  | S k' => let s := size acc in
            cnf3 k' (x - 3) (acc ++ [mkNode (x + 2) 0 nxt; mkNode (x + 1) s nxt; mkNode x (s + 1) nxt]) (s + 2)
  end.
Example fast_example :
  let b := cnf3 24 69 [mkNode 72 0 0; mkNode 72 1 1] 1 in
  size b = 74 /\ wfb_fast b = true /\ exact_cardinality_fast b = 7 ^ 24 /\ exact_clause_cardinality_fast b = 3 ^ 24 /\
  cardinality_f64_fast b = FFin 191581231380566409216.
Proof. vm_compute. repeat split. Qed.

Print Assumptions exact_cardinality_fast_eq.
Print Assumptions exact_clause_cardinality_fast_eq.
Print Assumptions cardinality_f64_fast_eq.
Print Assumptions wfb_fast_eq.
Print Assumptions exact_cardinality_auto_eq.
Print Assumptions exact_clause_cardinality_auto_eq.
Print Assumptions cardinality_f64_auto_eq.
