(* Proofs/SerialBytes.v — the binary format: 10 bytes per node, little-endian split/recombine, read_bytes under
   every schedule (totality), under clean schedules (schedule independence, round trip), and with an injected failure. *)
From Coq Require Import List NArith Lia Bool.
Import ListNotations.
From BddVerif Require Import Model.Bdd Model.Apply Model.Serial Proofs.SerialIO.
Open Scope N_scope.

(* ---------------------------------------------------------------- little endian *)
Lemma le2_bytes x : x < 65536 -> le2 (x mod 256) ((x / 256) mod 256) = x.
Proof.
  intros H. unfold le2.
  pose proof (N.div_mod' x 256). pose proof (N.mod_lt x 256).
  assert (x / 256 < 256) by (apply N.div_lt_upper_bound; lia).
  rewrite (N.mod_small (x / 256)) by assumption. lia.
Qed.

Lemma le4_bytes x : x < 4294967296 ->
  le4 (x mod 256) ((x / 256) mod 256) ((x / 65536) mod 256) ((x / 16777216) mod 256) = x.
Proof.
  intros H. unfold le4.
  assert (E1 : x / 65536 = x / 256 / 256) by (rewrite N.div_div by lia; reflexivity).
  assert (E2 : x / 16777216 = x / 256 / 256 / 256) by (rewrite !N.div_div by lia; reflexivity).
  assert (x / 16777216 < 256) by (apply N.div_lt_upper_bound; lia).
  rewrite (N.mod_small (x / 16777216)) by assumption. rewrite E1, E2.
  pose proof (N.div_mod' x 256). pose proof (N.mod_lt x 256).
  pose proof (N.div_mod' (x / 256) 256). pose proof (N.mod_lt (x / 256) 256).
  pose proof (N.div_mod' (x / 256 / 256) 256). pose proof (N.mod_lt (x / 256 / 256) 256).
  lia.
Qed.

Definition in_range (b : bdd) : Prop :=
  Forall (fun n => nvar n < u16_bound /\ nlow n < u32_bound /\ nhigh n < u32_bound) b.

(* the complete 10-byte records of a byte string (specification of the reader) *)
Fixpoint records (l : list N) : list node :=
  match l with
  | b0 :: b1 :: b2 :: b3 :: b4 :: b5 :: b6 :: b7 :: b8 :: b9 :: r =>
      mkNode (le2 b0 b1) (le4 b2 b3 b4 b5) (le4 b6 b7 b8 b9) :: records r
  | _ => []
  end.

Lemma write_bytes_cons n b :
  write_bytes (n :: b) = le_bytes2 (nvar n) ++ le_bytes4 (nlow n) ++ le_bytes4 (nhigh n) ++ write_bytes b.
Proof.
  unfold write_bytes. cbn [flat_map]. rewrite concat_app. unfold node_byte_pieces. cbn [concat].
  rewrite app_nil_r, <- !app_assoc. reflexivity.
Qed.

Lemma write_bytes_length b : length (write_bytes b) = (10 * length b)%nat.
Proof.
  induction b as [|n b IH]; [reflexivity|]. rewrite write_bytes_cons, !app_length, IH.
  unfold le_bytes2, le_bytes4. cbn [length]. lia.
Qed.

Lemma records_write_bytes b : in_range b -> records (write_bytes b) = b.
Proof.
  induction 1 as [|n b (Hv & Hl & Hh) _ IH]; [reflexivity|].
  rewrite write_bytes_cons. unfold le_bytes2, le_bytes4. cbn [app records].
  rewrite IH, (le2_bytes (nvar n) Hv), (le4_bytes (nlow n) Hl), (le4_bytes (nhigh n) Hh). destruct n; reflexivity.
Qed.

Lemma decode10 buf : length buf = 10%nat ->
  exists nd, decode_record buf = Ok nd /\ forall r, records (buf ++ r) = nd :: records r.
Proof.
  intros H. do 10 (destruct buf as [|? buf]; [discriminate|]). destruct buf; [|discriminate].
  eexists. split; reflexivity.
Qed.

Lemma records_short l : (length l < 10)%nat -> records l = [].
Proof. intros H. do 10 (destruct l as [|? l]; [reflexivity|]). cbn [length] in H. lia. Qed.

(* ---------------------------------------------------------------- read_exact, any schedule *)
Lemma read_exact_full_inv sched : forall need acc data buf data' sched',
  read_exact need acc data sched = (RxFull buf, (data', sched')) ->
  exists a, buf = acc ++ a /\ data = a ++ data' /\ len a = need.
Proof.
  induction sched as [|e r IH]; intros need acc data buf data' sched' H; cbn [read_exact] in H.
  - destruct (take need data) as [a rest] eqn:T. apply take_app in T. destruct T as (E & La).
    destruct (N.eqb_spec (len a) need) as [Q|Q]; inversion H; subst. exists a. auto.
  - destruct e as [k| |e].
    + destruct (take (N.min k need) data) as [a rest] eqn:T. apply take_app in T. destruct T as (E & La).
      cbv zeta in H. destruct (N.eqb_spec (len a) 0) as [Z|NZ]; [discriminate|].
      destruct (N.eqb_spec (len a) need) as [Q|Q]; [inversion H; subst; exists a; auto|].
      destruct (N.ltb_spec (len a) k) as [Lt|Ge]; [discriminate|].
      destruct (IH _ _ _ _ _ _ H) as (a2 & E2 & D2 & L2).
      exists (a ++ a2). split; [rewrite E2, app_assoc; reflexivity|]. split; [rewrite E, D2, app_assoc; reflexivity|].
      rewrite len_app. lia.
    + apply (IH _ _ _ _ _ _ H).
    + destruct (is_intr e); [apply (IH _ _ _ _ _ _ H)|discriminate].
Qed.

Theorem read_bytes_loop_total : forall fuel acc data sched, (length data < fuel)%nat ->
  exists r, read_bytes_loop fuel acc data sched = Ok r.
Proof.
  induction fuel as [|f IH]; intros acc data sched Hf; [lia|]. cbn [read_bytes_loop].
  destruct (read_exact 10 [] data sched) as [[buf|e] [data' sched']] eqn:R.
  - destruct (read_exact_full_inv _ _ _ _ _ _ _ R) as (a & -> & -> & La). cbn [app].
    destruct (decode10 a) as (nd & D & _); [unfold len in La; lia|]. rewrite D. cbn [obind].
    apply IH. rewrite app_length in Hf. unfold len in La. lia.
  - destruct e; eauto.
Qed.

Theorem read_bytes_total data sched :
  read_bytes_sched data sched <> Panic /\ read_bytes_sched data sched <> OutOfFuel.
Proof.
  unfold read_bytes_sched. destruct (read_bytes_loop_total (S (length data)) [] data sched) as (r & E); [lia|].
  rewrite E. split; discriminate.
Qed.

(* ---------------------------------------------------------------- read_exact through a clean prefix *)
Lemma read_exact_clean pre : clean pre -> forall need acc data tail, 0 < need ->
  (need <= chunk_total pre -> need <= len data ->
     exists pre' a data', clean pre' /\ chunk_total pre' = chunk_total pre - need /\ data = a ++ data' /\ len a = need /\
       read_exact need acc data (pre ++ tail) = (RxFull (acc ++ a), (data', pre' ++ tail))) /\
  (chunk_total pre < need -> chunk_total pre <= len data ->
     exists a data', data = a ++ data' /\ len a = chunk_total pre /\
       read_exact need acc data (pre ++ tail) = read_exact (need - chunk_total pre) (acc ++ a) data' tail) /\
  (len data < need -> len data < chunk_total pre ->
     exists st, read_exact need acc data (pre ++ tail) = (RxErr KUnexpectedEof, st)).
Proof.
  induction pre as [|ev r IH]; intros C need acc data tail Hn.
  - cbn [chunk_total app]. split; [intros; lia|]. split; [|intros; lia].
    intros _ _. exists [], data. rewrite app_nil_r, N.sub_0_r. auto.
  - inversion C as [|x y Ce Cr]; subst. destruct ev as [k| |e'].
    2:{ cbn [chunk_total app read_exact]. apply IH; assumption. }
    2:{ cbn in Ce. subst e'. cbn [chunk_total app read_exact is_intr]. apply IH; assumption. }
    cbn in Ce. cbn [chunk_total app read_exact].
    destruct (take (N.min k need) data) as [a rest] eqn:T. apply take_app in T. destruct T as (E & La).
    cbv zeta. rewrite E, len_app in *.
    destruct (N.eqb_spec (len a) 0) as [Z|NZ].
    { (* no data at all *)
      assert (len rest = 0) by lia. split; [intros; lia|]. split; [intros; lia|]. intros _ _. eexists; reflexivity. }
    destruct (N.eqb_spec (len a) need) as [Q|Q].
    { (* buffer filled by this chunk *)
      split; [|split; intros; lia]. intros _ _.
      destruct (N.ltb_spec (len a) k) as [Lt|Ge].
      - exists (EChunk (k - len a) :: r), a, rest. split; [apply clean_putback; assumption|].
        split; [cbn [chunk_total]; lia|]. auto.
      - exists r, a, rest. split; [assumption|]. split; [lia|]. auto. }
    destruct (N.ltb_spec (len a) k) as [Lt|Ge].
    { (* data exhausted inside the chunk *)
      assert (len rest = 0) by lia. split; [intros; lia|]. split; [intros; lia|]. intros _ _. eexists; reflexivity. }
    (* the whole chunk goes into the buffer, which is not yet full *)
    assert (Lk : len a = k) by lia.
    destruct (IH Cr (need - len a) (acc ++ a) rest tail) as (A & B & D); [lia|].
    split; [|split].
    + intros H1 H2. destruct A as (pre' & a2 & d2 & C' & T' & E2 & L2 & R2); [lia|lia|].
      exists pre', (a ++ a2), d2. split; [assumption|]. split; [lia|]. split; [rewrite E2, app_assoc; reflexivity|].
      split; [rewrite len_app; lia|]. rewrite R2, app_assoc. reflexivity.
    + intros H1 H2. destruct B as (a2 & d2 & E2 & L2 & R2); [lia|lia|].
      exists (a ++ a2), d2. split; [rewrite E2, app_assoc; reflexivity|]. split; [rewrite len_app; lia|].
      rewrite R2, app_assoc. f_equal. lia.
    + intros H1 H2. apply D; lia.
Qed.

(* ---------------------------------------------------------------- schedule independence and round trip *)
Lemma read_bytes_loop_clean : forall fuel acc data sched, clean sched -> (length data < fuel)%nat ->
  read_bytes_loop fuel acc data sched = Ok (ROk (rev acc ++ records data)).
Proof.
  induction fuel as [|f IH]; intros acc data sched C Hf; [lia|]. cbn [read_bytes_loop].
  destruct (read_exact_clean sched C 10 [] data [] eq_refl) as (A & B & D). rewrite app_nil_r in *.
  destruct (N.leb_spec 10 (len data)) as [Big|Small].
  - destruct (N.leb_spec 10 (chunk_total sched)) as [CB|CS].
    + destruct A as (pre' & a & d' & C' & _ & E & La & R); [assumption|assumption|].
      rewrite app_nil_r in R. rewrite R. cbn [app].
      destruct (decode10 a) as (nd & Dn & Rn); [unfold len in La; lia|]. rewrite Dn. cbn [obind].
      rewrite IH; [|assumption|rewrite E, app_length in Hf; unfold len in La; lia].
      rewrite E, Rn. cbn [rev]. rewrite <- app_assoc. reflexivity.
    + destruct B as (a & d' & E & La & R); [assumption|lia|]. rewrite R. cbn [app read_exact].
      destruct (take (10 - chunk_total sched) d') as [a2 rest2] eqn:T. apply take_app in T. destruct T as (E2 & La2).
      assert (len d' = len data - chunk_total sched) by (rewrite E, len_app; lia).
      destruct (N.eqb_spec (len a2) (10 - chunk_total sched)) as [Q|Q]; [|lia].
      destruct (decode10 (a ++ a2)) as (nd & Dn & Rn); [unfold len in *; rewrite app_length; lia|]. rewrite Dn. cbn [obind].
      rewrite IH; [|constructor|rewrite E, E2, !app_length in Hf; unfold len in *; lia].
      rewrite E, E2, app_assoc, Rn. cbn [rev]. rewrite <- app_assoc. reflexivity.
  - rewrite (records_short data) by (unfold len in Small; lia). rewrite app_nil_r, rev_append_rev, app_nil_r.
    destruct (N.ltb_spec (len data) (chunk_total sched)) as [CB|CS].
    + destruct D as (st & R); [assumption|assumption|]. rewrite R. reflexivity.
    + destruct B as (a & d' & E & La & R); [lia|assumption|]. rewrite R. cbn [app read_exact].
      destruct (take (10 - chunk_total sched) d') as [a2 rest2] eqn:T. apply take_app in T. destruct T as (E2 & La2).
      assert (len d' = len data - chunk_total sched) by (rewrite E, len_app; lia).
      destruct (N.eqb_spec (len a2) (10 - chunk_total sched)) as [Q|Q]; [lia|]. reflexivity.
Qed.

(* the reader, as a function of the byte stream alone, for every failure-free schedule *)
Theorem read_bytes_sched_indep data sched : clean sched ->
  read_bytes_sched data sched = Ok (ROk (records data)).
Proof. intros C. unfold read_bytes_sched. rewrite read_bytes_loop_clean by (assumption || lia). reflexivity. Qed.

Theorem bytes_roundtrip b sched : in_range b -> clean sched ->
  read_bytes_sched (write_bytes b) sched = Ok (ROk b) /\ length (write_bytes b) = (10 * length b)%nat.
Proof.
  intros R C. split; [|apply write_bytes_length]. rewrite read_bytes_sched_indep by assumption.
  now rewrite records_write_bytes.
Qed.

(* ---------------------------------------------------------------- an injected failure *)
Lemma read_bytes_loop_fail e post : e <> KInterrupted -> e <> KUnexpectedEof ->
  forall fuel acc data pre, clean pre -> chunk_total pre <= len data -> (length data < fuel)%nat ->
  read_bytes_loop fuel acc data (pre ++ EFail e :: post) = Ok RErr.
Proof.
  intros N1 N2. induction fuel as [|f IH]; intros acc data pre C Ht Hf; [lia|]. cbn [read_bytes_loop].
  destruct (read_exact_clean pre C 10 [] data (EFail e :: post) eq_refl) as (A & B & _).
  destruct (N.leb_spec 10 (chunk_total pre)) as [CB|CS].
  - destruct A as (pre' & a & d' & C' & T' & E & La & R); [assumption|lia|]. rewrite R. cbn [app].
    destruct (decode10 a) as (nd & Dn & _); [unfold len in La; lia|]. rewrite Dn. cbn [obind].
    apply IH; [assumption| |rewrite E, app_length in Hf; unfold len in La; lia].
    rewrite E, len_app in Ht. lia.
  - destruct B as (a & d' & E & La & R); [assumption|assumption|]. rewrite R. cbn [read_exact].
    destruct e; cbn [is_intr]; congruence.
Qed.

Theorem read_bytes_fail data pre e post : clean pre -> chunk_total pre <= len data ->
  e <> KInterrupted -> e <> KUnexpectedEof ->
  read_bytes_sched data (pre ++ EFail e :: post) = Ok RErr.
Proof. intros C Ht N1 N2. unfold read_bytes_sched. apply read_bytes_loop_fail; try assumption. lia. Qed.

(* an UnexpectedEof raised by the reader is end of input for read_as_bytes: the records delivered so far are the result *)
Lemma read_bytes_loop_eof post :
  forall fuel acc data pre, clean pre -> chunk_total pre <= len data -> (length data < fuel)%nat ->
  read_bytes_loop fuel acc data (pre ++ EFail KUnexpectedEof :: post) =
  Ok (ROk (rev acc ++ records (firstn (N.to_nat (chunk_total pre)) data))).
Proof.
  induction fuel as [|f IH]; intros acc data pre C Ht Hf; [lia|]. cbn [read_bytes_loop].
  destruct (read_exact_clean pre C 10 [] data (EFail KUnexpectedEof :: post) eq_refl) as (A & B & _).
  destruct (N.leb_spec 10 (chunk_total pre)) as [CB|CS].
  - destruct A as (pre' & a & d' & C' & T' & E & La & R); [assumption|lia|]. rewrite R. cbn [app].
    destruct (decode10 a) as (nd & Dn & Rn); [unfold len in La; lia|]. rewrite Dn. cbn [obind].
    rewrite IH; [|assumption|rewrite E, len_app in Ht; lia|rewrite E, app_length in Hf; unfold len in La; lia].
    rewrite E. replace (N.to_nat (chunk_total pre)) with (length a + N.to_nat (chunk_total pre'))%nat by (unfold len in La; lia).
    rewrite firstn_app_2, Rn. cbn [rev]. rewrite <- app_assoc. reflexivity.
  - destruct B as (a & d' & E & La & R); [assumption|assumption|]. rewrite R. cbn [read_exact is_intr].
    rewrite records_short; [now rewrite app_nil_r, rev_append_rev, app_nil_r|].
    rewrite firstn_length. lia.
Qed.

Theorem read_bytes_eof data pre post : clean pre -> chunk_total pre <= len data ->
  read_bytes_sched data (pre ++ EFail KUnexpectedEof :: post) =
  Ok (ROk (records (firstn (N.to_nat (chunk_total pre)) data))).
Proof. intros C Ht. unfold read_bytes_sched. rewrite read_bytes_loop_eof by (assumption || lia). reflexivity. Qed.

(* writers *)
Theorem write_bytes_sched_clean b sched : clean sched -> write_bytes_sched b sched = (true, write_bytes b).
Proof.
  intros C. unfold write_bytes_sched, write_bytes.
  destruct (write_pieces_clean (flat_map node_byte_pieces b) sched [] C) as (s' & E & _). rewrite E.
  rewrite rev_append_rev, app_nil_r, app_nil_r, rev_involutive. reflexivity.
Qed.

Theorem write_bytes_sched_prefix b sched ok acc : write_bytes_sched b sched = (ok, acc) ->
  exists rest, write_bytes b = acc ++ rest /\ (ok = true -> rest = []).
Proof.
  unfold write_bytes_sched, write_bytes.
  destruct (write_pieces (flat_map node_byte_pieces b) sched []) as [ok' [s' o]] eqn:W. intros H. inversion H; subst.
  destruct (write_pieces_prefix _ _ _ _ _ _ W) as (a & rest & E & O & K). exists rest. split; [|exact K].
  rewrite O, rev_append_rev, !app_nil_r, rev_involutive. exact E.
Qed.

Theorem write_bytes_sched_fail b pre e post : clean pre -> chunk_total pre < len (write_bytes b) -> e <> KInterrupted ->
  write_bytes_sched b (pre ++ EFail e :: post) = (false, firstn (N.to_nat (chunk_total pre)) (write_bytes b)).
Proof.
  intros C Ht Ne. unfold write_bytes_sched. unfold write_bytes in *.
  destruct (write_pieces_fail (flat_map node_byte_pieces b) pre [] e post C Ht Ne) as (s' & E). rewrite E.
  rewrite rev_append_rev, !app_nil_r, rev_involutive. reflexivity.
Qed.
