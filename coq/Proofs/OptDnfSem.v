(* Proofs/OptDnfSem.v — Bdd::to_optimized_dnf (Model/OptDnf.v) on a canonical diagram: the recursion terminates within
   its fuel, neither `assert!` fires, every produced clause stays inside the variable set, the disjunction of the clauses
   is the function of the diagram, and therefore mk_dnf rebuilds the identical array.

   Invariant of `_rec bdd partial results` (lemma opt_rec_sem): if no variable of the support of `bdd` is set in
   `partial`, the call pushes clauses whose disjunction is `bdd /\ partial` and hands `partial` back unchanged (up to
   trailing unset cells).  Inside one call: `bdd = core \/ remaining'` (the `==` test guards every simplification of the
   remainder), the recursion on the core runs with the SAME partial clause, and
   `remaining' = ite(var, remaining'[var:=1], remaining'[var:=0])` is covered by the two branch recursions, whose partial
   clause is extended by the branching literal.  Termination: the core does not depend on the core variable, a
   restriction does not depend on the restricted variable, no operation introduces a dependency, and on canonical
   diagrams "depends on" is exactly membership in support_set (support_exact), so every recursive call is on a strictly
   smaller support. *)
From Coq Require Import List Arith NArith Lia Bool Sorted.
Import ListNotations.
From BddVerif Require Import Model.Bdd Model.Apply Model.Ops Model.Count Model.CountFast Model.Restrict Model.Dnf Model.OptDnf
  Proofs.Sem Proofs.Canon Proofs.Reflect Proofs.ApplyTop Proofs.QuantSem Proofs.RelSem Proofs.PvalSem Proofs.NormalForms
  Proofs.CountSupport Proofs.Restrict Proofs.Paths Proofs.DnfSem.
Open Scope N_scope.

(* ======================================================================================== *)
(* array equality                                                                            *)
Lemma bdd_eqb_eq a : forall b, bdd_eqb a b = true -> a = b.
Proof.
  induction a as [|x a IH]; intros [|y b] H; cbn [bdd_eqb] in H; try discriminate; [reflexivity|].
  apply andb_true_iff in H. destruct H as (H1 & H2).
  f_equal; [|apply IH; exact H2].
  destruct (node_eqb_spec x y) as [E|E]; [exact E|discriminate].
Qed.

Lemma bdd_eqb_refl a : bdd_eqb a a = true.
Proof.
  induction a as [|x a IH]; [reflexivity|]. cbn [bdd_eqb]. rewrite IH, andb_true_r.
  destruct (node_eqb_spec x x) as [E|E]; [reflexivity|contradiction].
Qed.

(* ======================================================================================== *)
(* "does not depend on"                                                                      *)
Definition indep (b : bdd) (x : N) : Prop := forall v c, eval b (upd v x c) = eval b v.

Lemma upd_comm v x y c d : x <> y -> forall z, upd (upd v x c) y d z = upd (upd v y d) x c z.
Proof.
  intros Hxy z. unfold upd.
  destruct (z =? y) eqn:Ey; destruct (z =? x) eqn:Ex; try reflexivity.
  apply N.eqb_eq in Ey. apply N.eqb_eq in Ex. congruence.
Qed.

Lemma upd_twice v x a c : forall z, upd (upd v x a) x c z = upd v x c z.
Proof. intros z. unfold upd. destruct (z =? x); reflexivity. Qed.

Lemma upd_self v x : forall z, upd v x (v x) z = v z.
Proof. intros z. unfold upd. destruct (z =? x) eqn:E; [apply N.eqb_eq in E; subst; reflexivity|reflexivity]. Qed.

Lemma eval_upd_self b v x : eval b (upd v x (v x)) = eval b v.
Proof. apply RelSem.eval_ext. apply upd_self. Qed.

(* a function of the two cofactors w.r.t. x does not depend on x and inherits every independence *)
Lemma indep_cof b r x (f : bool -> bool -> bool) :
  (forall v, eval r v = f (eval b (upd v x false)) (eval b (upd v x true))) ->
  indep r x /\ forall y, indep b y -> indep r y.
Proof.
  intros S. assert (Ix : indep r x).
  { intros v c. rewrite !S. f_equal; apply RelSem.eval_ext; apply upd_twice. }
  split; [exact Ix|]. intros y Iy.
  destruct (N.eq_dec y x) as [->|Hyx]; [exact Ix|].
  intros v c. rewrite !S.
  f_equal.
  - rewrite (RelSem.eval_ext b _ (upd (upd v x false) y c)) by (apply upd_comm; exact Hyx). apply Iy.
  - rewrite (RelSem.eval_ext b _ (upd (upd v x true) y c)) by (apply upd_comm; exact Hyx). apply Iy.
Qed.

Lemma indep_bin a c r (f : bool -> bool -> bool) :
  (forall v, eval r v = f (eval a v) (eval c v)) -> forall y, indep a y -> indep c y -> indep r y.
Proof. intros S y Ia Ic v d. rewrite !S, Ia, Ic. reflexivity. Qed.

Lemma indep_not_support b x : wf b -> ~ In x (support_set b) -> indep b x.
Proof.
  intros W Hn v c. apply eval_not_support; [exact W|].
  destruct (mem x (support b)) eqn:M; [|reflexivity].
  exfalso. apply Hn. apply support_set_in. apply mem_spec. exact M.
Qed.

Lemma support_not_indep b x : Canonical b -> In x (support_set b) -> ~ indep b x.
Proof.
  intros C Hin I. apply (support_exact b x C) in Hin. destruct Hin as (v & Hv).
  apply Hv. unfold flipv. symmetry. apply I.
Qed.

(* a variable of the support separates the two cofactors somewhere *)
Lemma support_cof b x : Canonical b -> In x (support_set b) ->
  exists v, eval b (upd v x false) <> eval b (upd v x true).
Proof.
  intros C Hin. apply (support_exact b x C) in Hin. destruct Hin as (v & Hv).
  exists v. intros E. apply Hv. unfold flipv.
  rewrite <- (eval_upd_self b v x).
  destruct (v x); cbn [negb]; congruence.
Qed.

Lemma support_lt b x : wf b -> In x (support_set b) -> x < nvars b.
Proof.
  intros W Hin. apply support_set_in in Hin. apply support_inv in Hin.
  destruct Hin as (q & Hq2 & Hq & <-).
  destruct W as (_ & _ & _ & Wn). destruct (Wn q Hq2 Hq) as (Hv & _). exact Hv.
Qed.

Lemma support_incl r b : Canonical r -> wf b -> (forall x, indep b x -> indep r x) ->
  forall x, In x (support_set r) -> In x (support_set b).
Proof.
  intros Cr Wb P x Hx.
  destruct (in_dec N.eq_dec x (support_set b)) as [H|H]; [exact H|].
  exfalso. apply (support_not_indep r x Cr Hx). apply P. apply indep_not_support; assumption.
Qed.

Lemma support_shrinks r b y : Canonical r -> wf b -> (forall x, indep b x -> indep r x) ->
  In y (support_set b) -> indep r y -> (length (support_set r) < length (support_set b))%nat.
Proof.
  intros Cr Wb P Hy Iy.
  apply Nat.le_lt_trans with (length (remove N.eq_dec y (support_set b))).
  - apply NoDup_incl_length.
    + apply sorted_lt_nodup. apply support_set_sorted.
    + intros x Hx. apply in_in_remove.
      * intros ->. exact (support_not_indep r y Cr Hx Iy).
      * exact (support_incl r b Cr Wb P x Hx).
  - apply remove_length_lt. exact Hy.
Qed.

Lemma support_nonempty b : wf b -> is_false b = false -> is_true b = false -> support_set b <> [].
Proof.
  intros W F T E. unfold is_false in F. unfold is_true in T.
  apply N.eqb_neq in F. apply N.eqb_neq in T. pose proof (size_pos b W) as P.
  assert (Hin : In (var_of b 2) (support_set b)).
  { apply support_set_in. apply support_in; lia. }
  rewrite E in Hin. exact Hin.
Qed.

(* ======================================================================================== *)
(* the operator steps, in cofactor form                                                      *)
Lemma flip_cof b v x (f : bool -> bool -> bool) : (forall p q, f p q = f q p) ->
  f (eval b v) (eval b (flipv v x)) = f (eval b (upd v x false)) (eval b (upd v x true)).
Proof.
  intros Hc. unfold flipv. rewrite <- (eval_upd_self b v x) at 1.
  destruct (v x); cbn [negb]; [apply Hc|reflexivity].
Qed.

Lemma for_all_step b x : wf b -> x < nvars b ->
  exists r, var_for_all b x = Ok r /\ Canonical r /\ nvars r = nvars b /\
    (forall v, eval r v = eval b (upd v x false) && eval b (upd v x true)) /\
    indep r x /\ (forall y, indep b y -> indep r y).
Proof.
  intros W Hx. destruct (QuantSem.var_for_all_correct b x W Hx) as (r & E & C & Nr & S).
  assert (S' : forall v, eval r v = eval b (upd v x false) && eval b (upd v x true)).
  { intros v. rewrite S. apply flip_cof. apply andb_comm. }
  exists r. split; [exact E|]. split; [exact C|]. split; [exact Nr|]. split; [exact S'|].
  apply (indep_cof b r x andb S').
Qed.

Lemma exists_step b x : wf b -> x < nvars b ->
  exists r, var_exists b x = Ok r /\ Canonical r /\ nvars r = nvars b /\
    (forall v, eval r v = eval b (upd v x false) || eval b (upd v x true)) /\
    (forall y, indep b y -> indep r y).
Proof.
  intros W Hx. destruct (RelSem.var_exists_cofactors b x W Hx) as (r & E & C & Nr & S).
  exists r. split; [exact E|]. split; [exact C|]. split; [exact Nr|]. split; [exact S|].
  apply (indep_cof b r x orb S).
Qed.

Lemma restrict_step b x c : wf b ->
  exists r, var_restrict_o b x c = Ok r /\ Canonical r /\ nvars r = nvars b /\
    (forall v, eval r v = eval b (upd v x c)) /\
    indep r x /\ (forall y, indep b y -> indep r y).
Proof.
  intros W. destruct (var_restrict_faithful_correct b x c W) as (r & E & _ & C & Nr & S).
  exists r. split; [unfold var_restrict_o; rewrite E; reflexivity|].
  split; [exact C|]. split; [exact Nr|]. split; [exact S|].
  apply (indep_cof b r x (fun p q => if c then q else p)).
  intros v. rewrite S. destruct c; reflexivity.
Qed.

Lemma and_not_step a c : wf a -> wf c -> nvars a = nvars c ->
  exists r, bdd_and_not a c = Ok r /\ Canonical r /\ nvars r = nvars a /\
    forall v, eval r v = eval a v && negb (eval c v).
Proof.
  intros Wa Wc NV.
  destruct (binop_ok op_and_not (fun p q => p && negb q) a c None None None and_not_table_ok Wa Wc NV (flips_ok_none _))
    as (r & E & K & Nr & S).
  exists r. split; [exact E|]. split; [exact K|]. split; [exact Nr|]. intros v. rewrite S. reflexivity.
Qed.

(* ======================================================================================== *)
(* the three loops                                                                           *)
Lemma best_core_ok b : wf b -> forall vars best, (forall x, In x vars -> x < nvars b) ->
  exists bc, best_core b vars best = Ok bc /\ (fst bc = fst best \/ In (fst bc) vars).
Proof.
  intros W vars. induction vars as [|x vars IH]; intros best Hr.
  - exists best. split; [reflexivity|left; reflexivity].
  - cbn [best_core].
    destruct (QuantSem.var_for_all_correct b x W (Hr x (or_introl eq_refl))) as (core & E & _).
    rewrite E. cbn [bind].
    destruct (IH (if snd best <? exact_cardinality_auto core then (x, exact_cardinality_auto core) else best)
                 (fun y Hy => Hr y (or_intror Hy))) as (bc & Ebc & Hbc).
    exists bc. split; [exact Ebc|].
    destruct Hbc as [Hbc|Hbc]; [|right; right; exact Hbc].
    destruct (snd best <? exact_cardinality_auto core); cbn [fst] in Hbc; [right; left; symmetry; exact Hbc|left; exact Hbc].
Qed.

Lemma best_split_ok b : wf b -> forall vars best,
  exists bs, best_split b vars best = Ok bs /\ (fst bs = fst best \/ In (fst bs) vars).
Proof.
  intros W vars. induction vars as [|x vars IH]; intros best.
  - exists best. split; [reflexivity|left; reflexivity].
  - cbn [best_split].
    destruct (restrict_step b x true W) as (bt & Et & _). rewrite Et. cbn [bind].
    destruct (restrict_step b x false W) as (bf & Ef & _). rewrite Ef. cbn [bind].
    destruct (IH (if below (size bt + size bf) (snd best) then (x, Some (size bt + size bf)) else best)) as (bs & Ebs & Hbs).
    exists bs. split; [exact Ebs|].
    destruct Hbs as [Hbs|Hbs]; [|right; right; exact Hbs].
    destruct (below (size bt + size bf) (snd best)); cbn [fst] in Hbs; [right; left; symmetry; exact Hbs|left; exact Hbs].
Qed.

Lemma simplify_ok b core : wf b -> Canonical core -> nvars core = nvars b -> (forall y, indep b y -> indep core y) ->
  forall vars rem, (forall x, In x vars -> x < nvars b) -> Canonical rem -> nvars rem = nvars b ->
    (forall v, eval rem v || eval core v = eval b v) -> (forall y, indep b y -> indep rem y) ->
    exists rem', simplify_remaining b core vars rem = Ok rem' /\ Canonical rem' /\ nvars rem' = nvars b /\
      (forall v, eval rem' v || eval core v = eval b v) /\ (forall y, indep b y -> indep rem' y).
Proof.
  intros Wb Cc Nc Pc vars. induction vars as [|x vars IH]; intros rem Hr Cr Nr Sr Pr.
  - exists rem. split; [reflexivity|]. split; [exact Cr|]. split; [exact Nr|]. split; [exact Sr|exact Pr].
  - cbn [simplify_remaining].
    assert (Hx : x < nvars rem) by (rewrite Nr; apply Hr; left; reflexivity).
    destruct (exists_step rem x (canonical_wf _ Cr) Hx) as (s & Es & Cs & Ns & Ss & Ps).
    rewrite Es. cbn [bind].
    destruct (RelSem.bdd_or_correct s core (canonical_wf _ Cs) (canonical_wf _ Cc) ltac:(congruence)) as (u & Eu & Cu & Nu & Su).
    rewrite Eu. cbn [bind].
    destruct (bdd_eqb u b) eqn:Q.
    + apply bdd_eqb_eq in Q. subst u.
      apply IH; [intros y Hy; apply Hr; right; exact Hy|exact Cs|congruence| |].
      * intros v. rewrite <- Su. reflexivity.
      * intros y Iy. apply Ps. apply Pr. exact Iy.
    + apply IH; [intros y Hy; apply Hr; right; exact Hy|exact Cr|exact Nr|exact Sr|exact Pr].
Qed.

(* ======================================================================================== *)
(* partial valuations through pv_get                                                         *)
Definition csat (v : val) (pc : pval) : Prop := forall x c, pv_get pc x = Some c -> v x = c.
Definition pv_range (nv : N) (pc : pval) : Prop := forall x c, pv_get pc x = Some c -> x < nv.
Definition pv_same (p q : pval) : Prop := forall x, pv_get p x = pv_get q x.

Lemma clause_sat_iff v pc : clause_sat v pc = true <-> csat v pc.
Proof.
  unfold clause_sat, csat. rewrite forallb_forall. split.
  - intros H x c Hg. apply pv_cells_in in Hg. specialize (H (x, c) Hg). cbn [fst snd] in H.
    apply eqb_prop in H. exact H.
  - intros H [x c] Hin. cbn [fst snd]. apply pv_cells_in in Hin. rewrite (H x c Hin). apply eqb_reflx.
Qed.

Lemma cells_in_range_iff nv pc : cells_in_range nv pc = true <-> pv_range nv pc.
Proof.
  unfold cells_in_range, pv_range. rewrite forallb_forall. split.
  - intros H x c Hg. apply pv_cells_in in Hg. specialize (H (x, c) Hg). cbn [fst] in H. apply N.ltb_lt. exact H.
  - intros H [x c] Hin. cbn [fst]. apply pv_cells_in in Hin. apply N.ltb_lt. exact (H x c Hin).
Qed.

Lemma pv_get_nil x : pv_get [] x = None.
Proof. unfold pv_get. destruct (N.to_nat x); reflexivity. Qed.

Lemma pv_get_set' pc x d y : pv_get (pv_set pc (N.to_nat x) d) y = if x =? y then d else pv_get pc y.
Proof. apply pv_get_set. Qed.

(* q is pc with the (so far unset) cell x set to d *)
Lemma csat_set v pc q x d : pv_get pc x = None ->
  (forall y, pv_get q y = if x =? y then Some d else pv_get pc y) ->
  (csat v q <-> csat v pc /\ v x = d).
Proof.
  intros Hx Hq. split.
  - intros H. split.
    + intros y c Hy. apply H. rewrite Hq. destruct (x =? y) eqn:E; [|exact Hy].
      apply N.eqb_eq in E. subst y. congruence.
    + apply H. rewrite Hq, N.eqb_refl. reflexivity.
  - intros (H & Hv) y c Hy. rewrite Hq in Hy. destruct (x =? y) eqn:E.
    + apply N.eqb_eq in E. subst y. congruence.
    + apply H. exact Hy.
Qed.

(* ======================================================================================== *)
(* the recursion                                                                             *)
Lemma opt_rec_S f b st : opt_rec (S f) b st =
  if is_false b then Ok st
  else if is_true b then Ok (fst st, fst st :: snd st)
  else
    match support_set b with
    | [] => Panic
    | x0 :: _ =>
      let support := support_set b in
      bind (best_core b support (x0, 0)) (fun bc =>
      bind (if snd bc =? 0 then Ok (b, st)
            else
              bind (var_for_all b (fst bc)) (fun core =>
              bind (opt_rec f core st) (fun st1 =>
              bind (bdd_and_not b core) (fun remaining =>
              if is_false remaining then Panic
              else bind (simplify_remaining b core (support_set core) remaining) (fun rem => Ok (rem, st1))))))
           (fun bs =>
      let b' := fst bs in
      let st1 := snd bs in
      bind (best_split b' support (x0, None)) (fun best =>
      let x := fst best in
      let k := N.to_nat x in
      let pc1 := pv_set (fst st1) k (Some true) in
      bind (var_restrict_o b' x true) (fun bt =>
      bind (opt_rec f bt (pc1, snd st1)) (fun st2 =>
      let pc2 := pv_set (fst st2) k (Some false) in
      bind (var_restrict_o b' x false) (fun bf =>
      bind (opt_rec f bf (pc2, snd st2)) (fun st3 =>
      Ok (pv_set (fst st3) k None, snd st3))))))))
    end.
Proof. reflexivity. Qed.

(* what the clauses pushed by a call denote *)
Definition covers (added : list pval) (v : val) : Prop := exists c, In c added /\ csat v c.

(* postcondition of a call `_rec b pc` started with the results `res` *)
Definition post (b : bdd) (pc : pval) (res : list pval) (o : outcome ost) : Prop :=
  exists pc' added, o = Ok (pc', added ++ res) /\
    pv_same pc' pc /\
    (forall c, In c added -> pv_range (nvars b) c) /\
    forall v, covers added v <-> (eval b v = true /\ csat v pc).

Lemma opt_rec_sem : forall fuel b pc res,
  Canonical b -> (length (support_set b) < fuel)%nat ->
  (forall x, In x (support_set b) -> pv_get pc x = None) ->
  pv_range (nvars b) pc ->
  post b pc res (opt_rec fuel b (pc, res)).
Proof.
  induction fuel as [|f IH]; intros b pc res Cb Hfuel Hfree Hrange; [inversion Hfuel|].
  pose proof (canonical_wf _ Cb) as Wb.
  rewrite opt_rec_S. cbn [fst snd].
  destruct (is_false b) eqn:F.
  { (* constant false: nothing is pushed *)
    exists pc, (@nil pval). split; [reflexivity|]. split; [intros x; reflexivity|]. split; [intros c []|].
    intros v. apply N.eqb_eq in F. rewrite (eval_size1 b v F). split.
    - intros (c & [] & _).
    - intros (H & _). discriminate. }
  destruct (is_true b) eqn:T.
  { (* constant true: the partial clause itself *)
    exists pc, [pc]. split; [reflexivity|]. split; [intros x; reflexivity|]. split.
    - intros c [<-|[]]. exact Hrange.
    - intros v. apply N.eqb_eq in T. rewrite (eval_size2 b v T). split.
      + intros (c & [<-|[]] & H). split; [reflexivity|exact H].
      + intros (_ & H). exists pc. split; [left; reflexivity|exact H]. }
  pose proof (support_nonempty b Wb F T) as Hne.
  destruct (support_set b) as [|x0 sup] eqn:ES; [contradiction|]. clear Hne.
  cbv zeta.
  assert (HS : forall x, In x (x0 :: sup) -> x < nvars b).
  { intros x Hx. apply support_lt; [exact Wb|]. rewrite ES. exact Hx. }
  (* ---- the largest common core ---- *)
  destruct (best_core_ok b Wb (x0 :: sup) (x0, 0) HS) as (bc & Ebc & Hbc).
  rewrite Ebc. cbn [bind].
  assert (Hxc : In (fst bc) (x0 :: sup)).
  { destruct Hbc as [Hbc|Hbc]; [left; symmetry; exact Hbc|exact Hbc]. }
  clear Hbc Ebc.
  (* ---- after the core has been solved ---- *)
  match goal with |- post _ _ _ (bind ?X _) => assert (HB : exists b' pcB addedB, X = Ok (b', (pcB, addedB ++ res)) /\
    Canonical b' /\ nvars b' = nvars b /\ (forall y, indep b y -> indep b' y) /\
    pv_same pcB pc /\ (forall c, In c addedB -> pv_range (nvars b) c) /\
    forall v, (covers addedB v \/ (eval b' v = true /\ csat v pc)) <-> (eval b v = true /\ csat v pc)) end.
  { destruct (snd bc =? 0).
    - exists b, pc, []. split; [reflexivity|]. split; [exact Cb|]. split; [reflexivity|]. split; [intros y H; exact H|].
      split; [intros x; reflexivity|]. split; [intros c []|].
      intros v. split; [intros [(c & [] & _)|H]; exact H|intros H; right; exact H].
    - assert (Hxb : In (fst bc) (support_set b)) by (rewrite ES; exact Hxc).
      destruct (for_all_step b (fst bc) Wb (HS _ Hxc)) as (core & Ec & Cc & Nc & Sc & Ic & Pc).
      rewrite Ec. cbn [bind].
      assert (Hlen : (length (support_set core) < f)%nat).
      { pose proof (support_shrinks core b (fst bc) Cc Wb Pc Hxb Ic). rewrite ES in *. lia. }
      destruct (IH core pc res Cc Hlen) as (pc1 & added1 & E1 & Same1 & Range1 & Sem1).
      { intros x Hx. apply Hfree. rewrite <- ES. exact (support_incl core b Cc Wb Pc x Hx). }
      { rewrite Nc. exact Hrange. }
      rewrite E1. cbn [bind].
      destruct (and_not_step b core Wb (canonical_wf _ Cc) (eq_sym Nc)) as (rem0 & Er & Cr & Nr & Sr).
      rewrite Er. cbn [bind].
      (* assert!(!remaining.is_false()) is dead: the diagram depends on the core variable *)
      assert (Fr : is_false rem0 = false).
      { destruct (is_false rem0) eqn:Fr; [|reflexivity]. exfalso. apply N.eqb_eq in Fr.
        destruct (support_cof b (fst bc) Cb Hxb) as (v & Hv).
        assert (Hcv : eval core v = false).
        { rewrite Sc. destruct (eval b (upd v (fst bc) false)), (eval b (upd v (fst bc) true)); try reflexivity.
          exfalso. apply Hv. reflexivity. }
        assert (Hex : exists c, eval b (upd v (fst bc) c) = true).
        { destruct (eval b (upd v (fst bc) false)) eqn:E0; [exists false; exact E0|].
          destruct (eval b (upd v (fst bc) true)) eqn:E1'; [exists true; exact E1'|]. exfalso. apply Hv. reflexivity. }
        destruct Hex as (c & Hc).
        pose proof (eval_size1 rem0 (upd v (fst bc) c) Fr) as Z.
        rewrite Sr, Hc, (Ic v c), Hcv in Z. discriminate. }
      rewrite Fr.
      destruct (simplify_ok b core Wb Cc Nc Pc (support_set core) rem0) as (rem & Es & Cs & Ns & Ss & Ps).
      { intros x Hx. rewrite <- Nc. apply support_lt; [exact (canonical_wf _ Cc)|exact Hx]. }
      { exact Cr. }
      { exact Nr. }
      { intros v. rewrite Sr. destruct (eval b v) eqn:Ebv, (eval core v) eqn:Ecv; try reflexivity.
        (* core implies b *)
        exfalso. rewrite Sc in Ecv. apply andb_true_iff in Ecv. destruct Ecv as (A0 & A1).
        pose proof (eval_upd_self b v (fst bc)) as U. destruct (v (fst bc)); congruence. }
      { intros y Iy. apply (indep_bin b core rem0 (fun p q => p && negb q) Sr y Iy (Pc y Iy)). }
      rewrite Es. cbn [bind].
      exists rem, pc1, added1. split; [reflexivity|]. split; [exact Cs|]. split; [exact Ns|]. split; [exact Ps|].
      split; [exact Same1|]. split; [intros c Hc; rewrite <- Nc; exact (Range1 c Hc)|].
      intros v. rewrite Sem1. rewrite <- (Ss v). rewrite orb_true_iff. tauto. }
  destruct HB as (b' & pcB & addedB & EB & CB & NB & PB & SameB & RangeB & SemB).
  rewrite EB. cbn [bind fst snd]. clear EB.
  pose proof (canonical_wf _ CB) as WB.
  (* ---- the branching variable ---- *)
  destruct (best_split_ok b' WB (x0 :: sup) (x0, None)) as (best & Ebest & Hbest).
  rewrite Ebest. cbn [bind].
  assert (Hx : In (fst best) (support_set b)).
  { rewrite ES. destruct Hbest as [Hbest|Hbest]; [left; symmetry; exact Hbest|exact Hbest]. }
  clear Hbest Ebest.
  set (x := fst best) in *.
  assert (Hxlt : x < nvars b) by (apply support_lt; assumption).
  assert (Hpcx : pv_get pc x = None) by (apply Hfree; rewrite <- ES; exact Hx).
  (* a restriction of b' on x: smaller support, disjoint from the extended partial clause *)
  assert (Hbranch : forall d r q, Canonical r -> nvars r = nvars b -> indep r x -> (forall y, indep b y -> indep r y) ->
            (forall y, pv_get q y = if x =? y then Some d else pv_get pc y) ->
            (length (support_set r) < f)%nat /\
            (forall y, In y (support_set r) -> pv_get q y = None) /\ pv_range (nvars r) q).
  { intros d r q Cr Nr Ir Pr Hq. split; [|split].
    - pose proof (support_shrinks r b x Cr Wb Pr Hx Ir). rewrite ES in *. lia.
    - intros y Hy. rewrite Hq. destruct (x =? y) eqn:E.
      + apply N.eqb_eq in E. subst y. exfalso. exact (support_not_indep r x Cr Hy Ir).
      + apply Hfree. rewrite <- ES. exact (support_incl r b Cr Wb Pr y Hy).
    - intros y c Hy. rewrite Hq in Hy. rewrite Nr. destruct (x =? y) eqn:E.
      + apply N.eqb_eq in E. subst y. exact Hxlt.
      + exact (Hrange y c Hy). }
  (* ---- true branch ---- *)
  destruct (restrict_step b' x true WB) as (bt & Et & Ct & Nt & St & It & Pt).
  rewrite Et. cbn [bind].
  assert (HqT : forall y, pv_get (pv_set pcB (N.to_nat x) (Some true)) y = if x =? y then Some true else pv_get pc y).
  { intros y. rewrite pv_get_set'. rewrite SameB. reflexivity. }
  destruct (Hbranch true bt _ Ct ltac:(congruence) It (fun y Iy => Pt y (PB y Iy)) HqT) as (LenT & FreeT & RangeT).
  destruct (IH bt (pv_set pcB (N.to_nat x) (Some true)) (addedB ++ res) Ct LenT FreeT RangeT)
    as (pc2 & added2 & E2 & Same2 & Range2 & Sem2).
  rewrite E2. cbn [bind fst snd].
  (* ---- false branch ---- *)
  destruct (restrict_step b' x false WB) as (bf & Ef & Cf & Nf & Sf & If & Pf).
  rewrite Ef. cbn [bind].
  assert (HqF : forall y, pv_get (pv_set pc2 (N.to_nat x) (Some false)) y = if x =? y then Some false else pv_get pc y).
  { intros y. rewrite pv_get_set'. destruct (x =? y) eqn:E; [reflexivity|]. rewrite Same2, HqT, E. reflexivity. }
  destruct (Hbranch false bf _ Cf ltac:(congruence) If (fun y Iy => Pf y (PB y Iy)) HqF) as (LenF & FreeF & RangeF).
  destruct (IH bf (pv_set pc2 (N.to_nat x) (Some false)) (added2 ++ addedB ++ res) Cf LenF FreeF RangeF)
    as (pc3 & added3 & E3 & Same3 & Range3 & Sem3).
  rewrite E3. cbn [bind fst snd].
  (* ---- summary of the call ---- *)
  exists (pv_set pc3 (N.to_nat x) None), (added3 ++ added2 ++ addedB).
  split; [rewrite <- !app_assoc; reflexivity|].
  split.
  { intros y. rewrite pv_get_set'. destruct (x =? y) eqn:E.
    - apply N.eqb_eq in E. subst y. symmetry. exact Hpcx.
    - rewrite Same3, HqF, E. reflexivity. }
  split.
  { intros c Hc. apply in_app_or in Hc. destruct Hc as [Hc|Hc]; [rewrite <- NB, <- Nf; exact (Range3 c Hc)|].
    apply in_app_or in Hc. destruct Hc as [Hc|Hc]; [rewrite <- NB, <- Nt; exact (Range2 c Hc)|exact (RangeB c Hc)]. }
  intros v.
  assert (Happ : covers (added3 ++ added2 ++ addedB) v <-> covers added3 v \/ covers added2 v \/ covers addedB v).
  { unfold covers. split.
    - intros (c & Hc & Hs). apply in_app_or in Hc. destruct Hc as [Hc|Hc]; [left; exists c; tauto|].
      apply in_app_or in Hc. destruct Hc as [Hc|Hc]; [right; left; exists c; tauto|right; right; exists c; tauto].
    - intros [(c & Hc & Hs)|[(c & Hc & Hs)|(c & Hc & Hs)]]; exists c; (split; [|exact Hs]).
      + apply in_or_app. left. exact Hc.
      + apply in_or_app. right. apply in_or_app. left. exact Hc.
      + apply in_or_app. right. apply in_or_app. right. exact Hc. }
  rewrite Happ, Sem3, Sem2, <- (SemB v).
  rewrite (csat_set v pc _ x true Hpcx HqT), (csat_set v pc _ x false Hpcx HqF).
  rewrite St, Sf.
  pose proof (eval_upd_self b' v x) as U.
  destruct (v x) eqn:Evx.
  - split.
    + intros [(_ & _ & D)|[(A & B & _)|A]]; [discriminate| |left; exact A]. right. split; [congruence|exact B].
    + intros [A|(A & B)]; [right; right; exact A|]. right. left. split; [congruence|]. split; [exact B|reflexivity].
  - split.
    + intros [(A & B & _)|[(_ & _ & D)|A]]; [|discriminate|left; exact A]. right. split; [congruence|exact B].
    + intros [A|(A & B)]; [right; right; exact A|]. left. split; [congruence|]. split; [exact B|reflexivity].
Qed.

(* ======================================================================================== *)
(* the public function                                                                       *)
Lemma covers_existsb l v : existsb (clause_sat v) l = true <-> covers l v.
Proof.
  rewrite existsb_exists. unfold covers. split; intros (c & Hc & Hs); exists c; (split; [exact Hc|]); apply clause_sat_iff; exact Hs.
Qed.

Theorem opt_dnf_sem b : Canonical b ->
  exists cs, to_optimized_dnf b = Ok cs /\
    (forall c, In c cs -> cells_in_range (nvars b) c = true) /\
    forall v, eval b v = existsb (clause_sat v) cs.
Proof.
  intros Cb. unfold to_optimized_dnf.
  destruct (is_false b) eqn:F.
  { exists []. split; [reflexivity|]. split; [intros c []|]. intros v. apply N.eqb_eq in F. apply eval_size1. exact F. }
  destruct (is_true b) eqn:T.
  { exists [[]]. split; [reflexivity|]. split; [intros c [<-|[]]; reflexivity|].
    intros v. apply N.eqb_eq in T. rewrite (eval_size2 b v T). reflexivity. }
  destruct (opt_rec_sem (opt_fuel b) b [] [] Cb) as (pc' & added & E & _ & Range & Sem).
  { unfold opt_fuel. lia. }
  { intros x _. apply pv_get_nil. }
  { intros x c Hx. rewrite pv_get_nil in Hx. discriminate. }
  exists (rev added). split; [unfold ost, pval in *; rewrite E; cbn [bind snd]; rewrite app_nil_r; reflexivity|]. split.
  - intros c Hc. apply in_rev in Hc. apply cells_in_range_iff. exact (Range c Hc).
  - intros v. apply bool_eq_of_iff. rewrite covers_existsb. split.
    + intros H. destruct (proj2 (Sem v)) as (c & Hc & Hs).
      { split; [exact H|]. intros x c Hx. rewrite pv_get_nil in Hx. discriminate. }
      exists c. split; [apply in_rev in Hc; exact Hc|exact Hs].
    + intros (c & Hc & Hs). apply in_rev in Hc. apply (Sem v). exists c. split; assumption.
Qed.
Print Assumptions opt_dnf_sem.

(* both assertions are dead and the fuel suffices *)
Corollary opt_dnf_total b : Canonical b -> to_optimized_dnf b <> Panic /\ to_optimized_dnf b <> OutOfFuel.
Proof. intros Cb. destruct (opt_dnf_sem b Cb) as (cs & E & _). rewrite E. split; discriminate. Qed.
Print Assumptions opt_dnf_total.

(* rebuilding from to_optimized_dnf() returns the identical array *)
Theorem optimized_dnf_roundtrip b : Canonical b ->
  exists cs, to_optimized_dnf b = Ok cs /\ mk_dnf (nvars b) cs = Ok b.
Proof.
  intros Cb. destruct (opt_dnf_sem b Cb) as (cs & E & R & S).
  exists cs. split; [exact E|]. apply dnf_check_complete; assumption.
Qed.
Print Assumptions optimized_dnf_roundtrip.

(* ... and so does the library's own mk_dnf recursion (Model/Dnf.v) *)
Theorem optimized_dnf_faithful_roundtrip b : Canonical b ->
  exists cs, to_optimized_dnf b = Ok cs /\ mk_dnf_faithful (nvars b) cs = Ok b.
Proof.
  intros Cb. destruct (opt_dnf_sem b Cb) as (cs & E & R & S).
  exists cs. split; [exact E|]. rewrite (mk_dnf_faithful_eq_model (nvars b) cs R).
  apply dnf_check_complete; assumption.
Qed.
Print Assumptions optimized_dnf_faithful_roundtrip.

(* a non-trivial instance: (x0 /\ x2) \/ (~x0 /\ x1) over 4 variables: core x1 /\ x2 (for all x0), then the branches on x0 *)
Definition ex_opt : bdd := [mkNode 4 0 0; mkNode 4 1 1; mkNode 2 0 1; mkNode 1 0 1; mkNode 0 3 2].
Example opt_dnf_example :
  canonicalb ex_opt = true /\
  to_optimized_dnf ex_opt = Ok [[None; Some true; Some true]; [Some true; Some false; Some true]; [Some false; Some true; Some false]] /\
  mk_dnf 4 [[None; Some true; Some true]; [Some true; Some false; Some true]; [Some false; Some true; Some false]] = Ok ex_opt.
Proof. vm_compute. repeat split. Qed.
