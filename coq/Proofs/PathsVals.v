(* Proofs/PathsVals.v — valuations of a clause (2^k, each once, exactly the extensions), the step-faithful
   counter `val_next`/`clause_iter` refines the structural list, and sat_valuations is exactly the satisfying set. *)
From Coq Require Import List NArith Lia Bool PeanoNat.
Import ListNotations.
From BddVerif Require Import Model.Bdd Model.Apply Model.Ops Model.Paths Proofs.Sem Proofs.Canon Proofs.PvalSem
  Proofs.NormalForms Proofs.Paths.
Open Scope N_scope.

(* number of free (unset) positions of the clause among the first n variables *)
Fixpoint free_count (n : nat) (clause : pval) : nat :=
  match n with
  | O => O
  | S m => ((match hd None clause with None => 1 | Some _ => 0 end) + free_count m (tl clause))%nat
  end.

(* the list l agrees with the clause on every position it has *)
Fixpoint matchb (l : list bool) (clause : pval) : bool :=
  match l with
  | [] => true
  | x :: r => (match hd None clause with Some c => Bool.eqb c x | None => true end) && matchb r (tl clause)
  end.

Lemma nth_tl {A} (l : list A) i d : nth i (tl l) d = nth (S i) l d.
Proof. destruct l; [destruct i; reflexivity|reflexivity]. Qed.

Lemma hd_nth {A} (l : list A) d : hd d l = nth 0 l d.
Proof. destruct l; reflexivity. Qed.

Lemma matchb_spec l : forall clause,
  matchb l clause = true <-> forall i c, (i < length l)%nat -> nth i clause None = Some c -> nth i l false = c.
Proof.
  induction l as [|x r IH]; intros clause; cbn [matchb length].
  - split; [intros _ i c Hi; lia|reflexivity].
  - rewrite andb_true_iff, IH. split.
    + intros (H0 & Hr) i c Hi Hn. destruct i as [|i].
      * rewrite hd_nth, Hn in H0. cbn [nth]. apply eqb_prop in H0. now symmetry.
      * cbn [nth]. apply (Hr i c); [lia|]. now rewrite nth_tl.
    + intros H. split.
      * rewrite hd_nth. destruct (nth 0 clause None) as [c|] eqn:E; [|reflexivity].
        specialize (H O c ltac:(lia) E). cbn [nth] in H. subst. apply eqb_reflx.
      * intros i c Hi Hn. rewrite nth_tl in Hn. apply (H (S i) c); [lia|exact Hn].
Qed.

Lemma length_flat_map2 {A B} (f : A -> list B) l : (forall x, length (f x) = 2%nat) -> length (flat_map f l) = (2 * length l)%nat.
Proof.
  intros H. induction l as [|a l IH]; [reflexivity|]. cbn [flat_map length]. rewrite app_length, H, IH. lia.
Qed.

(* ------------------------------------------------------------------------------------------ *)
(* the structural list: 2^k items, no duplicates, exactly the matching lists of length n        *)
Lemma cvn_spec n : forall clause,
  length (clause_valuations_nat n clause) = Nat.pow 2 (free_count n clause) /\
  NoDup (clause_valuations_nat n clause) /\
  forall l, In l (clause_valuations_nat n clause) <-> length l = n /\ matchb l clause = true.
Proof.
  induction n as [|m IH]; intros clause.
  - cbn. split; [reflexivity|]. split; [constructor; [intros []|constructor]|].
    intros l. split.
    + intros [<-|[]]. split; reflexivity.
    + intros (H & _). destruct l; [now left|discriminate].
  - destruct (IH (tl clause)) as (Len & ND & Mem). cbn [clause_valuations_nat free_count].
    destruct (hd None clause) as [c|] eqn:Hd.
    + split; [rewrite map_length; exact Len|]. split; [apply NoDup_map_cons, ND|].
      intros l. rewrite in_map_iff. split.
      * intros (r & <- & Hr). apply Mem in Hr. destruct Hr as (Hl & Hm). cbn [length matchb]. rewrite Hd, eqb_reflx, Hm.
        split; [lia|reflexivity].
      * intros (Hl & Hm). destruct l as [|x r]; [discriminate|]. cbn [matchb] in Hm. rewrite Hd in Hm.
        apply andb_true_iff in Hm. destruct Hm as (Hx & Hm). apply eqb_prop in Hx. subst x.
        exists r. split; [reflexivity|]. apply Mem. cbn [length] in Hl. split; [lia|exact Hm].
    + split; [|split].
      * rewrite length_flat_map2 by reflexivity. rewrite Len. cbn [Nat.add Nat.pow]. lia.
      * apply NoDup_flat_map; [exact ND| |].
        -- intros r _. constructor; [intros [E|[]]; discriminate|constructor; [intros []|constructor]].
        -- intros r1 r2 z _ _ H1 H2.
           destruct H1 as [<-|[<-|[]]]; destruct H2 as [E|[E|[]]]; inversion E; reflexivity.
      * intros l. rewrite in_flat_map. split.
        -- intros (r & Hr & Hl). apply Mem in Hr. destruct Hr as (Hlen & Hm).
           destruct Hl as [<-|[<-|[]]]; cbn [length matchb]; rewrite Hd, Hm; (split; [lia|reflexivity]).
        -- intros (Hl & Hm). destruct l as [|x r]; [discriminate|]. cbn [matchb] in Hm. rewrite Hd in Hm.
           cbn [andb] in Hm. exists r. split; [apply Mem; cbn [length] in Hl; split; [lia|exact Hm]|].
           destruct x; [right; left|left]; reflexivity.
Qed.

(* free positions + fixed cells = nv when the clause lies inside nv *)
Lemma free_count_cells n : forall pv i, (forall x c, In (x, c) (pv_cells_from i pv) -> x < i + N.of_nat n) ->
  (free_count n pv + length (pv_cells_from i pv) = n)%nat.
Proof.
  induction n as [|m IH]; intros pv i H.
  - cbn [free_count]. destruct (pv_cells_from i pv) as [|[x c] l] eqn:E; [reflexivity|].
    exfalso. assert (Hin : In (x, c) (pv_cells_from i pv)) by (rewrite E; now left).
    pose proof (H x c (or_introl eq_refl)). apply pv_cells_from_in in Hin. lia.
  - cbn [free_count]. destruct pv as [|a r].
    + cbn [hd tl pv_cells_from length]. specialize (IH [] (i + 1)). cbn [pv_cells_from length] in IH.
      rewrite <- (IH ltac:(intros x c [])) at 2. lia.
    + cbn [hd tl]. assert (Hr : forall x c, In (x, c) (pv_cells_from (i + 1) r) -> x < i + 1 + N.of_nat m).
      { intros x c Hin. assert (x < i + N.of_nat (S m)); [|lia]. apply (H x c).
        cbn [pv_cells_from]. destruct a; [right|]; exact Hin. }
      specialize (IH r (i + 1) Hr). destruct a as [d|]; cbn [pv_cells_from length]; lia.
Qed.

Lemma free_count_in_range nv clause : cells_in_range nv clause = true ->
  (free_count (N.to_nat nv) clause + length (pv_cells clause) = N.to_nat nv)%nat.
Proof.
  intros H. apply free_count_cells. intros x c Hin. unfold cells_in_range in H. rewrite forallb_forall in H.
  specialize (H _ Hin). cbn [fst] in H. apply N.ltb_lt in H. lia.
Qed.

(* C08: an iterator over the valuations of a clause yields exactly the 2^k total valuations extending it, once each *)
Theorem clause_valuations_exact clause nv :
  length (clause_valuations clause nv) = Nat.pow 2 (free_count (N.to_nat nv) clause) /\
  NoDup (clause_valuations clause nv) /\
  forall l, In l (clause_valuations clause nv) <->
            length l = N.to_nat nv /\ forall x c, x < nv -> pv_get clause x = Some c -> nth (N.to_nat x) l false = c.
Proof.
  unfold clause_valuations. destruct (cvn_spec (N.to_nat nv) clause) as (Len & ND & Mem).
  split; [exact Len|]. split; [exact ND|]. intros l. rewrite Mem, matchb_spec. split.
  - intros (Hl & H). split; [exact Hl|]. intros x c Hx Hg. apply H; [lia|exact Hg].
  - intros (Hl & H). split; [exact Hl|]. intros i c Hi Hn.
    specialize (H (N.of_nat i) c ltac:(lia)). unfold pv_get in H. rewrite Nnat.Nat2N.id in H. apply H, Hn.
Qed.

Corollary clause_valuations_count clause nv : cells_in_range nv clause = true ->
  length (clause_valuations clause nv) = Nat.pow 2 (N.to_nat nv - length (pv_cells clause)).
Proof.
  intros H. rewrite (proj1 (clause_valuations_exact clause nv)). f_equal. pose proof (free_count_in_range nv clause H). lia.
Qed.

(* ------------------------------------------------------------------------------------------ *)
(* refinement: the step-faithful counter produces the structural list                           *)
Fixpoint chained (clause : pval) (L : list (list bool)) : Prop :=
  match L with
  | [] => True
  | a :: r => match r with
              | [] => val_next a clause = Ok None
              | b :: _ => val_next a clause = Ok (Some b) /\ chained clause r
              end
  end.

Lemma chained_map_some clause c : hd None clause = Some c -> forall L,
  chained (tl clause) L -> chained clause (map (cons c) L).
Proof.
  intros Hd. induction L as [|a [|b r] IH]; intros H; cbn [map chained] in *.
  - exact I.
  - cbn [val_next]. rewrite Hd, eqb_reflx, H. reflexivity.
  - destruct H as (H1 & H2). split; [cbn [val_next]; rewrite Hd, eqb_reflx, H1; reflexivity|]. apply IH, H2.
Qed.

Lemma chained_flat_none clause : hd None clause = None -> forall L,
  chained (tl clause) L -> chained clause (flat_map (fun r => [false :: r; true :: r]) L).
Proof.
  intros Hd. induction L as [|a [|b r] IH]; intros H; cbn [flat_map app chained] in *.
  - exact I.
  - split; [cbn [val_next]; rewrite Hd; reflexivity|]. cbn [val_next]. rewrite Hd, H. reflexivity.
  - destruct H as (H1 & H2). split; [cbn [val_next]; rewrite Hd; reflexivity|].
    split; [cbn [val_next]; rewrite Hd, H1; reflexivity|]. apply IH, H2.
Qed.

Lemma cvn_chained n : forall clause, chained clause (clause_valuations_nat n clause).
Proof.
  induction n as [|m IH]; intros clause; cbn [clause_valuations_nat].
  - reflexivity.
  - destruct (hd None clause) as [c|] eqn:Hd.
    + apply chained_map_some; [exact Hd|apply IH].
    + apply chained_flat_none; [exact Hd|apply IH].
Qed.

Lemma iter_chained clause : forall L a fuel, chained clause (a :: L) -> (length L < fuel)%nat ->
  clause_iter_from fuel a clause = Ok (a :: L).
Proof.
  induction L as [|b r IH]; intros a fuel H Hf; (destruct fuel as [|f]; [lia|]); cbn [clause_iter_from chained] in *.
  - rewrite H. reflexivity.
  - destruct H as (H1 & H2). rewrite H1. rewrite (IH b f H2 ltac:(cbn [length] in Hf; lia)). reflexivity.
Qed.

(* the first item: all positions false except the positive literals *)
Fixpoint first_nat (n : nat) (clause : pval) : list bool :=
  match n with
  | O => []
  | S m => (match hd None clause with Some c => c | None => false end) :: first_nat m (tl clause)
  end.

Lemma cvn_first n : forall clause, exists r, clause_valuations_nat n clause = first_nat n clause :: r.
Proof.
  induction n as [|m IH]; intros clause; cbn [clause_valuations_nat first_nat]; [now exists []|].
  destruct (IH (tl clause)) as (r & E). rewrite E. destruct (hd None clause) as [c|].
  - exists (map (cons c) r). reflexivity.
  - cbn [flat_map app]. eexists. reflexivity.
Qed.

Lemma first_nat_seq n : forall clause,
  map (fun i => match pv_get clause (N.of_nat i) with Some true => true | _ => false end) (seq 0 n) = first_nat n clause.
Proof.
  induction n as [|m IH]; intros clause; [reflexivity|].
  cbn [seq map first_nat]. rewrite <- seq_shift, map_map. f_equal.
  - unfold pv_get. cbn. rewrite hd_nth. destruct (nth 0 clause None) as [[|]|]; reflexivity.
  - rewrite <- IH. apply map_ext. intros i. unfold pv_get. rewrite !Nnat.Nat2N.id. now rewrite nth_tl.
Qed.

Definition positive_inside (clause : pval) (nv : N) : Prop := forall x, pv_get clause x = Some true -> x < nv.

Lemma first_valuation_ok clause nv : positive_inside clause nv ->
  first_valuation clause nv = Ok (first_nat (N.to_nat nv) clause).
Proof.
  intros H. unfold first_valuation.
  replace (forallb _ (pv_cells clause)) with true; [now rewrite first_nat_seq|].
  symmetry. apply forallb_forall. intros [x c] Hin. cbn [fst snd]. destruct c; [|reflexivity].
  apply pv_cells_in in Hin. cbn [negb orb]. apply N.ltb_lt, H, Hin.
Qed.

(* ValuationsOfClauseIterator (new + repeated next) yields the structural list ... *)
Theorem clause_iter_refines clause nv : positive_inside clause nv ->
  clause_iter clause nv = Ok (clause_valuations clause nv).
Proof.
  intros H. unfold clause_iter. rewrite (first_valuation_ok clause nv H). cbn [bind].
  unfold clause_valuations. destruct (cvn_first (N.to_nat nv) clause) as (r & E).
  pose proof (cvn_chained (N.to_nat nv) clause) as C. rewrite E in *.
  apply iter_chained; [exact C|cbn [length]; lia].
Qed.

(* ... and panics exactly when a positive literal lies outside the variable count (index out of bounds) *)
Theorem clause_iter_panic_iff clause nv :
  clause_iter clause nv = Panic <-> exists x, nv <= x /\ pv_get clause x = Some true.
Proof.
  split.
  - intros E. unfold clause_iter, first_valuation in E.
    destruct (forallb _ (pv_cells clause)) eqn:F.
    + exfalso. assert (P : positive_inside clause nv).
      { intros x Hx. apply pv_cells_in in Hx. rewrite forallb_forall in F. specialize (F _ Hx). cbn [fst snd negb orb] in F.
        now apply N.ltb_lt. }
      pose proof (clause_iter_refines clause nv P) as R. unfold clause_iter, first_valuation in R. rewrite F in R. congruence.
    + destruct (forallb_false_ex _ _ F) as ([x c] & Hin & Hx). cbn [fst snd] in Hx.
      destruct c; [|discriminate]. cbn [negb orb] in Hx. apply N.ltb_ge in Hx. apply pv_cells_in in Hin. now exists x.
  - intros (x & Hx & Hg). unfold clause_iter, first_valuation.
    replace (forallb _ (pv_cells clause)) with false; [reflexivity|]. symmetry. apply not_true_is_false. intros F.
    rewrite forallb_forall in F. apply pv_cells_in in Hg. specialize (F _ Hg). cbn [fst snd negb orb] in F. apply N.ltb_lt in F. lia.
Qed.

(* ------------------------------------------------------------------------------------------ *)
(* sat_valuations                                                                              *)
Lemma matchb_path l q : asc 0 q -> Forall (fun xc => fst xc < N.of_nat (length l)) q ->
  matchb l (clause_of_path q) = extends (val_of_list l) q.
Proof.
  intros Ha Hr. apply eq_true_iff_eq. rewrite matchb_spec. unfold extends. rewrite forallb_forall. split.
  - intros H [x c] Hin. unfold lit, val_of_list. cbn [fst snd]. rewrite Forall_forall in Hr. pose proof (Hr _ Hin) as Hx. cbn [fst] in Hx.
    rewrite (H (N.to_nat x) c); [apply eqb_reflx|lia|].
    apply (clause_of_path_cells 0 q Ha) in Hin. apply pv_cells_in in Hin. exact Hin.
  - intros H i c Hi Hn. assert (Hin : In (N.of_nat i, c) q).
    { apply (clause_of_path_cells 0 q Ha). apply pv_cells_in. unfold pv_get. now rewrite Nnat.Nat2N.id. }
    specialize (H _ Hin). unfold lit, val_of_list in H. cbn [fst snd] in H. rewrite Nnat.Nat2N.id in H. now apply eqb_prop in H.
Qed.

Lemma sat_valuations_flat b : sat_valuations b = flat_map (fun q => clause_valuations (clause_of_path q) (nvars b)) (paths b).
Proof. unfold sat_valuations, sat_clauses. rewrite !flat_map_concat_map, map_map. reflexivity. Qed.

Lemma in_clause_valuations_path b l q : wf b -> In q (paths b) ->
  (In l (clause_valuations (clause_of_path q) (nvars b)) <-> length l = N.to_nat (nvars b) /\ extends (val_of_list l) q = true).
Proof.
  intros Hwf Hq. destruct (paths_shape b Hwf q Hq) as (A & F).
  unfold clause_valuations. rewrite (proj2 (proj2 (cvn_spec _ _))). split; intros (Hl & H); (split; [exact Hl|]).
  - rewrite <- matchb_path; [exact H|exact A|]. rewrite Hl, Nnat.N2Nat.id. exact F.
  - rewrite matchb_path; [exact H|exact A|]. rewrite Hl, Nnat.N2Nat.id. exact F.
Qed.

(* C08: sat_valuations yields every satisfying valuation exactly once and nothing else *)
Theorem sat_valuations_exact b : wf b ->
  NoDup (sat_valuations b) /\
  forall l, In l (sat_valuations b) <-> length l = N.to_nat (nvars b) /\ eval b (val_of_list l) = true.
Proof.
  intros Hwf. rewrite sat_valuations_flat. split.
  - apply NoDup_flat_map.
    + apply paths_nodup.
    + intros q _. apply clause_valuations_exact.
    + intros q1 q2 l H1 H2 L1 L2. apply (in_clause_valuations_path b l q1 Hwf H1) in L1.
      apply (in_clause_valuations_path b l q2 Hwf H2) in L2.
      apply (paths_disjoint b q1 q2 (val_of_list l) H1 H2); tauto.
  - intros l. rewrite in_flat_map. split.
    + intros (q & Hq & Hl). apply (in_clause_valuations_path b l q Hwf Hq) in Hl. destruct Hl as (Hl & He).
      split; [exact Hl|]. apply (paths_sat b Hwf q _ Hq He).
    + intros (Hl & He). destruct (paths_cover b Hwf _ He) as (q & Hq & Hx). exists q. split; [exact Hq|].
      apply (in_clause_valuations_path b l q Hwf Hq). split; assumption.
Qed.

(* the valuation iterators built on the step-faithful clause iterator give the same list *)
Lemma concat_clause_iters_ok nv : forall cs, (forall c, In c cs -> positive_inside c nv) ->
  concat_clause_iters cs nv = Ok (flat_map (fun c => clause_valuations c nv) cs).
Proof.
  induction cs as [|c cs IH]; intros H; [reflexivity|]. cbn [concat_clause_iters flat_map].
  rewrite (clause_iter_refines c nv (H c (or_introl eq_refl))). cbn [bind].
  rewrite IH by (intros c' Hc'; apply H; now right). reflexivity.
Qed.

Lemma sat_clauses_positive_inside b : wf b -> forall c, In c (sat_clauses b) -> positive_inside c (nvars b).
Proof.
  intros Hwf c Hc x Hx. pose proof (to_dnf_in_range b Hwf c Hc) as R. unfold cells_in_range in R. rewrite forallb_forall in R.
  apply pv_cells_in in Hx. specialize (R _ Hx). now apply N.ltb_lt in R.
Qed.

(* owned iterators hand back the unchanged Bdd *)
Theorem owned_back_unchanged b k : owned_back b k = (b, b).
Proof. reflexivity. Qed.
