(* Proofs/ExprGrammar.v — the parser accepts exactly the documented grammar (DESIGN.md §4 C14), with the
   documented precedence, right associativity and the non-nesting conditional:
     iff ::= imp | imp <=> iff      imp ::= cnd | cnd => imp      cnd ::= or | or ? or : or
     or ::= and | and '|' or        and ::= xor | xor & and       xor ::= t | t ^ xor
     t ::= ! t | id | true | false | ( iff )
   stated over token trees (a parenthesised group is one token). *)
From Coq Require Import List NArith Bool Lia Arith.
Import ListNotations.
From BddVerif Require Import Model.Bdd Model.Apply Model.Ops Model.Expr Proofs.ExprParse Proofs.ExprShow.
Local Open Scope nat_scope.

Inductive G : level -> list token -> expr -> Prop :=
| G_iff_op l r a b : G LImp l a -> G LIff r b -> G LIff (l ++ TIff :: r) (EIff a b)
| G_iff_in ts e : G LImp ts e -> G LIff ts e
| G_imp_op l r a b : G LCond l a -> G LImp r b -> G LImp (l ++ TImp :: r) (EImp a b)
| G_imp_in ts e : G LCond ts e -> G LImp ts e
| G_cond_op l m r a b c : G LOr l a -> G LOr m b -> G LOr r c ->
    G LCond (l ++ TQuestion :: m ++ TColon :: r) (ECond a b c)
| G_cond_in ts e : G LOr ts e -> G LCond ts e
| G_or_op l r a b : G LAnd l a -> G LOr r b -> G LOr (l ++ TOr :: r) (EOr a b)
| G_or_in ts e : G LAnd ts e -> G LOr ts e
| G_and_op l r a b : G LXor l a -> G LAnd r b -> G LAnd (l ++ TAnd :: r) (EAnd a b)
| G_and_in ts e : G LXor ts e -> G LAnd ts e
| G_xor_op l r a b : G LTerm l a -> G LXor r b -> G LXor (l ++ TXor :: r) (EXor a b)
| G_xor_in ts e : G LTerm ts e -> G LXor ts e
| G_not ts a : G LTerm ts a -> G LTerm (TNot :: ts) (ENot a)
| G_id x : G LTerm [TId x] (atom_of x)          (* id | true | false *)
| G_group inner e : G LIff inner e -> G LTerm [TGroup inner] e.

Definition glv (lv : level) : level := match lv with LFormula => LIff | _ => lv end.

Lemma G_up ts e : G LTerm ts e -> G LIff ts e.
Proof. intros H. apply G_iff_in, G_imp_in, G_cond_in, G_or_in, G_and_in, G_xor_in, H. Qed.

(* ------------------------------------------------------------------ soundness: parse = Ok e  ->  derivation *)
Lemma is_iff_eq t : is_iff t = true -> t = TIff. Proof. destruct t; cbn; congruence. Qed.
Lemma is_imp_eq t : is_imp t = true -> t = TImp. Proof. destruct t; cbn; congruence. Qed.
Lemma is_or_eq t : is_or t = true -> t = TOr. Proof. destruct t; cbn; congruence. Qed.
Lemma is_and_eq t : is_and t = true -> t = TAnd. Proof. destruct t; cbn; congruence. Qed.
Lemma is_xor_eq t : is_xor t = true -> t = TXor. Proof. destruct t; cbn; congruence. Qed.
Lemma is_question_eq t : is_question t = true -> t = TQuestion. Proof. destruct t; cbn; congruence. Qed.
Lemma is_colon_eq t : is_colon t = true -> t = TColon. Proof. destruct t; cbn; congruence. Qed.

Lemma sound_bin f lv p mk next ts e tk :
  (forall t, p t = true -> t = tk) ->
  (forall lv ts e, parse_at f lv ts = POk e -> G (glv lv) ts e) ->
  binary_step f lv p mk next ts = POk e ->
  (exists l r a b, ts = l ++ tk :: r /\ e = mk a b /\ G (glv next) l a /\ G (glv lv) r b) \/ G (glv next) ts e.
Proof.
  intros Hp IH H. destruct (index_of p ts) as [i|] eqn:Hi.
  - left. rewrite (binary_step_some _ _ _ _ _ _ _ Hi) in H.
    apply pbind_ok in H as (a & Ha & H). apply pbind_ok in H as (b & Hb & H). injection H as <-.
    destruct (index_of_split _ _ _ Hi) as (t & E & Ht & _). rewrite (Hp _ Ht) in E.
    exists (firstn i ts), (skipn (S i) ts), a, b. auto.
  - right. rewrite (binary_step_none _ _ _ _ _ _ Hi) in H. auto.
Qed.

Lemma nth_error_split {A} (l : list A) : forall k t, nth_error l k = Some t -> l = firstn k l ++ t :: skipn (S k) l.
Proof.
  induction l as [|x l IH]; intros [|k] t H; try discriminate; cbn in *.
  - now injection H as ->.
  - f_equal. now apply IH.
Qed.
Lemma nth_error_skipn {A} n : forall (l : list A) k, nth_error (skipn n l) k = nth_error l (n + k).
Proof. induction n as [|n IH]; intros [|x l] k; cbn; auto. now destruct k. Qed.
Lemma skipn_skipn' {A} a : forall b (l : list A), skipn a (skipn b l) = skipn (b + a) l.
Proof. intros b. induction b as [|b IH]; intros l; cbn [skipn plus]; [reflexivity|]. destruct l; [now rewrite skipn_nil|]. apply IH. Qed.
Lemma split_nth {A} (l : list A) i t : l = firstn i l ++ t :: skipn (S i) l -> i < length l -> nth_error l i = Some t.
Proof.
  intros E Hl. rewrite E. rewrite nth_error_app2; rewrite firstn_length; replace (Nat.min i (length l)) with i by lia; [|lia].
  now rewrite Nat.sub_diag.
Qed.

Lemma cond_decompose ts q c :
  index_of is_question ts = Some q -> index_of is_colon ts = Some c -> S q <= c ->
  ts = firstn q ts ++ TQuestion :: firstn (c - S q) (skipn (S q) ts) ++ TColon :: skipn (S c) ts.
Proof.
  intros Hq Hc Hle.
  destruct (index_of_split _ _ _ Hq) as (tq & Eq & Htq & _ & Hlq). apply is_question_eq in Htq. subst tq.
  destruct (index_of_split _ _ _ Hc) as (tc & Ec & Htc & _ & Hlc). apply is_colon_eq in Htc. subst tc.
  rewrite Eq at 1. f_equal. f_equal.
  set (R := skipn (S q) ts).
  assert (HR : nth_error R (c - S q) = Some TColon).
  { unfold R. rewrite nth_error_skipn. replace (S q + (c - S q)) with c by lia. now apply split_nth. }
  rewrite (nth_error_split _ _ _ HR) at 1. f_equal. f_equal.
  unfold R. rewrite skipn_skipn'. f_equal. lia.
Qed.

Theorem parse_sound : forall f lv ts e, parse_at f lv ts = POk e -> G (glv lv) ts e.
Proof.
  induction f as [|f IH]; intros lv ts e H; [destruct lv; discriminate|].
  rewrite parse_at_S in H. destruct lv; cbn [step glv] in *.
  - unfold formula_step in H. destruct ts as [|t [|t' r]].
    + exact (IH LIff _ _ H).
    + destruct t; try exact (IH LIff _ _ H). apply G_up. exact (IH LTerm _ _ H).
    + destruct t; exact (IH LIff _ _ H).
  - destruct (sound_bin _ _ _ _ _ _ _ TIff is_iff_eq IH H) as [(l & r & a & b & -> & -> & Ha & Hb)|Hn].
    + now apply G_iff_op. + now apply G_iff_in.
  - destruct (sound_bin _ _ _ _ _ _ _ TImp is_imp_eq IH H) as [(l & r & a & b & -> & -> & Ha & Hb)|Hn].
    + now apply G_imp_op. + now apply G_imp_in.
  - destruct (index_of is_question ts) as [q|] eqn:Hq; destruct (index_of is_colon ts) as [c|] eqn:Hc.
    + rewrite (cond_step_some _ _ _ _ Hq Hc) in H.
      apply pbind_ok in H as (a & Ha & H).
      destruct (cond_order _ _ _ _ _ Hq Hc Ha) as (H1 & H2).
      unfold with_slice in H. rewrite slice_mid in H by lia.
      apply pbind_ok in H as (b & Hb & H). apply pbind_ok in H as (d & Hd & H). injection H as <-.
      rewrite (cond_decompose ts q c Hq Hc H1).
      apply G_cond_op; [exact (IH LOr _ _ Ha)|exact (IH LOr _ _ Hb)|exact (IH LOr _ _ Hd)].
    + unfold cond_step in H. rewrite Hq, Hc in H. discriminate.
    + unfold cond_step in H. rewrite Hq, Hc in H. discriminate.
    + unfold cond_step in H. rewrite Hq, Hc in H. apply G_cond_in. exact (IH LOr _ _ H).
  - destruct (sound_bin _ _ _ _ _ _ _ TOr is_or_eq IH H) as [(l & r & a & b & -> & -> & Ha & Hb)|Hn].
    + now apply G_or_op. + now apply G_or_in.
  - destruct (sound_bin _ _ _ _ _ _ _ TAnd is_and_eq IH H) as [(l & r & a & b & -> & -> & Ha & Hb)|Hn].
    + now apply G_and_op. + now apply G_and_in.
  - destruct (sound_bin _ _ _ _ _ _ _ TXor is_xor_eq IH H) as [(l & r & a & b & -> & -> & Ha & Hb)|Hn].
    + now apply G_xor_op. + now apply G_xor_in.
  - unfold term_step in H. destruct ts as [|t rest]; [discriminate|].
    destruct (is_not t) eqn:Hn.
    + apply pbind_ok in H as (a & Ha & H). injection H as <-. destruct t; try discriminate.
      apply G_not. exact (IH LTerm _ _ Ha).
    + destruct rest; [|discriminate]. destruct t; try discriminate.
      * injection H as <-. apply G_id.
      * apply G_group. exact (IH LFormula _ _ H).
Qed.

(* ------------------------------------------------------------------ completeness: derivation -> parse = Ok e *)
(* tokens that may occur at the top level of a string of the given nonterminal *)
Definition allowed (lv : level) (t : token) : bool :=
  atomic_tok t ||
  match lv with
  | LTerm => false
  | LXor => is_xor t
  | LAnd => is_xor t || is_and t
  | LOr => is_xor t || is_and t || is_or t
  | LCond => is_xor t || is_and t || is_or t || is_question t || is_colon t
  | LImp => is_xor t || is_and t || is_or t || is_question t || is_colon t || is_imp t
  | _ => true
  end.

Lemma allowed_app lv l t r : forallb (allowed lv) l = true -> allowed lv t = true -> forallb (allowed lv) r = true ->
  forallb (allowed lv) (l ++ t :: r) = true.
Proof. intros Hl Ht Hr. rewrite forallb_app. cbn [forallb]. now rewrite Hl, Ht, Hr. Qed.

Lemma allowed_weaken lv lv' ts : (forall t, allowed lv t = true -> allowed lv' t = true) ->
  forallb (allowed lv) ts = true -> forallb (allowed lv') ts = true.
Proof.
  intros Hw H. rewrite forallb_forall in *. intros t Ht. apply Hw. now apply H.
Qed.

Ltac allowed_tac := match goal with t : token |- _ => destruct t end; cbn; intros; try reflexivity; try discriminate.

Lemma allowed_term_xor t : allowed LTerm t = true -> allowed LXor t = true. Proof. allowed_tac. Qed.
Lemma allowed_xor_and t : allowed LXor t = true -> allowed LAnd t = true. Proof. allowed_tac. Qed.
Lemma allowed_and_or t : allowed LAnd t = true -> allowed LOr t = true. Proof. allowed_tac. Qed.
Lemma allowed_or_cond t : allowed LOr t = true -> allowed LCond t = true. Proof. allowed_tac. Qed.
Lemma allowed_cond_imp t : allowed LCond t = true -> allowed LImp t = true. Proof. allowed_tac. Qed.
Lemma allowed_imp_iff t : allowed LImp t = true -> allowed LIff t = true. Proof. allowed_tac. Qed.

Lemma G_allowed lv ts e : G lv ts e -> forallb (allowed lv) ts = true.
Proof.
  induction 1; try reflexivity.
  - apply allowed_app; auto. eapply allowed_weaken; [apply allowed_imp_iff|]; auto.
  - eapply allowed_weaken; [apply allowed_imp_iff|]; auto.
  - apply allowed_app; auto. eapply allowed_weaken; [apply allowed_cond_imp|]; auto.
  - eapply allowed_weaken; [apply allowed_cond_imp|]; auto.
  - apply allowed_app; [eapply allowed_weaken; [apply allowed_or_cond|]; auto|reflexivity|].
    apply allowed_app; [eapply allowed_weaken; [apply allowed_or_cond|]; auto|reflexivity|].
    eapply allowed_weaken; [apply allowed_or_cond|]; auto.
  - eapply allowed_weaken; [apply allowed_or_cond|]; auto.
  - apply allowed_app; auto. eapply allowed_weaken; [apply allowed_and_or|]; auto.
  - eapply allowed_weaken; [apply allowed_and_or|]; auto.
  - apply allowed_app; auto. eapply allowed_weaken; [apply allowed_xor_and|]; auto.
  - eapply allowed_weaken; [apply allowed_xor_and|]; auto.
  - apply allowed_app; auto. eapply allowed_weaken; [apply allowed_term_xor|]; auto.
  - eapply allowed_weaken; [apply allowed_term_xor|]; auto.
  - cbn [forallb]. now rewrite IHG.
Qed.

Lemma allowed_no lv p ts : (forall t, allowed lv t = true -> p t = false) -> forallb (allowed lv) ts = true -> existsb p ts = false.
Proof.
  intros Hp. induction ts as [|t r IH]; [reflexivity|]. cbn [forallb existsb]. intros H.
  apply andb_true_iff in H as (H1 & H2). now rewrite (Hp _ H1), IH.
Qed.

Ltac no_tac := let t := fresh in intros t; destruct t; cbn; intros; try reflexivity; try discriminate.

Lemma no_iff_imp ts : forallb (allowed LImp) ts = true -> existsb is_iff ts = false.
Proof. apply allowed_no. no_tac. Qed.
Lemma no_imp_cond ts : forallb (allowed LCond) ts = true -> existsb is_imp ts = false.
Proof. apply allowed_no. no_tac. Qed.
Lemma no_question_or ts : forallb (allowed LOr) ts = true -> existsb is_question ts = false.
Proof. apply allowed_no. no_tac. Qed.
Lemma no_colon_or ts : forallb (allowed LOr) ts = true -> existsb is_colon ts = false.
Proof. apply allowed_no. no_tac. Qed.
Lemma no_or_and ts : forallb (allowed LAnd) ts = true -> existsb is_or ts = false.
Proof. apply allowed_no. no_tac. Qed.
Lemma no_and_xor ts : forallb (allowed LXor) ts = true -> existsb is_and ts = false.
Proof. apply allowed_no. no_tac. Qed.
Lemma no_xor_term ts : forallb (allowed LTerm) ts = true -> existsb is_xor ts = false.
Proof. apply allowed_no. no_tac. Qed.

Definition grammar_level (lv : level) : Prop := lv <> LFormula.

(* a string of a tighter nonterminal climbs unchanged through the looser levels *)
Lemma Par_climb lv ts e : forallb (allowed lv) ts = true -> Par lv ts e -> lv <> LFormula -> Par LIff ts e.
Proof.
  intros Ha HP Hlv.
  assert (S1 : forallb (allowed LXor) ts = true -> Par LXor ts e -> Par LAnd ts e).
  { intros A P. apply (Par_skip_bin LAnd is_and EAnd LXor); auto using no_and_xor. }
  assert (S2 : forallb (allowed LAnd) ts = true -> Par LAnd ts e -> Par LOr ts e).
  { intros A P. apply (Par_skip_bin LOr is_or EOr LAnd); auto using no_or_and. }
  assert (S3 : forallb (allowed LOr) ts = true -> Par LOr ts e -> Par LCond ts e).
  { intros A P. apply Par_skip_cond; auto using no_question_or, no_colon_or. }
  assert (S4 : forallb (allowed LCond) ts = true -> Par LCond ts e -> Par LImp ts e).
  { intros A P. apply (Par_skip_bin LImp is_imp EImp LCond); auto using no_imp_cond. }
  assert (S5 : forallb (allowed LImp) ts = true -> Par LImp ts e -> Par LIff ts e).
  { intros A P. apply (Par_skip_bin LIff is_iff EIff LImp); auto using no_iff_imp. }
  assert (S0 : forallb (allowed LTerm) ts = true -> Par LTerm ts e -> Par LXor ts e).
  { intros A P. apply (Par_skip_bin LXor is_xor EXor LTerm); auto using no_xor_term. }
  assert (W1 := allowed_weaken LTerm LXor ts allowed_term_xor).
  assert (W2 := allowed_weaken LXor LAnd ts allowed_xor_and).
  assert (W3 := allowed_weaken LAnd LOr ts allowed_and_or).
  assert (W4 := allowed_weaken LOr LCond ts allowed_or_cond).
  assert (W5 := allowed_weaken LCond LImp ts allowed_cond_imp).
  destruct lv; try congruence; auto 20.
Qed.

Definition single_group (ts : list token) : bool := match ts with [TGroup _] => true | _ => false end.

Lemma Par_formula_of_iff ts e : single_group ts = false -> Par LIff ts e -> Par LFormula ts e.
Proof.
  intros Hs [f H]. apply (Par_S _ _ _ f). cbn [step]. unfold formula_step.
  destruct ts as [|t [|t' r]]; auto; destruct t; auto; discriminate.
Qed.

Lemma single_group_app l t r : atomic_tok t = false -> single_group (l ++ t :: r) = false.
Proof. intros Ht. destruct l as [|x [|y l]]; cbn; auto; destruct t; try discriminate; auto; destruct x; auto. Qed.

Lemma Par_hit_cond l m r a b c :
  existsb is_question l = false -> existsb is_colon l = false -> existsb is_colon m = false ->
  Par LOr l a -> Par LOr m b -> Par LOr r c -> Par LCond (l ++ TQuestion :: m ++ TColon :: r) (ECond a b c).
Proof.
  intros Q1 C1 C2 [f1 H1] [f2 H2] [f3 H3].
  set (f := Nat.max f1 (Nat.max f2 f3)).
  apply (Par_S _ _ _ f). cbn [step].
  set (ts := l ++ TQuestion :: m ++ TColon :: r).
  assert (Hq : index_of is_question ts = Some (length l)) by (apply index_of_hit; auto).
  assert (Hc : index_of is_colon ts = Some (length (l ++ TQuestion :: m))).
  { unfold ts. replace (l ++ TQuestion :: m ++ TColon :: r) with ((l ++ TQuestion :: m) ++ TColon :: r)
      by (rewrite <- app_assoc; reflexivity).
    apply index_of_hit; [|reflexivity]. rewrite existsb_app. cbn [existsb]. now rewrite C1, C2. }
  rewrite (cond_step_some _ _ _ _ Hq Hc).
  unfold ts at 1. rewrite firstn_exact.
  rewrite (parse_at_mono _ f _ _ _ H1) by (unfold f; lia). cbn [pbind].
  unfold with_slice. rewrite slice_mid.
  2:{ rewrite app_length. cbn. lia. }
  2:{ unfold ts. rewrite !app_length. cbn. rewrite app_length. cbn. lia. }
  unfold ts at 1. rewrite skipn_exact_S.
  replace (length (l ++ TQuestion :: m) - S (length l)) with (length m) by (rewrite app_length; cbn; lia).
  rewrite firstn_exact.
  rewrite (parse_at_mono _ f _ _ _ H2) by (unfold f; lia). cbn [pbind].
  unfold ts. replace (l ++ TQuestion :: m ++ TColon :: r) with ((l ++ TQuestion :: m) ++ TColon :: r)
      by (rewrite <- app_assoc; reflexivity).
  rewrite skipn_exact_S.
  now rewrite (parse_at_mono _ f _ _ _ H3) by (unfold f; lia).
Qed.

Theorem parse_complete lv ts e : G lv ts e -> Par lv ts e /\ Par LFormula ts e.
Proof.
  intros HG.
  (* the parse_formula entry follows from the level's own parse for every rule but the group *)
  assert (FROM : forall lv ts e, G lv ts e -> lv <> LFormula -> single_group ts = false -> Par lv ts e -> Par LFormula ts e).
  { intros lv0 ts0 e0 HG0 Hlv Hs HP. apply Par_formula_of_iff; auto. apply (Par_climb lv0); auto. exact (G_allowed _ _ _ HG0). }
  induction HG.
  - assert (P : Par LIff (l ++ TIff :: r) (EIff a b)).
    { apply (Par_hit_bin LIff is_iff EIff LImp); try reflexivity; try tauto. apply no_iff_imp. now apply (G_allowed LImp _ a). }
    split; auto. apply (FROM LIff); auto; [now apply G_iff_op|discriminate|now apply single_group_app].
  - destruct IHHG as (P & F). split; auto.
    apply (Par_skip_bin LIff is_iff EIff LImp); auto. apply no_iff_imp. now apply (G_allowed LImp _ e).
  - assert (P : Par LImp (l ++ TImp :: r) (EImp a b)).
    { apply (Par_hit_bin LImp is_imp EImp LCond); try reflexivity; try tauto. apply no_imp_cond. now apply (G_allowed LCond _ a). }
    split; auto. apply (FROM LImp); auto; [now apply G_imp_op|discriminate|now apply single_group_app].
  - destruct IHHG as (P & F). split; auto.
    apply (Par_skip_bin LImp is_imp EImp LCond); auto. apply no_imp_cond. now apply (G_allowed LCond _ e).
  - assert (P : Par LCond (l ++ TQuestion :: m ++ TColon :: r) (ECond a b c)).
    { apply Par_hit_cond; try tauto.
      - apply no_question_or. now apply (G_allowed LOr _ a).
      - apply no_colon_or. now apply (G_allowed LOr _ a).
      - apply no_colon_or. now apply (G_allowed LOr _ b). }
    split; auto. apply (FROM LCond); auto; [now apply G_cond_op|discriminate|now apply single_group_app].
  - destruct IHHG as (P & F). split; auto.
    apply Par_skip_cond; auto; [apply no_question_or|apply no_colon_or]; now apply (G_allowed LOr _ e).
  - assert (P : Par LOr (l ++ TOr :: r) (EOr a b)).
    { apply (Par_hit_bin LOr is_or EOr LAnd); try reflexivity; try tauto. apply no_or_and. now apply (G_allowed LAnd _ a). }
    split; auto. apply (FROM LOr); auto; [now apply G_or_op|discriminate|now apply single_group_app].
  - destruct IHHG as (P & F). split; auto.
    apply (Par_skip_bin LOr is_or EOr LAnd); auto. apply no_or_and. now apply (G_allowed LAnd _ e).
  - assert (P : Par LAnd (l ++ TAnd :: r) (EAnd a b)).
    { apply (Par_hit_bin LAnd is_and EAnd LXor); try reflexivity; try tauto. apply no_and_xor. now apply (G_allowed LXor _ a). }
    split; auto. apply (FROM LAnd); auto; [now apply G_and_op|discriminate|now apply single_group_app].
  - destruct IHHG as (P & F). split; auto.
    apply (Par_skip_bin LAnd is_and EAnd LXor); auto. apply no_and_xor. now apply (G_allowed LXor _ e).
  - assert (P : Par LXor (l ++ TXor :: r) (EXor a b)).
    { apply (Par_hit_bin LXor is_xor EXor LTerm); try reflexivity; try tauto. apply no_xor_term. now apply (G_allowed LTerm _ a). }
    split; auto. apply (FROM LXor); auto; [now apply G_xor_op|discriminate|now apply single_group_app].
  - destruct IHHG as (P & F). split; auto.
    apply (Par_skip_bin LXor is_xor EXor LTerm); auto. apply no_xor_term. now apply (G_allowed LTerm _ e).
  - destruct IHHG as ([f H] & _).
    assert (P : Par LTerm (TNot :: ts) (ENot a)).
    { apply (Par_S _ _ _ f). cbn. now rewrite H. }
    split; auto. apply (FROM LTerm); auto; [now apply G_not|discriminate].
  - assert (P : Par LTerm [TId x] (atom_of x)) by (exists 1; reflexivity).
    split; auto. apply (FROM LTerm); auto; [apply G_id|discriminate].
  - destruct IHHG as (_ & [f H]).
    split; [apply (Par_S _ _ _ f); exact H|].
    apply (Par_S _ _ _ (S f)). cbn [step]. unfold formula_step. rewrite parse_at_S. exact H.
Qed.

(* ------------------------------------------------------------------ the grammar theorem *)
Theorem parse_grammar : forall ts e, parse_tokens ts = POk e <-> G LIff ts e.
Proof.
  intros ts e. split.
  - intros H. exact (parse_sound _ LFormula _ _ H).
  - intros HG. destruct (parse_complete _ _ _ HG) as (_ & [f H]). unfold parse_tokens.
    destruct (Nat.le_ge_cases f (parse_fuel ts)) as [Hf|Hf].
    + exact (parse_at_mono _ _ _ _ _ H Hf).
    + destruct (parse_at_ple _ _ LFormula ts Hf) as [E|E]; [|congruence].
      exfalso. exact (proj2 (parse_tokens_total ts) E).
Qed.

(* for strings: accepted iff the string tokenizes and its token tree is derivable *)
Theorem parse_string_grammar : forall s e,
  parse_string s = POk e <-> exists ts rest, tokenize s = TOk ts rest /\ G LIff ts e.
Proof.
  intros s e. unfold parse_string. split.
  - destruct (tokenize s) as [ts rest| |]; try discriminate. intros H. exists ts, rest. split; [reflexivity|].
    now apply parse_grammar.
  - intros (ts & rest & -> & HG). now apply parse_grammar.
Qed.
