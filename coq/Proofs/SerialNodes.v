(* Proofs/SerialNodes.v — from_nodes and validate (Model/Serial.v): totality (no Panic, fuel never exhausted),
   soundness (accepted => wf, validate additionally: every node reachable), completeness on wf arrays (node-list
   round trip), and the consequences of acceptance: evaluation terminates without panic, operators accept. *)
From Coq Require Import List NArith Lia Bool.
Import ListNotations.
From BddVerif Require Import Model.Bdd Model.Apply Model.Serial Proofs.Sem Proofs.Canon Proofs.Reflect Proofs.ApplyTop.
Open Scope N_scope.

(* ---------------------------------------------------------------- indexing *)
Lemma nth_N_spec {A} (l : list A) p : nth_N l p = nth_error l (N.to_nat p).
Proof.
  revert p; induction l as [|x r IH]; intros p; cbn [nth_N].
  - destruct (N.to_nat p); reflexivity.
  - destruct (N.eqb_spec p 0) as [->|Hp]; [reflexivity|].
    rewrite IH. replace (N.to_nat p) with (S (N.to_nat (N.pred p))) by lia. reflexivity.
Qed.

Lemma getp_in b p : p < size b -> getp b p = Ok (get b p).
Proof.
  unfold getp, get, size. intros H. rewrite nth_N_spec.
  destruct (nth_error b (N.to_nat p)) as [n|] eqn:E.
  - f_equal. symmetry. apply nth_error_nth. exact E.
  - apply nth_error_None in E. lia.
Qed.

Lemma getp_out b p : size b <= p -> getp b p = Panic.
Proof.
  unfold getp, size. intros H. rewrite nth_N_spec.
  destruct (nth_error b (N.to_nat p)) as [n|] eqn:E; [|reflexivity].
  assert (nth_error b (N.to_nat p) <> None) as K by congruence. apply nth_error_Some in K. lia.
Qed.

Lemma getp_ok_inv b p n : getp b p = Ok n -> p < size b /\ n = get b p.
Proof.
  intros H. destruct (N.ltb_spec p (size b)) as [Hlt|Hge].
  - rewrite getp_in in H by assumption. split; [assumption|congruence].
  - rewrite getp_out in H by assumption. discriminate.
Qed.

Lemma forall_skipn2 d (P : node -> Prop) :
  Forall P (skipn 2 d) <-> forall p, 2 <= p -> p < size d -> P (get d p).
Proof.
  rewrite Forall_forall. split.
  - intros H p H2 Hlt. apply H. unfold get.
    destruct d as [|a [|c r]]; unfold size in *; cbn [length skipn] in *; try lia.
    replace (N.to_nat p) with (S (S (N.to_nat p - 2))) by lia. cbn [nth]. apply nth_In. lia.
  - intros H nd Hin. destruct d as [|a [|c r]]; cbn [skipn] in Hin; try contradiction.
    destruct (In_nth _ _ dnode Hin) as (i & Hi & E). subst nd.
    specialize (H (N.of_nat (S (S i)))). unfold get in H. rewrite Nnat.Nat2N.id in H. cbn [nth] in H.
    apply H; unfold size; cbn [length]; lia.
Qed.

(* ---------------------------------------------------------------- from_nodes *)
Definition node_ok (d : bdd) (nv : N) (nd : node) : Prop :=
  nvar nd < nv /\ nlow nd < size d /\ nhigh nd < size d /\
  nvar nd < var_of d (nlow nd) /\ nvar nd < var_of d (nhigh nd).

Lemma from_nodes_loop_char d nv l :
  (from_nodes_loop d (size d) nv l = Ok (ROk tt) /\ Forall (node_ok d nv) l) \/
  (from_nodes_loop d (size d) nv l = Ok RErr /\ ~ Forall (node_ok d nv) l).
Proof.
  induction l as [|nd r IH]; cbn [from_nodes_loop].
  - left; split; [reflexivity|constructor].
  - assert (NO : ~ node_ok d nv nd -> ~ Forall (node_ok d nv) (nd :: r)).
    { intros K F. inversion F; subst. contradiction. }
    destruct (N.leb_spec nv (nvar nd)) as [H1|H1].
    { right; split; [reflexivity|]. apply NO. unfold node_ok. lia. }
    destruct (N.leb_spec (size d) (nlow nd)) as [H2|H2].
    { right; split; [reflexivity|]. apply NO. unfold node_ok. lia. }
    destruct (N.leb_spec (size d) (nhigh nd)) as [H3|H3].
    { right; split; [reflexivity|]. apply NO. unfold node_ok. lia. }
    rewrite (getp_in d (nlow nd)) by assumption. cbn [obind].
    destruct (N.leb_spec (nvar (get d (nlow nd))) (nvar nd)) as [H4|H4].
    { right; split; [reflexivity|]. apply NO. unfold node_ok, var_of. lia. }
    rewrite (getp_in d (nhigh nd)) by assumption. cbn [obind].
    destruct (N.leb_spec (nvar (get d (nhigh nd))) (nvar nd)) as [H5|H5].
    { right; split; [reflexivity|]. apply NO. unfold node_ok, var_of. lia. }
    destruct IH as [(E & F)|(E & F)]; [left|right]; (split; [exact E|]).
    + constructor; [|exact F]. unfold node_ok, var_of. lia.
    + intros F'. inversion F'; subst. contradiction.
Qed.

Lemma node_is_zero_iff n : node_is_zero n = true <-> n = mkNode (nvar n) 0 0.
Proof.
  destruct n as [v l h]. unfold node_is_zero, node_is_terminal. cbn [nvar nlow nhigh].
  rewrite !andb_true_iff, orb_true_iff, !N.eqb_eq. split.
  - intros ((E & _) & Z). subst. reflexivity.
  - intros E. inversion E; subst. auto.
Qed.

Lemma node_is_one_iff n : node_is_one n = true <-> n = mkNode (nvar n) 1 1.
Proof.
  destruct n as [v l h]. unfold node_is_one, node_is_terminal. cbn [nvar nlow nhigh].
  rewrite !andb_true_iff, orb_true_iff, !N.eqb_eq. split.
  - intros ((E & _) & Z). subst. reflexivity.
  - intros E. inversion E; subst. auto.
Qed.

Theorem from_nodes_char d :
  (from_nodes d = Ok (ROk d) /\ wf d) \/ (from_nodes d = Ok RErr /\ ~ wf d).
Proof.
  unfold from_nodes. cbv zeta.
  destruct (N.eqb_spec (size d) 0) as [Z|NZ].
  { right; split; [reflexivity|]. intros (H & _). lia. }
  rewrite (getp_in d 0) by lia. cbn [obind].
  destruct (node_is_zero (get d 0)) eqn:Z0; cbn [negb].
  2:{ right; split; [reflexivity|]. intros (_ & H0 & _).
      assert (node_is_zero (get d 0) = true) as K; [|congruence].
      apply node_is_zero_iff. rewrite H0 at 1. unfold nvars. reflexivity. }
  apply node_is_zero_iff in Z0.
  assert (T1 : forall k : bool -> outcome (result bdd),
             obind (if 1 <? size d then obind (getp d 1) (fun n1 => Ok (negb (node_is_one n1) || negb (nvar n1 =? nvar (get d 0))))
                    else Ok false) k =
             k (if 1 <? size d then negb (node_is_one (get d 1)) || negb (nvar (get d 1) =? nvar (get d 0)) else false)).
  { intros k. destruct (N.ltb_spec 1 (size d)) as [H|H]; [|reflexivity]. rewrite (getp_in d 1) by assumption. reflexivity. }
  rewrite T1. clear T1.
  destruct (N.ltb_spec 1 (size d)) as [S2|S2].
  - destruct (node_is_one (get d 1)) eqn:O1; cbn [negb orb].
    2:{ right; split; [reflexivity|]. intros (_ & _ & H1 & _).
        assert (node_is_one (get d 1) = true) as K; [|congruence].
        apply node_is_one_iff. rewrite H1 by lia. reflexivity. }
    apply node_is_one_iff in O1.
    destruct (N.eqb_spec (nvar (get d 1)) (nvar (get d 0))) as [EV|NEV]; cbn [negb].
    2:{ right; split; [reflexivity|]. intros (_ & _ & H1 & _). apply NEV. rewrite H1 by lia. reflexivity. }
    destruct (from_nodes_loop_char d (nvar (get d 0)) (skipn 2 d)) as [(E & F)|(E & F)]; rewrite E.
    + left; split; [reflexivity|]. rewrite forall_skipn2 in F.
      split; [lia|]. split; [exact Z0|]. split; [intros _; rewrite O1 at 1; rewrite EV; reflexivity|].
      intros p Hp Hlt. exact (F p Hp Hlt).
    + right; split; [reflexivity|]. intros (_ & _ & _ & Hn). apply F. apply forall_skipn2.
      intros p Hp Hlt. exact (Hn p Hp Hlt).
  - destruct (from_nodes_loop_char d (nvar (get d 0)) (skipn 2 d)) as [(E & F)|(E & F)]; rewrite E.
    + left; split; [reflexivity|]. split; [lia|]. split; [exact Z0|]. split; [intros; lia|]. intros p Hp Hlt. lia.
    + exfalso. apply F. apply forall_skipn2. intros p Hp Hlt. lia.
Qed.

Theorem from_nodes_total d : from_nodes d <> Panic /\ from_nodes d <> OutOfFuel.
Proof. destruct (from_nodes_char d) as [(E & _)|(E & _)]; rewrite E; split; discriminate. Qed.

Theorem from_nodes_sound d b : from_nodes d = Ok (ROk b) -> b = d /\ wf b.
Proof.
  intros H. destruct (from_nodes_char d) as [(E & W)|(E & _)]; rewrite E in H; [|discriminate].
  inversion H; subst. split; [reflexivity|assumption].
Qed.

Theorem from_nodes_complete d : wf d -> from_nodes d = Ok (ROk d).
Proof. intros W. destruct (from_nodes_char d) as [(E & _)|(_ & NW)]; [exact E|contradiction]. Qed.

Theorem nodes_roundtrip b : wf b -> from_nodes (to_nodes b) = Ok (ROk b).
Proof. exact (from_nodes_complete b). Qed.

(* ---------------------------------------------------------------- validate *)
Inductive reachable (b : bdd) : N -> Prop :=
| reach_root : reachable b (size b - 1)
| reach_low p : reachable b p -> 2 <= p -> reachable b (nlow (get b p))
| reach_high p : reachable b p -> 2 <= p -> reachable b (nhigh (get b p)).

Lemma nth_N_set_true l : forall p q,
  nth_N (set_true l p) q =
  if q =? p then match nth_N l p with Some _ => Some true | None => None end else nth_N l q.
Proof.
  induction l as [|x r IH]; intros p q; cbn [set_true nth_N].
  - destruct (q =? p); reflexivity.
  - destruct (N.eqb_spec p 0) as [->|Hp].
    + cbn [nth_N]. destruct (N.eqb_spec q 0) as [->|Hq]; reflexivity.
    + cbn [nth_N]. destruct (N.eqb_spec q 0) as [->|Hq].
      * destruct (N.eqb_spec 0 p) as [E|_]; [congruence|reflexivity].
      * rewrite IH. destruct (N.eqb_spec (N.pred q) (N.pred p)) as [E|NE], (N.eqb_spec q p) as [E'|NE']; try reflexivity; lia.
Qed.

Lemma set_true_length l : forall p, length (set_true l p) = length l.
Proof. induction l as [|x r IH]; intros p; cbn [set_true]; [reflexivity|]. destruct (p =? 0); cbn [length]; [reflexivity|]. now rewrite IH. Qed.

Definition cntf (l : list bool) : nat := length (filter negb l).

Lemma cntf_set_true l : forall p, nth_N l p = Some false -> S (cntf (set_true l p)) = cntf l.
Proof.
  unfold cntf. induction l as [|x r IH]; intros p; cbn [nth_N set_true]; [discriminate|].
  destruct (N.eqb_spec p 0) as [->|Hp].
  - intros E. inversion E; subst. reflexivity.
  - intros E. cbn [filter]. destruct x; cbn [negb length]; rewrite <- (IH _ E); reflexivity.
Qed.

Lemma nth_N_lt {A} (l : list A) p : p < len l -> exists x, nth_N l p = Some x.
Proof.
  unfold len. intros H. rewrite nth_N_spec. destruct (nth_error l (N.to_nat p)) as [x|] eqn:E; [eauto|].
  apply nth_error_None in E. lia.
Qed.

Section Dfs.
  Variable b : bdd.
  Hypothesis Hsz : 2 <= size b.
  Hypothesis Hlinks : forall p, 2 <= p -> p < size b -> nlow (get b p) < size b /\ nhigh (get b p) < size b.

  Definition ord_ok (p : N) : Prop :=
    var_of b p < var_of b (nlow (get b p)) /\ var_of b p < var_of b (nhigh (get b p)).

  Record Inv (vis : list bool) (stack : list N) : Prop := {
    inv_len : length vis = length b;
    inv_0 : nth_N vis 0 = Some true;
    inv_1 : nth_N vis 1 = Some true;
    inv_stack : Forall (fun p => p < size b /\ reachable b p) stack;
    inv_vis : forall p, 2 <= p -> nth_N vis p = Some true -> reachable b p /\ ord_ok p }.

  Lemma dfs_run : forall fuel vis stack, Inv vis stack -> (2 * cntf vis + length stack < fuel)%nat ->
    validate_dfs fuel b vis stack = Ok RErr \/
    exists vis', validate_dfs fuel b vis stack = Ok (ROk vis') /\ Inv vis' [].
  Proof.
    induction fuel as [|f IH]; intros vis stack I Hf; [lia|]. cbn [validate_dfs].
    destruct stack as [|top rest].
    { right. exists vis. split; [reflexivity|exact I]. }
    destruct I as [IL I0 I1 IS IV].
    inversion IS as [|x y (Ht & Hr) IS']; subst.
    destruct (nth_N_lt vis top) as (x & Ex). { unfold len. rewrite IL. exact Ht. }
    rewrite Ex. destruct x.
    - apply IH; [constructor; assumption|cbn [length] in Hf; lia].
    - assert (T2 : 2 <= top).
      { destruct (N.ltb_spec top 2) as [K|K]; [|exact K]. assert (top = 0 \/ top = 1) as [->| ->] by lia; congruence. }
      destruct (Hlinks top T2 Ht) as (Hl & Hh).
      rewrite (getp_in b top) by assumption. cbn [obind].
      rewrite (getp_in b (nlow (get b top))) by assumption. cbn [obind].
      rewrite (getp_in b (nhigh (get b top))) by assumption. cbn [obind].
      destruct (N.leb_spec (nvar (get b (nlow (get b top)))) (nvar (get b top))) as [C1|C1]; cbn [orb]; [left; reflexivity|].
      destruct (N.leb_spec (nvar (get b (nhigh (get b top)))) (nvar (get b top))) as [C2|C2]; [left; reflexivity|].
      apply IH.
      + constructor.
        * rewrite set_true_length. exact IL.
        * rewrite nth_N_set_true. destruct (N.eqb_spec 0 top); [lia|exact I0].
        * rewrite nth_N_set_true. destruct (N.eqb_spec 1 top); [lia|exact I1].
        * constructor; [split; [exact Hh|apply reach_high; assumption]|].
          constructor; [split; [exact Hl|apply reach_low; assumption]|exact IS'].
        * intros p Hp. rewrite nth_N_set_true. destruct (N.eqb_spec p top) as [->|NE].
          -- intros _. split; [exact Hr|]. unfold ord_ok, var_of. lia.
          -- apply IV. exact Hp.
      + pose proof (cntf_set_true vis top Ex) as K. cbn [length] in *. lia.
  Qed.
End Dfs.

Lemma validate_links_iff n nv l :
  validate_links n nv l = true <-> Forall (fun nd => nvar nd < nv /\ nlow nd < n /\ nhigh nd < n) l.
Proof.
  induction l as [|nd r IH]; cbn [validate_links].
  - split; [constructor|reflexivity].
  - destruct (N.leb_spec nv (nvar nd)); [split; [discriminate|intros F; inversion F; subst; lia]|].
    destruct (N.leb_spec n (nlow nd)); [split; [discriminate|intros F; inversion F; subst; lia]|].
    destruct (N.leb_spec n (nhigh nd)); [split; [discriminate|intros F; inversion F; subst; lia]|].
    rewrite IH. split; [intros F; constructor; [lia|exact F]|intros F; inversion F; assumption].
Qed.

Lemma forallb_id_nth (l : list bool) p : forallb (fun x => x) l = true -> p < len l -> nth_N l p = Some true.
Proof.
  intros F H. destruct (nth_N_lt l p H) as (x & E). rewrite E. f_equal.
  rewrite forallb_forall in F. apply F. rewrite nth_N_spec in E. eapply nth_error_In; exact E.
Qed.

Lemma cntf_init k : cntf (true :: true :: repeat false k) = k.
Proof. unfold cntf. cbn [filter negb]. induction k as [|k IH]; cbn [repeat filter negb length]; [reflexivity|]. now rewrite IH. Qed.

Definition all_reachable (b : bdd) : Prop := forall p, 2 <= p -> p < size b -> reachable b p.

(* the complete characterisation of the three-or-more-node branch *)
Lemma validate_unfold3 n0 n1 n2 rest :
  validate (n0 :: n1 :: n2 :: rest) =
  let b := n0 :: n1 :: n2 :: rest in
  if negb (node_eqb n0 (mkNode (nvar n0) 0 0)) || negb (node_eqb n1 (mkNode (nvar n0) 1 1)) then Ok RErr
  else if negb (validate_links (size b) (nvar n0) (n2 :: rest)) then Ok RErr
  else match validate_dfs (2 * length b + 2) b (true :: true :: repeat false (length (n2 :: rest))) [size b - 1] with
       | Ok (ROk visited) => Ok (if forallb (fun x => x) visited then ROk tt else RErr)
       | Ok RErr => Ok RErr
       | Panic => Panic
       | OutOfFuel => OutOfFuel
       end.
Proof. reflexivity. Qed.

Lemma validate_big n0 n1 n2 rest :
  validate (n0 :: n1 :: n2 :: rest) = Ok RErr \/
  (validate (n0 :: n1 :: n2 :: rest) = Ok (ROk tt) /\ wf (n0 :: n1 :: n2 :: rest) /\ all_reachable (n0 :: n1 :: n2 :: rest)).
Proof.
  rewrite validate_unfold3. set (b := n0 :: n1 :: n2 :: rest). cbv zeta.
  destruct (node_eqb_spec n0 (mkNode (nvar n0) 0 0)) as [E0|NE0]; cbn [negb orb]; [|left; reflexivity].
  destruct (node_eqb_spec n1 (mkNode (nvar n0) 1 1)) as [E1|NE1]; cbn [negb orb]; [|left; reflexivity].
  destruct (validate_links (size b) (nvar n0) (n2 :: rest)) eqn:VL; cbn [negb]; [|left; reflexivity].
  apply validate_links_iff in VL.
  assert (VL' : forall p, 2 <= p -> p < size b ->
            nvar (get b p) < nvar n0 /\ nlow (get b p) < size b /\ nhigh (get b p) < size b).
  { change (n2 :: rest) with (skipn 2 b) in VL.
    exact (proj1 (forall_skipn2 b (fun nd => nvar nd < nvar n0 /\ nlow nd < size b /\ nhigh nd < size b)) VL). }
  assert (Hsz : 2 <= size b) by (unfold size, b; cbn [length]; lia).
  assert (Hlinks : forall p, 2 <= p -> p < size b -> nlow (get b p) < size b /\ nhigh (get b p) < size b).
  { intros p Hp Hlt. destruct (VL' p Hp Hlt) as (_ & A & B). split; assumption. }
  assert (I : Inv b (true :: true :: repeat false (length (n2 :: rest))) [size b - 1]).
  { constructor.
    - unfold b. cbn [length]. rewrite repeat_length. reflexivity.
    - reflexivity.
    - reflexivity.
    - constructor; [|constructor]. split; [lia|constructor].
    - intros p Hp. rewrite nth_N_spec. replace (N.to_nat p) with (S (S (N.to_nat p - 2))) by lia. cbn [nth_error].
      intros K. exfalso. apply nth_error_In in K. apply repeat_spec in K. discriminate. }
  destruct (dfs_run b Hsz Hlinks (2 * length b + 2) _ _ I) as [E|(vis' & E & I')].
  { rewrite cntf_init. unfold b. cbn [length]. lia. }
  - rewrite E. left; reflexivity.
  - rewrite E. destruct (forallb (fun x => x) vis') eqn:F; [|left; reflexivity].
    right. split; [reflexivity|].
    destruct I' as [IL _ _ _ IV].
    assert (AV : forall p, 2 <= p -> p < size b -> reachable b p /\ ord_ok b p).
    { intros p Hp Hlt. apply IV; [exact Hp|]. apply forallb_id_nth; [exact F|]. unfold len. rewrite IL. exact Hlt. }
    split.
    + split; [lia|]. split; [exact E0|]. split; [intros _; exact E1|].
      intros p Hp Hlt. destruct (VL' p Hp Hlt) as (A & B & C). destruct (AV p Hp Hlt) as (_ & O1 & O2).
      unfold wf_node. cbv zeta. unfold var_of in *. change (nvars b) with (nvar n0). lia.
    + intros p Hp Hlt. apply AV; assumption.
Qed.

Theorem validate_char b :
  validate b = Ok RErr \/ (validate b = Ok (ROk tt) /\ wf b /\ all_reachable b).
Proof.
  destruct b as [|n0 [|n1 [|n2 rest]]].
  - left; reflexivity.
  - unfold validate. destruct (node_eqb_spec n0 (mkNode (nvar n0) 0 0)) as [E0|NE0]; [right|left; reflexivity].
    split; [reflexivity|]. split.
    + split; [unfold size; cbn; lia|]. split; [exact E0|]. split; unfold size; cbn [length]; intros; lia.
    + intros p Hp Hlt. unfold size in Hlt. cbn [length] in Hlt. lia.
  - unfold validate.
    destruct (node_eqb_spec n0 (mkNode (nvar n0) 0 0)) as [E0|NE0]; cbn [andb]; [|left; reflexivity].
    destruct (node_eqb_spec n1 (mkNode (nvar n0) 1 1)) as [E1|NE1]; [right|left; reflexivity].
    split; [reflexivity|]. split.
    + split; [unfold size; cbn; lia|]. split; [exact E0|]. split; [intros _; exact E1|].
      unfold size; cbn [length]; intros; lia.
    + intros p Hp Hlt. unfold size in Hlt. cbn [length] in Hlt. lia.
  - apply validate_big.
Qed.

Theorem validate_total b : validate b <> Panic /\ validate b <> OutOfFuel.
Proof. destruct (validate_char b) as [E|(E & _)]; rewrite E; split; discriminate. Qed.

Theorem validate_sound b : validate b = Ok (ROk tt) -> wf b /\ all_reachable b.
Proof. intros H. destruct (validate_char b) as [E|(_ & W)]; [rewrite E in H; discriminate|exact W]. Qed.

(* ---------------------------------------------------------------- consequences of acceptance *)
Lemma eval_walk_sem b v : wf b -> forall fuel p, valid b p -> (N.to_nat (nvars b - var_of b p) < fuel)%nat ->
  eval_walk fuel b p v = Ok (sem_fuel fuel b p v).
Proof.
  intros W. induction fuel as [|f IH]; intros p Vp Hf; [lia|]. cbn [eval_walk sem_fuel].
  destruct (N.ltb_spec p 2) as [Hlt|Hge]; [reflexivity|].
  destruct Vp as (Vp & _). rewrite (getp_in b p) by assumption. cbn [obind].
  destruct (wf_children b p W Hge Vp) as (Vl & Vh & Hl & Hh & Hnv).
  destruct (v (nvar (get b p))); apply IH; try assumption; unfold var_of in *; lia.
Qed.

(* Bdd::eval_in on a well-formed diagram: no index panic, at most nvars+1 steps, the value is `eval` *)
Theorem wf_evaluates b v : wf b -> eval_in b v = Ok (eval b v) /\
  forall fuel, (N.to_nat (nvars b) < fuel)%nat -> eval_walk fuel b (size b - 1) v = Ok (eval b v).
Proof.
  intros W. pose proof (size_pos b W) as S1.
  assert (Vr : valid b (size b - 1)) by (unfold valid; split; lia).
  assert (G : forall fuel, (N.to_nat (nvars b) < fuel)%nat -> eval_walk fuel b (size b - 1) v = Ok (eval b v)).
  { intros fuel Hf. rewrite eval_walk_sem; try assumption; [|lia]. f_equal. unfold eval, sem.
    destruct Vr as (V1 & V2). apply sem_fuel_enough; try assumption; lia. }
  split; [|exact G]. unfold eval_in. destruct (N.eqb_spec (size b) 0); [lia|]. apply G. lia.
Qed.

Theorem wf_operators a b op : wf a -> wf b -> nvars a = nvars b -> total2 op -> consistent2 op ->
  exists r, fused_binary_flip_op a b None None None op = Ok r /\ Canonical r /\ nvars r = nvars a /\
    forall v, eval r v = bop_of op (eval a v) (eval b v).
Proof.
  intros Wa Wb NV T C.
  destruct (fused_binary_flip_op_correct a b None None None op Wa Wb NV eq_refl T C) as (r & E & Cr & Nr & S).
  exists r. split; [exact E|]. split; [exact Cr|]. split; [exact Nr|]. intros v. exact (S v).
Qed.
