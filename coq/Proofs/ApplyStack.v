(* Proofs/ApplyStack.v — the explicit-stack machine of Model/ApplyStack.v (one sstep = one iteration of the
   Rust `while` loop of apply_with_flip) computes exactly what the recursive engine of Model/Apply.v computes:
   apply2_stack_eq.  Hence every theorem about apply2 / fused_binary_flip_op transfers to the stack machine. *)
From Coq Require Import List NArith Lia Bool Arith PeanoNat.
Import ListNotations.
From BddVerif Require Import Model.Bdd Model.Apply Model.ApplyStack Model.Ops
  Proofs.Sem Proofs.Canon Proofs.ApplySem Proofs.ApplyTop.
Open Scope N_scope.

Section Stack.
  Variables (A B : bdd) (fa fb fo : option N) (op : op2).
  Local Notation ensure_with := (Apply.ensure_with op).
  Local Notation level := (Apply.level A B).
  Local Notation t_lo := (Apply.t_lo A B fa fb).
  Local Notation t_hi := (Apply.t_hi A B fa fb).
  Local Notation process := (Apply.process A B fa fb fo op).
  Local Notation s0 := (Apply.s0 A).
  Local Notation root := (Apply.root A B).
  Local Notation apply2 := (Apply.apply2 A B fa fb fo op).
  Local Notation lookup := (ApplyStack.lookup op).
  Local Notation resolve := (ApplyStack.resolve fo).
  Local Notation sstep := (ApplyStack.sstep A B fa fb fo op).
  Local Notation srun := (ApplyStack.srun A B fa fb fo op).
  Local Notation apply2_stack := (ApplyStack.apply2_stack A B fa fb fo op).
  Local Notation tvalid := (ApplySem.tvalid A B).

  (* ------------------------------------------------------------------ *)
  (* k iterations of the loop body; srun d = 2^d iterations (early exit is invisible:
     the body is the identity on the empty stack)                        *)
  Fixpoint siter (k : nat) (c : list task * st) : list task * st :=
    match k with O => c | S k' => siter k' (sstep c) end.

  Lemma siter_add a b c : siter (a + b) c = siter b (siter a c).
  Proof. revert c; induction a as [|a IH]; intros c; cbn; auto. Qed.

  Lemma siter_empty k s : siter k ([], s) = ([], s).
  Proof. induction k as [|k IH]; cbn; auto. Qed.

  Lemma srun_siter d : forall c, srun d c = siter (2 ^ d) c.
  Proof.
    induction d as [|d IH]; intros c; [reflexivity|].
    cbn [ApplyStack.srun]. rewrite Nat.pow_succ_r', Nat.mul_succ_l, Nat.mul_1_l, siter_add, <- !IH.
    destruct (srun d c) as [[|x stk] s] eqn:E; cbn [stack_empty fst]; [|reflexivity].
    rewrite IH. symmetry. apply siter_empty.
  Qed.

  Lemma srun_reach d k c s' : siter k c = ([], s') -> (k <= 2 ^ d)%nat -> srun d c = ([], s').
  Proof.
    intros E Hk. rewrite srun_siter. replace (2 ^ d)%nat with (k + (2 ^ d - k))%nat by lia.
    rewrite siter_add, E. apply siter_empty.
  Qed.

  (* ------------------------------------------------------------------ *)
  (* the loop body in terms of the vocabulary of Model/Apply.v            *)
  Lemma sstep_eq t rest s : sstep (t :: rest, s) =
    match tfind t (finished s) with
    | Some _ => (rest, s)
    | None =>
      match lookup (t_lo t) s, lookup (t_hi t) s with
      | Some nl, Some nh => (rest, resolve t (level t) nl nh s)
      | nlo, nhi =>
        if oeq fo (level t)
        then (push_unknown nlo (t_lo t) (push_unknown nhi (t_hi t) (t :: rest)), s)
        else (push_unknown nhi (t_hi t) (push_unknown nlo (t_lo t) (t :: rest)), s)
      end
    end.
  Proof.
    unfold ApplyStack.sstep, Apply.t_lo, Apply.t_hi, Apply.level.
    destruct (tfind t (finished s)); [reflexivity|].
    destruct (kids A fa (fst t) _) as [ll lh], (kids B fb (snd t) _) as [rl rh]. cbn [fst snd].
    destruct (lookup (ll, rl) s), (lookup (lh, rh) s); reflexivity.
  Qed.

  (* what `process` does after its two ensure_with calls *)
  Definition finish (t : task) (dv plo phi : N) (s : st) : N * st :=
    let s3 := set_ne s ((plo =? 1) || (phi =? 1)) in
    let '(p, s4) := if oeq fo dv then mk s3 dv phi plo else mk s3 dv plo phi in
    (p, memo s4 t p).

  Lemma resolve_finish t dv plo phi s : resolve t dv plo phi s = snd (finish t dv plo phi s).
  Proof.
    unfold ApplyStack.resolve, finish, mk. destruct (oeq fo dv).
    - rewrite (N.eqb_sym phi plo). destruct (N.eqb_spec plo phi) as [->|NE]; [reflexivity|].
      destruct (nfind _ _); reflexivity.
    - destruct (N.eqb_spec plo phi) as [->|NE]; [reflexivity|].
      destruct (nfind _ _); reflexivity.
  Qed.

  Lemma mk_finished s d x y : finished (snd (mk s d x y)) = finished s.
  Proof. unfold mk. destruct (x =? y); [reflexivity|]. destruct (nfind _ _); reflexivity. Qed.

  Lemma finish_finished t dv plo phi s :
    finished (snd (finish t dv plo phi s)) = (t, fst (finish t dv plo phi s)) :: finished s.
  Proof.
    unfold finish. destruct (oeq fo dv).
    - pose proof (mk_finished (set_ne s ((plo =? 1) || (phi =? 1))) dv phi plo) as H.
      destruct (mk _ dv phi plo) as [p s4]. cbn in *. rewrite H. reflexivity.
    - pose proof (mk_finished (set_ne s ((plo =? 1) || (phi =? 1))) dv plo phi) as H.
      destruct (mk _ dv plo phi) as [p s4]. cbn in *. rewrite H. reflexivity.
  Qed.

  Lemma task_eqb_refl t : task_eqb t t = true.
  Proof. destruct (task_eqb_spec t t); congruence. Qed.

  (* ------------------------------------------------------------------ *)
  (* lookup versus ensure_with                                            *)
  Lemma ensure_cases proc t s p s1 : ensure_with proc t s = Some (p, s1) ->
    (lookup t s = Some p /\ s1 = s) \/ (lookup t s = None /\ proc t s = Some (p, s1)).
  Proof.
    unfold Apply.ensure_with, ApplyStack.lookup. destruct (op _ _) as [c|].
    - intros E; inversion E; subst; auto.
    - destruct (tfind t (finished s)) as [q|]; [intros E; inversion E; subst; auto|auto].
  Qed.

  Lemma ensure_lookup proc t s p : lookup t s = Some p -> ensure_with proc t s = Some (p, s).
  Proof.
    unfold Apply.ensure_with, ApplyStack.lookup. destruct (op _ _) as [c|].
    - intros E; inversion E; subst; auto.
    - intros ->. reflexivity.
  Qed.

  Lemma lookup_none t s : lookup t s = None ->
    op (as_bool (fst t)) (as_bool (snd t)) = None /\ tfind t (finished s) = None.
  Proof. unfold ApplyStack.lookup. destruct (op _ _); [discriminate|auto]. Qed.

  Lemma lookup_tfind t s p : op (as_bool (fst t)) (as_bool (snd t)) = None ->
    tfind t (finished s) = Some p -> lookup t s = Some p.
  Proof. unfold ApplyStack.lookup. intros -> H. exact H. Qed.

  (* memo entries are never removed or changed; entries below level L are not touched at all *)
  Definition stable (L : N) (s s' : st) : Prop :=
    (forall t q, tfind t (finished s) = Some q -> tfind t (finished s') = Some q) /\
    (forall t, level t < L -> tfind t (finished s') = tfind t (finished s)).

  Lemma stable_refl L s : stable L s s.
  Proof. split; auto. Qed.
  Lemma stable_trans L a b c : stable L a b -> stable L b c -> stable L a c.
  Proof. intros (H1 & H2) (H3 & H4). split; [auto|]. intros t Ht. rewrite H4, H2; auto. Qed.
  Lemma stable_weaken L L' a b : L' <= L -> stable L a b -> stable L' a b.
  Proof. intros Hl (H1 & H2). split; [auto|]. intros t Ht. apply H2. lia. Qed.

  Lemma lookup_stable L s s' t q : stable L s s' -> lookup t s = Some q -> lookup t s' = Some q.
  Proof. intros (H & _). unfold ApplyStack.lookup. destruct (op _ _); [auto|apply H]. Qed.

  (* ------------------------------------------------------------------ *)
  Hypothesis WA : wf A.
  Hypothesis WB : wf B.
  Hypothesis NV : nvars A = nvars B.
  Hypothesis TOT : forall a b, op (Some a) (Some b) <> None.
  Let nv := nvars A.

  Lemma terminal_lookup t s : tvalid t -> level t = nv -> exists q, lookup t s = Some q.
  Proof.
    intros Vt E. destruct (level_nv_terminal A B WA WB NV t Vt E) as (T1 & T2).
    destruct (as_bool_term A B NV _ T1) as (a & Ea), (as_bool_term A B NV _ T2) as (b & Eb).
    unfold ApplyStack.lookup. rewrite Ea, Eb. destruct (op (Some a) (Some b)) as [c|] eqn:Eo; [eauto|].
    exfalso. exact (TOT a b Eo).
  Qed.

  Lemma lookup_none_level t s : tvalid t -> lookup t s = None -> level t < nv.
  Proof.
    intros Vt E. pose proof (level_le A B WA NV t Vt) as Hle.
    destruct (N.eq_dec (level t) nv) as [En|NE]; [|unfold nv in *; lia].
    destruct (terminal_lookup t s Vt En) as (q & Hq). congruence.
  Qed.

  Lemma terminal_kids t : tvalid t -> level t = nv -> t_lo t = t /\ t_hi t = t.
  Proof.
    intros Vt E. destruct (level_nv_terminal A B WA WB NV t Vt E) as (T1 & T2). destruct Vt as (V1 & V2).
    unfold Apply.t_lo, Apply.t_hi, kids. rewrite E.
    rewrite (term_get A B NV A _ WA V1 T1), (term_get A B NV B _ WB V2 T2). cbn [nvar nlow nhigh].
    rewrite <- NV. fold nv. rewrite N.eqb_refl. cbn [negb].
    destruct (oeq fa nv), (oeq fb nv); cbn [fst snd]; destruct t; auto.
  Qed.

  Lemma children t : tvalid t -> level t < nv ->
    tvalid (t_lo t) /\ tvalid (t_hi t) /\ level t < level (t_lo t) /\ level t < level (t_hi t).
  Proof.
    intros Vt Hl.
    destruct (spec_expand A B fa fb (fun _ _ => false) WA WB NV t (fun _ => false) Vt Hl) as (a & b & c & d & _).
    auto.
  Qed.

  Lemma pow_ge4 f : (4 <= 2 ^ (f + 2))%nat.
  Proof. rewrite Nat.pow_add_r. pose proof (Nat.pow_nonzero 2 f ltac:(lia)). cbn. lia. Qed.
  Lemma pow_step f : (2 ^ (S f + 2) = 2 * 2 ^ (f + 2))%nat.
  Proof. cbn [plus]. apply Nat.pow_succ_r'. Qed.

  (* ------------------------------------------------------------------ *)
  (* Simulation: one successful call of `process` on a task that is not yet memoised is matched by a
     run of the stack machine that starts with the task on top and ends when it has been popped;
     the stack below is untouched and the stores coincide.                *)
  Lemma process_sim : forall f t s p s', process f t s = Some (p, s') -> tvalid t -> tfind t (finished s) = None ->
    stable (level t) s s' /\ tfind t (finished s') = Some p /\
    forall rest, exists k, (k + 2 <= 2 ^ (f + 2))%nat /\ siter k (t :: rest, s) = (rest, s').
  Proof.
    induction f as [|f IH]; intros t s p s' E Vt Ht; [discriminate|].
    set (dv := level t) in *.
    (* one sub-task: `sa` is the store in which the machine decided whether to push it,
       `s1` the store in which `process` ensures it *)
    assert (Hchild : forall sa tb s1 pb s2,
              (forall q, lookup tb sa = Some q -> lookup tb s1 = Some q) ->
              ensure_with (process f) tb s1 = Some (pb, s2) -> tvalid tb -> dv < level tb ->
              stable (dv + 1) s1 s2 /\ lookup tb s2 = Some pb /\
              forall rest, exists k, (k + 2 <= 2 ^ (f + 2))%nat /\
                siter k (push_unknown (lookup tb sa) tb rest, s1) = (rest, s2)).
    { intros sa tb s1 pb s2 Hst Ee Vb Lb. pose proof (pow_ge4 f) as P4.
      destruct (ensure_cases _ _ _ _ _ Ee) as [(Hl & ->)|(Hl & Hp)].
      - split; [apply stable_refl|]. split; [exact Hl|]. intros rest.
        destruct (lookup tb sa) as [q|] eqn:Ea; cbn [push_unknown].
        + exists 0%nat. split; [lia|reflexivity].
        + exists 1%nat. split; [lia|]. cbn [siter]. rewrite sstep_eq.
          destruct (lookup_none _ _ Ea) as (Eo & _).
          unfold ApplyStack.lookup in Hl. rewrite Eo in Hl. rewrite Hl. reflexivity.
      - destruct (lookup_none _ _ Hl) as (Eo & Ef).
        destruct (IH tb s1 pb s2 Hp Vb Ef) as (St & Fd & Run).
        split; [apply (stable_weaken (level tb)); [lia|exact St]|].
        split; [apply lookup_tfind; assumption|]. intros rest.
        destruct (lookup tb sa) as [q|] eqn:Ea; [rewrite (Hst q eq_refl) in Hl; discriminate|].
        cbn [push_unknown]. apply Run. }
    (* both sub-tasks, `ta` first *)
    assert (Hcore : forall ta tb pa s1 pb s2 plo phi,
              ensure_with (process f) ta s = Some (pa, s1) ->
              ensure_with (process f) tb s1 = Some (pb, s2) ->
              (oeq fo dv = true /\ ta = t_lo t /\ tb = t_hi t /\ pa = plo /\ pb = phi) \/
              (oeq fo dv = false /\ ta = t_hi t /\ tb = t_lo t /\ pa = phi /\ pb = plo) ->
              let r := finish t dv plo phi s2 in
              stable dv s (snd r) /\ tfind t (finished (snd r)) = Some (fst r) /\
              forall rest, exists k, (k + 2 <= 2 ^ (S f + 2))%nat /\ siter k (t :: rest, s) = (rest, snd r)).
    { intros ta tb pa s1 pb s2 plo phi Ea Eb Hsw r.
      assert (Hfin : forall s2', stable (dv + 1) s s2' ->
                let r' := finish t dv plo phi s2' in
                stable dv s (snd r') /\ tfind t (finished (snd r')) = Some (fst r')).
      { intros s2' (S1 & S2) r'. subst r'. split; [|rewrite finish_finished; cbn [tfind]; now rewrite task_eqb_refl].
        split.
        - intros t' q Hq. rewrite finish_finished. cbn [tfind]. destruct (task_eqb_spec t' t) as [->|NE]; [congruence|auto].
        - intros t' Hl. rewrite finish_finished. cbn [tfind]. destruct (task_eqb_spec t' t) as [->|NE]; [unfold dv in Hl; lia|].
          apply S2. lia. }
      assert (Hgen : lookup ta s = None \/ lookup tb s = None ->
                stable dv s (snd r) /\ tfind t (finished (snd r)) = Some (fst r) /\
                forall rest, exists k, (k + 2 <= 2 ^ (S f + 2))%nat /\ siter k (t :: rest, s) = (rest, snd r)).
      { intros Hnone.
        assert (Hlt : dv < nv).
        { pose proof (level_le A B WA NV t Vt) as Hle.
          destruct (N.eq_dec dv nv) as [En|NE]; [exfalso|unfold nv, dv in *; lia].
          destruct (terminal_kids t Vt En) as (K1 & K2). destruct (terminal_lookup t s Vt En) as (q & Hq).
          destruct Hsw as [(_ & -> & -> & _)|(_ & -> & -> & _)]; rewrite K1, K2 in Hnone; destruct Hnone; congruence. }
        destruct (children t Vt Hlt) as (Vlo & Vhi & Llo & Lhi). fold dv in Llo, Lhi.
        assert (Vab : tvalid ta /\ dv < level ta /\ tvalid tb /\ dv < level tb)
          by (destruct Hsw as [(_ & -> & -> & _)|(_ & -> & -> & _)]; auto).
        destruct Vab as (Va & Lva & Vb & Lvb).
        destruct (Hchild s ta s pa s1 (fun q H => H) Ea Va Lva) as (St1 & Lk1 & Run1).
        destruct (Hchild s tb s1 pb s2 (fun q H => lookup_stable _ _ _ _ _ St1 H) Eb Vb Lvb) as (St2 & Lk2 & Run2).
        pose proof (stable_trans _ _ _ _ St1 St2) as St.
        destruct (Hfin s2 St) as (F1 & F2). fold r in F1, F2. split; [exact F1|]. split; [exact F2|].
        intros rest.
        destruct (Run1 (push_unknown (lookup tb s) tb (t :: rest))) as (k1 & B1 & R1).
        destruct (Run2 (t :: rest)) as (k2 & B2 & R2).
        exists (1 + (k1 + (k2 + 1)))%nat. split; [rewrite pow_step; lia|].
        assert (Hfirst : sstep (t :: rest, s) =
                  (push_unknown (lookup ta s) ta (push_unknown (lookup tb s) tb (t :: rest)), s)).
        { rewrite sstep_eq, Ht. fold dv.
          destruct Hsw as [(Esw & -> & -> & _)|(Esw & -> & -> & _)]; rewrite Esw;
            destruct (lookup (t_lo t) s), (lookup (t_hi t) s); try reflexivity; destruct Hnone; discriminate. }
        assert (Hlast : sstep (t :: rest, s2) = (rest, snd r)).
        { rewrite sstep_eq. destruct St as (_ & St). rewrite (St t) by (unfold dv; lia). rewrite Ht.
          pose proof (lookup_stable _ _ _ _ _ St2 Lk1) as Lk1'.
          destruct Hsw as [(Esw & -> & -> & -> & ->)|(Esw & -> & -> & -> & ->)];
            rewrite Lk1', Lk2, resolve_finish; reflexivity. }
        cbn [plus siter]. rewrite Hfirst, siter_add, R1, siter_add, R2. cbn [siter]. exact Hlast. }
      destruct (lookup ta s) as [qa|] eqn:La; [destruct (lookup tb s) as [qb|] eqn:Lb|]; [|apply Hgen; auto..].
      (* both known at the first examination: resolve at once *)
      rewrite (ensure_lookup _ _ _ _ La) in Ea. inversion Ea; subst qa s1. clear Ea.
      rewrite (ensure_lookup _ _ _ _ Lb) in Eb. inversion Eb; subst qb s2. clear Eb.
      destruct (Hfin s (stable_refl _ _)) as (F1 & F2). fold r in F1, F2.
      split; [exact F1|]. split; [exact F2|]. intros rest. exists 1%nat.
      split; [rewrite pow_step; pose proof (pow_ge4 f); lia|]. cbn [siter]. rewrite sstep_eq, Ht.
      destruct Hsw as [(Esw & -> & -> & -> & ->)|(Esw & -> & -> & -> & ->)]; rewrite La, Lb, resolve_finish; reflexivity. }
    cbn [Apply.process] in E. fold dv in E.
    destruct (oeq fo dv) eqn:Esw.
    - destruct (ensure_with (process f) (t_lo t) s) as [[p1 s1]|] eqn:E1; [|discriminate].
      destruct (ensure_with (process f) (t_hi t) s1) as [[p2 s2]|] eqn:E2; [|discriminate].
      pose proof (Hcore _ _ _ _ _ _ p1 p2 E1 E2 (or_introl (conj eq_refl (conj eq_refl (conj eq_refl (conj eq_refl eq_refl)))))) as H.
      unfold finish in H. rewrite Esw in H. cbv zeta in H.
      destruct (mk _ dv p2 p1) as [q s4]. inversion E; subst p s'. exact H.
    - destruct (ensure_with (process f) (t_hi t) s) as [[p1 s1]|] eqn:E1; [|discriminate].
      destruct (ensure_with (process f) (t_lo t) s1) as [[p2 s2]|] eqn:E2; [|discriminate].
      pose proof (Hcore _ _ _ _ _ _ p2 p1 E1 E2 (or_intror (conj eq_refl (conj eq_refl (conj eq_refl (conj eq_refl eq_refl)))))) as H.
      unfold finish in H. rewrite Esw in H. cbv zeta in H.
      destruct (mk _ dv p2 p1) as [q s4]. inversion E; subst p s'. exact H.
  Qed.
  Lemma ensure_none proc t s : lookup t s = None -> ensure_with proc t s = proc t s.
  Proof.
    unfold Apply.ensure_with, ApplyStack.lookup. destruct (op _ _); [discriminate|]. intros ->. reflexivity.
  Qed.

  (* the recursive engine does not run out of fuel (no semantic hypothesis on op needed) *)
  Lemma process_some : forall f t s, tvalid t -> (N.to_nat (nv - level t) < f)%nat ->
    exists p s', process f t s = Some (p, s').
  Proof.
    induction f as [|f IH]; intros t s Vt Hf; [lia|].
    assert (Hens : forall t' s1, t' = t_lo t \/ t' = t_hi t -> exists p s2, ensure_with (process f) t' s1 = Some (p, s2)).
    { intros t' s1 Ht'. destruct (lookup t' s1) as [q|] eqn:El; [exists q, s1; now apply ensure_lookup|].
      rewrite (ensure_none _ _ _ El). pose proof (level_le A B WA NV t Vt) as Hle.
      destruct (N.eq_dec (level t) nv) as [En|NE].
      - exfalso. destruct (terminal_kids t Vt En) as (K1 & K2). destruct (terminal_lookup t s1 Vt En) as (q & Hq).
        destruct Ht' as [->| ->]; congruence.
      - destruct (children t Vt ltac:(unfold nv in *; lia)) as (Vlo & Vhi & Llo & Lhi).
        destruct Ht' as [->| ->]; apply IH; try assumption; lia. }
    cbn [Apply.process]. destruct (oeq fo (level t)).
    + destruct (Hens (t_lo t) s (or_introl eq_refl)) as (p1 & s1 & ->).
      destruct (Hens (t_hi t) s1 (or_intror eq_refl)) as (p2 & s2 & ->). destruct (mk _ _ _ _); eauto.
    + destruct (Hens (t_hi t) s (or_intror eq_refl)) as (p1 & s1 & ->).
      destruct (Hens (t_lo t) s1 (or_introl eq_refl)) as (p2 & s2 & ->). destruct (mk _ _ _ _); eauto.
  Qed.

  Lemma apply2_stack_eq_section : apply2_stack = apply2.
  Proof.
    pose proof (root_valid A B WA WB NV) as Vr.
    unfold ApplyStack.apply2_stack, Apply.apply2. fold nv.
    destruct (process_some (S (S (N.to_nat nv))) root s0 Vr ltac:(lia)) as (p & s' & E).
    rewrite E.
    destruct (process_sim _ _ _ _ _ E Vr eq_refl) as (_ & _ & Run).
    destruct (Run []) as (k & Hk & R).
    rewrite (srun_reach (S (S (S (S (N.to_nat nv))))) k _ s' R); [reflexivity|].
    replace (S (S (N.to_nat nv)) + 2)%nat with (S (S (S (S (N.to_nat nv))))) in Hk by lia. lia.
  Qed.
End Stack.

(* ====================================================================== *)
(* Top-level statements                                                    *)

(* k iterations of the loop body, closed form of the section-local iterator *)
Definition stack_iter := siter.

(* The simulation lemma for ONE call of the recursive engine (any fuel, any store, any stack below):
   if `process` succeeds on a valid task that is not memoised yet, the stack machine started with the task
   on top pops it after k < 2^(fuel+2) iterations, leaves the rest of the stack untouched and ends in
   exactly the store `process` returns (nodes, existing, finished and the nonempty flag all equal);
   the task is memoised with the returned pointer and no older memo entry was changed. *)
Theorem process_simulated : forall A B fa fb fo op, wf A -> wf B -> nvars A = nvars B -> total2 op ->
  forall fuel t s p s', process A B fa fb fo op fuel t s = Some (p, s') ->
  tvalid A B t -> tfind t (finished s) = None ->
  tfind t (finished s') = Some p /\
  (forall t' q, tfind t' (finished s) = Some q -> tfind t' (finished s') = Some q) /\
  forall rest, exists k, (k + 2 <= 2 ^ (fuel + 2))%nat /\
    stack_iter A B fa fb fo op k (t :: rest, s) = (rest, s').
Proof.
  intros A B fa fb fo op WA WB NV T fuel t s p s' E Vt Ht.
  destruct (process_sim A B fa fb fo op WA WB NV T fuel t s p s' E Vt Ht) as ((St & _) & Fd & Run).
  auto.
Qed.

(* The refinement theorem.  Hypotheses: valid operands over the same variable count and a table that answers on
   total inputs — exactly what guarantees that the recursive engine does not exhaust its fuel; the flips need
   not be in range and the table need not be consistent. *)
Theorem apply2_stack_eq : forall A B fa fb fo op,
  wf A -> wf B -> nvars A = nvars B -> total2 op ->
  apply2_stack A B fa fb fo op = apply2 A B fa fb fo op.
Proof. intros A B fa fb fo op WA WB NV T. exact (apply2_stack_eq_section A B fa fb fo op WA WB NV T). Qed.

(* the statement in the form requested by the design (flips in range): an instance *)
Corollary apply2_stack_eq_flips : forall A B fa fb fo op,
  wf A -> wf B -> nvars A = nvars B -> flips_ok (nvars A) fa fb fo = true -> total2 op ->
  apply2_stack A B fa fb fo op = apply2 A B fa fb fo op.
Proof. intros A B fa fb fo op WA WB NV _ T. now apply apply2_stack_eq. Qed.

(* at API level the variable-count guard is part of the function, so only validity and totality remain *)
Corollary fused_binary_flip_op_stack_eq : forall A B fa fb fo op,
  wf A -> wf B -> total2 op ->
  fused_binary_flip_op_stack A B fa fb fo op = fused_binary_flip_op A B fa fb fo op.
Proof.
  intros A B fa fb fo op WA WB T. unfold fused_binary_flip_op_stack, fused_binary_flip_op, guard2.
  destruct (N.eqb_spec (nvars A) (nvars B)) as [NV|NE]; cbn [negb]; [|reflexivity].
  now rewrite apply2_stack_eq.
Qed.

Corollary binary_op_stack_eq : forall A B op, wf A -> wf B -> total2 op -> binary_op_stack A B op = binary_op A B op.
Proof. intros. now apply fused_binary_flip_op_stack_eq. Qed.

(* ---- transferred statements ---- *)
Theorem apply2_stack_full : forall A B fa fb fo op (bop : bool -> bool -> bool),
  wf A -> wf B -> nvars A = nvars B ->
  (forall x, fa = Some x -> x < nvars A) -> (forall x, fb = Some x -> x < nvars A) ->
  (forall a b, op (Some a) (Some b) = Some (bop a b)) ->
  (forall x y r, op x y = Some r -> forall a b, refines a x -> refines b y -> bop a b = r) ->
  exists r, apply2_stack A B fa fb fo op = Some r /\ (Canonical r /\ nvars r = nvars A) /\
    forall v, eval r v = spec A B fa fb bop (root A B) (oflip fo v).
Proof.
  intros A B fa fb fo op bop WA WB NV FA FB OT OC.
  rewrite apply2_stack_eq; try assumption; [now apply apply2_full|].
  intros a b. rewrite OT. discriminate.
Qed.

Theorem fused_binary_flip_op_stack_correct A B fa fb fo op :
  wf A -> wf B -> nvars A = nvars B -> flips_ok (nvars A) fa fb fo = true ->
  total2 op -> consistent2 op ->
  exists r, fused_binary_flip_op_stack A B fa fb fo op = Ok r /\ Canonical r /\ nvars r = nvars A /\
    forall v, eval r v = bop_of op (eval A (oflip fa (oflip fo v))) (eval B (oflip fb (oflip fo v))).
Proof. intros WA WB NV FL T C. rewrite fused_binary_flip_op_stack_eq by assumption. now apply fused_binary_flip_op_correct. Qed.

(* no hypotheses: the guards are the same two argument checks *)
Theorem fused_binary_flip_op_stack_panic_iff A B fa fb fo op :
  fused_binary_flip_op_stack A B fa fb fo op = Panic <->
  (nvars A <> nvars B \/ flips_ok (nvars A) fa fb fo = false).
Proof.
  unfold fused_binary_flip_op_stack, guard2, flips_ok.
  destruct (N.eqb_spec (nvars A) (nvars B)) as [E|NE]; cbn [negb].
  - destruct (flip_ok (nvars A) fa && flip_ok (nvars A) fb && flip_ok (nvars A) fo) eqn:F; cbn [negb].
    + split; [|intros [H|H]; congruence]. destruct (apply2_stack A B fa fb fo op); cbn; discriminate.
    + split; auto.
  - split; auto.
Qed.

Theorem eager_lazy_same_stack A B fa fb fo op1 op2' :
  wf A -> wf B -> nvars A = nvars B -> flips_ok (nvars A) fa fb fo = true ->
  total2 op1 -> consistent2 op1 -> total2 op2' -> consistent2 op2' ->
  (forall a b, bop_of op1 a b = bop_of op2' a b) ->
  fused_binary_flip_op_stack A B fa fb fo op1 = fused_binary_flip_op_stack A B fa fb fo op2'.
Proof. intros WA WB NV FL T1 C1 T2 C2 Eq. rewrite !fused_binary_flip_op_stack_eq by assumption. now apply eager_lazy_same. Qed.

(* the size-limited operator against the stack machine's result *)
Theorem limit_exact_stack A B fa fb fo op limit :
  wf A -> wf B -> nvars A = nvars B -> flips_ok (nvars A) fa fb fo = true ->
  total2 op -> consistent2 op ->
  exists r, fused_binary_flip_op_stack A B fa fb fo op = Ok r /\
    fused_binary_flip_op_with_limit limit A B fa fb fo op = Ok (if size r <=? limit then Some r else None).
Proof. intros WA WB NV FL T C. rewrite fused_binary_flip_op_stack_eq by assumption. now apply limit_exact. Qed.

(* a non-trivial instance with all three flips, computed by both engines: 7 result nodes are created, hash-consing
   and the memo table are hit, the output flip reverses the push order at level 1 *)
Example apply_stack_example :
  let A := [mkNode 4 0 0; mkNode 4 1 1; mkNode 3 1 0; mkNode 3 0 1; mkNode 2 3 2; mkNode 1 2 4; mkNode 1 4 2; mkNode 0 6 5] in
  let B := [mkNode 4 0 0; mkNode 4 1 1; mkNode 3 1 0; mkNode 3 0 1; mkNode 2 3 2; mkNode 2 1 0; mkNode 1 5 4; mkNode 0 6 1] in
  wfb A = true /\ wfb B = true /\
  apply2_stack A B (Some 1) (Some 2) (Some 1) op_xor = apply2 A B (Some 1) (Some 2) (Some 1) op_xor /\
  apply2_stack A B (Some 1) (Some 2) (Some 1) op_xor =
    Some [mkNode 4 0 0; mkNode 4 1 1; mkNode 3 0 1; mkNode 3 1 0; mkNode 2 3 2; mkNode 1 2 4; mkNode 1 1 4; mkNode 0 6 5].
Proof. vm_compute. repeat split; reflexivity. Qed.

(* the machine really runs differently from the recursion: on the example above the root task is popped after
   exactly 18 iterations of the loop body; the task (2,1) is pushed twice (iterations 2 and 3) and its second
   copy is found memoised when it reaches the top after 6 iterations (the "skip finished tasks" branch) *)
Example apply_stack_example_steps :
  let A := [mkNode 4 0 0; mkNode 4 1 1; mkNode 3 1 0; mkNode 3 0 1; mkNode 2 3 2; mkNode 1 2 4; mkNode 1 4 2; mkNode 0 6 5] in
  let B := [mkNode 4 0 0; mkNode 4 1 1; mkNode 3 1 0; mkNode 3 0 1; mkNode 2 3 2; mkNode 2 1 0; mkNode 1 5 4; mkNode 0 6 1] in
  let run k := stack_iter A B (Some 1) (Some 2) (Some 1) op_xor k ([root A B], s0 A) in
  stack_empty (run 17%nat) = false /\ stack_empty (run 18%nat) = true /\
  fst (run 3%nat) = [(2, 1); (3, 1); (4, 1); (2, 1); (5, 1); (6, 6); (7, 7)] /\
  fst (run 6%nat) = [(2, 1); (5, 1); (6, 6); (7, 7)] /\ tfind (2, 1) (finished (snd (run 6%nat))) = Some 2 /\
  run 7%nat = (tl (fst (run 6%nat)), snd (run 6%nat)).
Proof. vm_compute. repeat split; reflexivity. Qed.

Print Assumptions process_simulated.
Print Assumptions apply2_stack_eq.
Print Assumptions fused_binary_flip_op_stack_eq.
Print Assumptions apply2_stack_full.
Print Assumptions fused_binary_flip_op_stack_correct.
Print Assumptions fused_binary_flip_op_stack_panic_iff.
Print Assumptions eager_lazy_same_stack.
Print Assumptions limit_exact_stack.
