(* Proofs/Gaps3Serial.v — zero-length chunks (C12): `EChunk 0` makes the scripted call return Ok(0).  For a READER this
   is end of input (read_to_end / read_exact stop), for a WRITER it is Err(WriteZero) (write_all).  `clean`
   schedules exclude it; here is what the models do when a zero-length chunk follows a clean prefix. *)
From Coq Require Import List NArith Lia Bool.
Import ListNotations.
From BddVerif Require Import Model.Bdd Model.Apply Model.Serial Proofs.SerialIO Proofs.SerialBytes Proofs.SerialText.
Open Scope N_scope.

Lemma firstn_all_len (l : list N) p : len l <= p -> firstn (N.to_nat p) l = l.
Proof. intros H. apply firstn_all2. unfold len in H. lia. Qed.

(* ---------------------------------------------------------------- readers *)

(* read_to_end: the stream ends after the bytes the clean prefix delivers (all of the data when the prefix
   offers more than the data holds: then the real end of input comes first) *)
Lemma read_to_end_zero pre : clean pre -> forall acc data post,
  read_to_end acc data (pre ++ EChunk 0 :: post) = ROk (rev acc ++ firstn (N.to_nat (chunk_total pre)) data).
Proof.
  induction pre as [|ev r IH]; intros C acc data post; cbn [app].
  - cbn [read_to_end chunk_total]. rewrite take_spec. cbn [N.to_nat firstn skipn]. cbv zeta.
    cbn [len length N.of_nat N.eqb]. now rewrite rev_append_rev.
  - inversion C as [|x y Ce Cr]; subst. destruct ev as [k| |e'].
    + cbn in Ce. cbn [chunk_total read_to_end].
      destruct (take k data) as [a rest] eqn:T. apply take_app in T. destruct T as (-> & La).
      cbv zeta. rewrite len_app in La.
      destruct (N.eqb_spec (len a) 0) as [Z|NZ].
      { apply len_0 in Z. subst a. cbn [app] in *. assert (len rest = 0) by (unfold len in *; cbn [length] in *; lia).
        apply len_0 in H. subst rest. rewrite firstn_nil. now rewrite rev_append_rev. }
      destruct (N.ltb_spec (len a) k) as [Lt|Ge].
      { assert (len rest = 0) by lia. apply len_0 in H. subst rest.
        rewrite firstn_all_len by (rewrite len_app; unfold len at 2; cbn [length]; lia).
        rewrite !rev_append_rev, app_nil_r, app_nil_r, rev_app_distr, rev_involutive. reflexivity. }
      rewrite IH by assumption. assert (Lk : len a = k) by lia.
      replace (N.to_nat (k + chunk_total r)) with (length a + N.to_nat (chunk_total r))%nat by (unfold len in Lk; lia).
      rewrite firstn_app_2. rewrite rev_append_rev, rev_app_distr, rev_involutive, <- app_assoc. reflexivity.
    + cbn [chunk_total read_to_end]. apply IH; assumption.
    + cbn in Ce. subst e'. cbn [chunk_total read_to_end is_intr]. apply IH; assumption.
Qed.

Lemma read_text_unfold data : read_text data =
  match utf8_decode data with None => Ok RErr | Some cps => read_text_cps cps end.
Proof. unfold read_text, read_text_sched. cbn [read_to_end rev_append]. reflexivity. Qed.

(* text reader: the result is that of reading the first p bytes as a complete stream (in particular Err when these
   are not valid UTF-8 or not a valid text, Ok of the diagram when they are) *)
Theorem read_text_zero_chunk data pre post : clean pre ->
  read_text_sched data (pre ++ EChunk 0 :: post) = read_text (firstn (N.to_nat (chunk_total pre)) data).
Proof.
  intros C. rewrite read_text_unfold. unfold read_text_sched. rewrite read_to_end_zero by assumption. reflexivity.
Qed.
Print Assumptions read_text_zero_chunk.

(* binary reader: read_exact meets Ok(0) = UnexpectedEof = end of input for read_as_bytes *)
Lemma read_bytes_loop_zero post :
  forall fuel acc data pre, clean pre -> (length data < fuel)%nat ->
  read_bytes_loop fuel acc data (pre ++ EChunk 0 :: post) =
  Ok (ROk (rev acc ++ records (firstn (N.to_nat (chunk_total pre)) data))).
Proof.
  induction fuel as [|f IH]; intros acc data pre C Hf; [lia|]. cbn [read_bytes_loop].
  destruct (read_exact_clean pre C 10 [] data (EChunk 0 :: post) eq_refl) as (A & B & D).
  assert (Short : forall l : list N, (length l < 10)%nat ->
            Ok (ROk (rev_append acc [])) = Ok (ROk (rev acc ++ records l))).
  { intros l Hl. rewrite records_short by assumption. now rewrite app_nil_r, rev_append_rev, app_nil_r. }
  destruct (N.leb_spec 10 (chunk_total pre)) as [CB|CS].
  - destruct (N.leb_spec 10 (len data)) as [Big|Small].
    + destruct A as (pre' & a & d' & C' & T' & E & La & R); [assumption|assumption|]. rewrite R. cbn [app].
      destruct (decode10 a) as (nd & Dn & Rn); [unfold len in La; lia|]. rewrite Dn. cbn [obind].
      rewrite IH; [|assumption|rewrite E, app_length in Hf; unfold len in La; lia].
      rewrite E. replace (N.to_nat (chunk_total pre)) with (length a + N.to_nat (chunk_total pre'))%nat by (unfold len in La; lia).
      rewrite firstn_app_2, Rn. cbn [rev]. rewrite <- app_assoc. reflexivity.
    + destruct D as (st & R); [assumption|lia|]. rewrite R. apply Short.
      rewrite firstn_length. unfold len in Small. lia.
  - destruct (N.leb_spec (chunk_total pre) (len data)) as [Le|Gt].
    + destruct B as (a & d' & E & La & R); [assumption|assumption|]. rewrite R. cbn [read_exact].
      destruct (take (N.min 0 (10 - chunk_total pre)) d') as [a2 rest2] eqn:T. rewrite take_spec in T.
      rewrite N.min_0_l in T. cbn in T. inversion T; subst a2 rest2. cbv zeta. cbn [len length N.of_nat N.eqb].
      apply Short. rewrite firstn_length. lia.
    + destruct D as (st & R); [lia|assumption|]. rewrite R. apply Short.
      rewrite firstn_length. unfold len in Gt. lia.
Qed.

Theorem read_bytes_zero_chunk data pre post : clean pre ->
  read_bytes_sched data (pre ++ EChunk 0 :: post) =
  Ok (ROk (records (firstn (N.to_nat (chunk_total pre)) data))).
Proof. intros C. unfold read_bytes_sched. rewrite read_bytes_loop_zero by (assumption || lia). reflexivity. Qed.
Print Assumptions read_bytes_zero_chunk.

(* the same thing said with the reader itself: as if the stream had ended after p bytes *)
Corollary read_bytes_zero_chunk_as_eof data pre post : clean pre ->
  read_bytes_sched data (pre ++ EChunk 0 :: post) = read_bytes (firstn (N.to_nat (chunk_total pre)) data).
Proof.
  intros C. rewrite read_bytes_zero_chunk by assumption. unfold read_bytes.
  rewrite read_bytes_sched_indep by constructor. reflexivity.
Qed.

(* ---------------------------------------------------------------- writers *)

(* write_all: Ok(0) from the writer while bytes remain = Err(WriteZero); exactly the clean prefix was accepted *)
Lemma write_all_zero pre : clean pre -> forall buf out post,
  chunk_total pre < len buf ->
  write_all buf (pre ++ EChunk 0 :: post) out = (false, (post, rev (firstn (N.to_nat (chunk_total pre)) buf) ++ out)).
Proof.
  induction pre as [|ev r IH]; intros C buf out post Ht; cbn [app].
  - destruct buf as [|x buf]; [unfold len in Ht; cbn in Ht; lia|]. cbn [write_all chunk_total]. reflexivity.
  - inversion C as [|x' y Ce Cr]; subst.
    destruct buf as [|x buf]; [unfold len in Ht; cbn in Ht; lia|]. cbn [write_all]. destruct ev as [k| |e'].
    + cbn in Ce. cbn [chunk_total] in *. destruct (N.eqb_spec k 0) as [Z|NZ]; [lia|].
      destruct (take k (x :: buf)) as [a rest] eqn:T. apply take_app in T. destruct T as (E & La).
      destruct rest as [|z rest].
      { rewrite app_nil_r in E. rewrite <- E in La. lia. }
      assert (Lk : len a = k) by lia.
      assert (Hlen : len (x :: buf) = k + len (z :: rest)) by (rewrite E, len_app; lia).
      rewrite (IH Cr (z :: rest) (rev_append a out) post) by lia.
      f_equal. f_equal. rewrite rev_append_rev, app_assoc, <- rev_app_distr. f_equal. f_equal.
      rewrite E. replace (N.to_nat (k + chunk_total r)) with (length a + N.to_nat (chunk_total r))%nat by (unfold len in Lk; lia).
      rewrite firstn_app_2. reflexivity.
    + cbn [chunk_total] in *. apply IH; assumption.
    + cbn in Ce. subst e'. cbn [is_intr chunk_total] in *. apply IH; assumption.
Qed.

Lemma write_pieces_zero ps : forall pre out post, clean pre ->
  chunk_total pre < len (concat ps) ->
  write_pieces ps (pre ++ EChunk 0 :: post) out =
  (false, (post, rev (firstn (N.to_nat (chunk_total pre)) (concat ps)) ++ out)).
Proof.
  induction ps as [|p r IH]; intros pre out post C Ht; cbn [write_pieces concat] in *.
  - unfold len in Ht. cbn in Ht. lia.
  - rewrite len_app in Ht. destruct (N.ltb_spec (chunk_total pre) (len p)) as [Lt|Ge].
    + rewrite (write_all_zero pre C p out post Lt). f_equal. f_equal. f_equal. f_equal.
      rewrite firstn_app. replace (N.to_nat (chunk_total pre) - length p)%nat with 0%nat by (unfold len in Lt; lia).
      cbn [firstn]. now rewrite app_nil_r.
    + destruct (write_all_within pre C p out (EChunk 0 :: post) Ge) as (pre' & C' & T' & E'). rewrite E'.
      rewrite (IH pre' (rev p ++ out) post C') by lia.
      f_equal. f_equal. rewrite app_assoc, <- rev_app_distr. f_equal. f_equal.
      replace (N.to_nat (chunk_total pre)) with (length p + N.to_nat (chunk_total pre'))%nat by (unfold len in *; lia).
      rewrite firstn_app_2. reflexivity.
Qed.

(* everything fits into the clean prefix: the zero-length chunk is never reached *)
Lemma write_pieces_within ps : forall pre out tail, clean pre -> len (concat ps) <= chunk_total pre ->
  exists s', write_pieces ps (pre ++ tail) out = (true, (s', rev (concat ps) ++ out)).
Proof.
  induction ps as [|p r IH]; intros pre out tail C Ht; cbn [write_pieces concat] in *.
  - eexists. reflexivity.
  - rewrite len_app in Ht.
    destruct (write_all_within pre C p out tail) as (pre' & C' & T' & E'); [lia|]. rewrite E'.
    destruct (IH pre' (rev p ++ out) tail C') as (s' & E''); [lia|]. rewrite E''. exists s'.
    rewrite rev_app_distr, <- app_assoc. reflexivity.
Qed.

Theorem write_bytes_sched_zero b pre post : clean pre -> chunk_total pre < len (write_bytes b) ->
  write_bytes_sched b (pre ++ EChunk 0 :: post) = (false, firstn (N.to_nat (chunk_total pre)) (write_bytes b)).
Proof.
  intros C Ht. unfold write_bytes_sched. unfold write_bytes in *.
  rewrite (write_pieces_zero (flat_map node_byte_pieces b) pre [] post C Ht).
  rewrite rev_append_rev, !app_nil_r, rev_involutive. reflexivity.
Qed.
Print Assumptions write_bytes_sched_zero.

Theorem write_text_sched_zero b pre post : clean pre -> chunk_total pre < len (write_text b) ->
  write_text_sched b (pre ++ EChunk 0 :: post) = (false, firstn (N.to_nat (chunk_total pre)) (write_text b)).
Proof.
  intros C Ht. unfold write_text_sched. unfold write_text in *.
  rewrite (write_pieces_zero (write_text_pieces b) pre [] post C Ht).
  rewrite rev_append_rev, !app_nil_r, rev_involutive. reflexivity.
Qed.
Print Assumptions write_text_sched_zero.

Theorem write_bytes_sched_zero_unreached b pre tail : clean pre -> len (write_bytes b) <= chunk_total pre ->
  write_bytes_sched b (pre ++ tail) = (true, write_bytes b).
Proof.
  intros C Ht. unfold write_bytes_sched. unfold write_bytes in *.
  destruct (write_pieces_within (flat_map node_byte_pieces b) pre [] tail C Ht) as (s' & E). rewrite E.
  rewrite rev_append_rev, !app_nil_r, rev_involutive. reflexivity.
Qed.

Theorem write_text_sched_zero_unreached b pre tail : clean pre -> len (write_text b) <= chunk_total pre ->
  write_text_sched b (pre ++ tail) = (true, write_text b).
Proof.
  intros C Ht. unfold write_text_sched. unfold write_text in *.
  destruct (write_pieces_within (write_text_pieces b) pre [] tail C Ht) as (s' & E). rewrite E.
  rewrite rev_append_rev, !app_nil_r, rev_involutive. reflexivity.
Qed.

(* instances: a 4-node diagram; the zero chunk after 13 bytes cuts the binary stream inside the second record;
   after 20 bytes exactly two records are returned; the text reader fails on the truncated text and succeeds when the
   zero chunk comes after the whole text; the writers report WriteZero with 8 bytes accepted *)
Example zero_chunk_examples :
  let b := [mkNode 65535 0 0; mkNode 65535 1 1; mkNode 300 0 1; mkNode 7 70000 2] in
  read_bytes_sched (write_bytes b) [EChunk 3; EIntr; EChunk 10; EChunk 0; EChunk 50] = Ok (ROk (firstn 1 b)) /\
  read_bytes_sched (write_bytes b) [EChunk 20; EChunk 0] = Ok (ROk (firstn 2 b)) /\
  read_text_sched (write_text b) [EChunk 9; EChunk 0; EChunk 100] = Ok RErr /\
  read_text_sched (write_text b) [EChunk 4; EIntr; EChunk 7; EChunk 0; EChunk 100] = Ok (ROk (firstn 1 b)) /\
  read_text_sched (write_text b) [EChunk 1000; EChunk 0] = Ok (ROk b) /\
  write_bytes_sched b [EChunk 3; EIntr; EChunk 5; EChunk 0; EChunk 100] = (false, firstn 8 (write_bytes b)) /\
  write_text_sched b [EChunk 8; EChunk 0] = (false, firstn 8 (write_text b)) /\
  write_text_sched b [EChunk 1000; EChunk 0] = (true, write_text b).
Proof. vm_compute. repeat split. Qed.
