(* Proofs/Canon.v — node_dep, cross, chk facts, chk_sync, canonical_unique. *)
From Coq Require Import List NArith Lia Bool.
Import ListNotations.
From BddVerif Require Import Model.Bdd Proofs.Sem.
Open Scope N_scope.

Lemma node_dep a p (g : val -> bool) : wf a -> reduced a -> valid a p -> 2 <= p ->
  (forall v c, g (upd v (var_of a p) c) = g v) -> feq (sem a p) g -> False.
Proof.
  intros Wa Ra (Vp & Vp1) Hp Hg E.
  destruct (wf_children a p Wa Hp Vp) as (Vl & Vh & Hl & Hh & Hn).
  pose proof Ra as (Hred & _). apply (Hred p Hp Vp).
  apply (sem_inj a); try assumption.
  intros v. rewrite <- (sem_cof a p v false), <- (sem_cof a p v true) by assumption.
  rewrite !E, !Hg. reflexivity.
Qed.

Lemma term_const b p v c x : p < 2 -> sem b p (upd v x c) = sem b p v.
Proof. intros H. assert (p = 0 \/ p = 1) as [->| ->] by lia; reflexivity. Qed.

Lemma cross a b p q : wf a -> wf b -> reduced a -> reduced b -> nvars a = nvars b ->
  valid a p -> valid b q -> feq (sem a p) (sem b q) ->
  (p < 2 -> q = p) /\
  (2 <= p -> 2 <= q /\ var_of a p = var_of b q /\
     feq (sem a (nlow (get a p))) (sem b (nlow (get b q))) /\
     feq (sem a (nhigh (get a p))) (sem b (nhigh (get b q)))).
Proof.
  intros Wa Wb Ra Rb Hnv Vp Vq E.
  assert (Hterm : forall a b p q, wf b -> reduced b -> valid b q -> p < 2 -> feq (sem a p) (sem b q) -> q = p).
  { clear. intros a b p q Wb Rb Vq Hp E.
    destruct (N.ltb_spec q 2) as [Hq|Hq].
    - assert (p = 0 \/ p = 1) as [->| ->] by lia; assert (q = 0 \/ q = 1) as [->| ->] by lia; try reflexivity;
        specialize (E (fun _ => false)); cbn in E; discriminate.
    - exfalso. apply (node_dep b q (sem a p)); try assumption.
      + intros; now apply term_const.
      + intros v; symmetry; apply E. }
  split.
  - intros Hp. eapply Hterm; eassumption.
  - intros Hp.
    assert (Hq : 2 <= q).
    { destruct (N.ltb_spec q 2) as [Hq|Hq]; [|assumption]. exfalso.
      assert (p = q). { apply (Hterm b a q p); try assumption. intros v; symmetry; apply E. } lia. }
    pose proof Vp as (Vp0 & _). pose proof Vq as (Vq0 & _).
    destruct (wf_children a p Wa Hp Vp0) as (Vl & Vh & Hl & Hh & Hn).
    destruct (wf_children b q Wb Hq Vq0) as (Vl' & Vh' & Hl' & Hh' & Hn').
    assert (Hv : var_of a p = var_of b q).
    { destruct (N.lt_trichotomy (var_of a p) (var_of b q)) as [H|[H|H]]; [exfalso|exact H|exfalso].
      - apply (node_dep a p (sem b q)); try assumption.
        intros v c. apply sem_indep; assumption.
      - apply (node_dep b q (sem a p)); try assumption.
        + intros v c. apply sem_indep; assumption.
        + intros v; symmetry; apply E. }
    repeat split; try assumption.
    + intros v. rewrite <- (sem_cof a p v false), <- (sem_cof b q v false) by assumption. rewrite Hv. apply E.
    + intros v. rewrite <- (sem_cof a p v true), <- (sem_cof b q v true) by assumption. rewrite Hv. apply E.
Qed.

(* chk facts *)
Lemma chk_lt fuel G : forall lim p l, chk fuel G lim p = Some l -> p < l /\ lim <= l.
Proof.
  induction fuel as [|f IH]; intros lim p l H; [discriminate|]. cbn in H.
  destruct (N.ltb_spec p lim).
  - inversion H; subst; lia.
  - destruct (chk f G lim (nhigh (get G p))) as [l1|] eqn:E1; [|discriminate].
    destruct (chk f G l1 (nlow (get G p))) as [l2|] eqn:E2; [|discriminate].
    destruct (N.eqb_spec p l2); [|discriminate]. inversion H; subst.
    apply IH in E1. apply IH in E2. lia.
Qed.

Definition prefix_eq (a b : bdd) (lim : N) := forall i, i < lim -> get a i = get b i.
Definition closed (a : bdd) (lim : N) := forall i, 2 <= i -> i < lim -> nlow (get a i) < lim /\ nhigh (get a i) < lim.

(* identical closed prefixes denote identical functions *)
Lemma prefix_sem a b lim : wf a -> wf b -> nvars a = nvars b -> 2 <= lim -> lim <= size a -> lim <= size b ->
  prefix_eq a b lim -> closed a lim -> forall k i, i < lim -> (N.to_nat (nvars a - var_of a i) < k)%nat ->
  feq (sem a i) (sem b i).
Proof.
  intros Wa Wb Hnv Hl Ha Hb Hpre Hcl. induction k as [|k IH]; intros i Hi Hk v; [lia|].
  destruct (N.ltb_spec i 2) as [Hlt|Hge].
  - assert (i = 0 \/ i = 1) as [->| ->] by lia; reflexivity.
  - rewrite (sem_unfold a i v), (sem_unfold b i v) by (try assumption; lia).
    unfold var_of. rewrite <- (Hpre i Hi). fold (var_of a i).
    destruct (Hcl i Hge Hi) as (Hlo & Hhi).
    destruct (wf_children a i Wa Hge ltac:(lia)) as (Vl & Vh & Hvl & Hvh & Hn).
    destruct (v (var_of a i)); apply IH; try assumption; lia.
Qed.

Lemma chk_sync a b : wf a -> wf b -> reduced a -> reduced b -> nvars a = nvars b ->
  forall fuel lim p q la lb,
  2 <= lim -> lim <= size a -> lim <= size b -> prefix_eq a b lim -> closed a lim ->
  valid a p -> valid b q -> feq (sem a p) (sem b q) ->
  chk fuel a lim p = Some la -> chk fuel b lim q = Some lb ->
  p = q /\ la = lb /\ la <= size a /\ la <= size b /\ prefix_eq a b la /\ closed a la.
Proof.
  intros Wa Wb Ra Rb Hnv. induction fuel as [|f IH]; intros lim p q la lb Hl Ha Hb Hpre Hcl Vp Vq E Ca Cb; [discriminate|].
  assert (Hsem : forall i, i < lim -> feq (sem a i) (sem b i)).
  { intros i Hi. apply (prefix_sem a b lim Wa Wb Hnv Hl Ha Hb Hpre Hcl (S (N.to_nat (nvars a - var_of a i)))); auto. }
  cbn in Ca, Cb.
  destruct (N.ltb_spec p lim) as [Hp|Hp].
  - (* p already visited: q must be p *)
    assert (q = p).
    { apply (sem_inj b); try assumption.
      - split; [lia|intros; lia].
      - intros v. rewrite <- E. apply Hsem. exact Hp. }
    subst q. destruct (N.ltb_spec p lim); [|lia]. inversion Ca; inversion Cb; subst. refine (conj eq_refl (conj eq_refl (conj _ (conj _ (conj _ _))))); assumption.
  - destruct (N.ltb_spec q lim) as [Hq|Hq].
    + exfalso. assert (p = q); [|lia].
      apply (sem_inj a); try assumption.
      * split; [lia|intros; lia].
      * intros v. rewrite E. symmetry. apply Hsem. exact Hq.
    + destruct (cross a b p q Wa Wb Ra Rb Hnv Vp Vq E) as (_ & Hc).
      destruct (Hc ltac:(lia)) as (Hq2 & Hv & El & Eh).
      pose proof Vp as (Vp0 & _). pose proof Vq as (Vq0 & _).
      destruct (wf_children a p Wa ltac:(lia) Vp0) as (Vl & Vh & _).
      destruct (wf_children b q Wb Hq2 Vq0) as (Vl' & Vh' & _).
      destruct (chk f a lim (nhigh (get a p))) as [l1|] eqn:A1; [|discriminate].
      destruct (chk f a l1 (nlow (get a p))) as [l2|] eqn:A2; [|discriminate].
      destruct (chk f b lim (nhigh (get b q))) as [m1|] eqn:B1; [|discriminate].
      destruct (chk f b m1 (nlow (get b q))) as [m2|] eqn:B2; [|discriminate].
      destruct (N.eqb_spec p l2); [|discriminate]. destruct (N.eqb_spec q m2); [|discriminate].
      inversion Ca; inversion Cb; subst la lb.
      destruct (IH lim _ _ _ _ Hl Ha Hb Hpre Hcl Vh Vh' Eh A1 B1) as (Hh & -> & Ha1 & Hb1 & Hpre1 & Hcl1).
      pose proof (chk_lt _ _ _ _ _ A1) as (Hhl & Hl1).
      destruct (IH m1 _ _ _ _ ltac:(lia) Ha1 Hb1 Hpre1 Hcl1 Vl Vl' El A2 B2) as (Hlo & -> & Ha2 & Hb2 & Hpre2 & Hcl2).
      pose proof (chk_lt _ _ _ _ _ A2) as (Hll & Hl2).
      subst p q. refine (conj eq_refl (conj eq_refl (conj _ (conj _ (conj _ _))))); try lia.
      * intros i Hi. destruct (N.eq_dec i m2) as [->|Hne]; [|apply Hpre2; lia].
        apply node_ext; [exact Hv | exact Hlo | exact Hh].
      * intros i Hi2 Hi. destruct (N.eq_dec i m2) as [->|Hne]; [lia|]. destruct (Hcl2 i ltac:(lia) ltac:(lia)); lia.
Qed.
Print Assumptions chk_sync.

Definition layout (b : bdd) : Prop :=
  size b = 1 \/ chk (S (N.to_nat (nvars b))) b 2 (size b - 1) = Some (size b).
(* Canonical: valid ordered diagram, reduced, and laid out in the library's DFS post-order
   (high child first, root last, nothing unreachable). *)
Definition Canonical (b : bdd) : Prop := wf b /\ reduced b /\ layout b.

Lemma get_ext (a b : bdd) : length a = length b -> (forall i, i < size a -> get a i = get b i) -> a = b.
Proof.
  intros Hlen H. apply (nth_ext a b dnode dnode Hlen). intros n Hn.
  specialize (H (N.of_nat n)). unfold get, size in H. rewrite Nnat.Nat2N.id in H. apply H. lia.
Qed.

(* a canonical diagram with more than one node is not the constant false *)
Lemma canonical_nonfalse b : Canonical b -> size b <> 1 -> ~ (forall v, eval b v = false).
Proof.
  intros (Wb & Rb & Lb) Hs Hall. pose proof (size_pos b Wb) as Hp.
  assert (Hr : valid b (size b - 1)) by (split; [lia|intros; lia]).
  assert (H0 : valid b 0) by (split; [lia|intros; lia]).
  assert (E : size b - 1 = 0).
  { apply (sem_inj b); assumption. }
  lia.
Qed.

Theorem canonical_unique a b : Canonical a -> Canonical b -> nvars a = nvars b ->
  (forall v, eval a v = eval b v) -> a = b.
Proof.
  intros Ca Cb Hnv E. pose proof Ca as (Wa & Ra & La). pose proof Cb as (Wb & Rb & Lb).
  assert (Hone : forall c, size c = 1 -> forall v, eval c v = false).
  { intros c Hc v. unfold eval. rewrite Hc. reflexivity. }
  assert (Hz : forall c, wf c -> get c 0 = mkNode (nvars c) 0 0) by (intros c (_ & H & _); exact H).
  destruct (N.eq_dec (size a) 1) as [Sa|Sa], (N.eq_dec (size b) 1) as [Sb|Sb].
  - apply get_ext; [unfold size in *; lia|]. intros i Hi. assert (i = 0) by lia. subst i.
    rewrite (Hz a Wa), (Hz b Wb), Hnv. reflexivity.
  - exfalso. apply (canonical_nonfalse b Cb Sb). intros v. rewrite <- E. now apply Hone.
  - exfalso. apply (canonical_nonfalse a Ca Sa). intros v. rewrite E. now apply Hone.
  - destruct La as [?|La]; [lia|]. destruct Lb as [?|Lb]; [lia|].
    pose proof (size_pos a Wa). pose proof (size_pos b Wb).
    assert (Ha2 : 2 <= size a) by lia. assert (Hb2 : 2 <= size b) by lia.
    rewrite Hnv in La.
    assert (P0 : prefix_eq a b 2).
    { intros i Hi. assert (i = 0 \/ i = 1) as [->| ->] by lia.
      * rewrite (Hz a Wa), (Hz b Wb), Hnv. reflexivity.
      * destruct Wa as (_ & _ & Ha1 & _), Wb as (_ & _ & Hb1 & _). rewrite Ha1, Hb1, Hnv by assumption. reflexivity. }
    assert (C0 : closed a 2) by (intros i Hi2 Hi; lia).
    assert (Vp : valid a (size a - 1)) by (split; [lia|intros; lia]).
    assert (Vq : valid b (size b - 1)) by (split; [lia|intros; lia]).
    assert (H22 : 2 <= 2) by lia.
    destruct (chk_sync a b Wa Wb Ra Rb Hnv _ 2 (size a - 1) (size b - 1) (size a) (size b)
                H22 Ha2 Hb2 P0 C0 Vp Vq E La Lb) as (Hr & Hs & _ & _ & Hpre & _).
    apply get_ext; [unfold size in *; lia|]. exact Hpre.
Qed.
