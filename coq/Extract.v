(* Extraction of the executable model to OCaml (driver/model.ml).
   Only ExtrOcamlBasic (bool, option, list, prod, unit, sumbool -> native OCaml types);
   N, positive, nat, Z stay as extracted inductive types. No Extract Constant of our own. *)
From Coq Require Import Extraction ExtrOcamlBasic.
From BddVerif Require Import Model.Bdd Model.Apply Model.Ops.
Extraction Language OCaml.
Extraction "../driver/model.ml"
  Bdd.mkNode Bdd.get Bdd.size Bdd.nvars Bdd.eval Bdd.val_of_list Bdd.wfb Bdd.reducedb Bdd.layoutb Bdd.canonicalb
  Bdd.mk_true Bdd.mk_false
  Apply.fused_binary_flip_op Apply.fused_binary_flip_op_with_limit Apply.check_fused_binary_flip_op
  Ops.bdd_not Ops.fused_ternary_flip_op Ops.ternary_op Ops.if_then_else Ops.op3_of_table
  Apply.op_of_table Apply.op_and Apply.op_or Apply.op_imp Apply.op_iff Apply.op_xor Apply.op_and_not.
