(* Extraction of the executable model to OCaml (driver/model.ml).
   Only ExtrOcamlBasic (bool, option, list, prod, unit, sumbool -> native OCaml types);
   N, positive, nat, Z stay as extracted inductive types. No Extract Constant of our own. *)
From Coq Require Import Extraction ExtrOcamlBasic.
From BddVerif Require Import Model.Bdd Model.Apply Model.Ops.
Extraction Language OCaml.
Extraction "../driver/model.ml"
  Bdd.mkNode Bdd.get Bdd.size Bdd.nvars Bdd.eval Bdd.val_of_list Bdd.wfb Bdd.reducedb Bdd.layoutb Bdd.canonicalb
  Bdd.mk_true Bdd.mk_false
  Apply.fused_binary_flip_op Apply.fused_binary_flip_op_with_limit Apply.check_fused_binary_flip_op
  Ops.mk_literal Ops.vs_mk_literal Ops.mk_conjunctive_clause Ops.mk_disjunctive_clause Ops.of_valuation Ops.pv_from_values
  Ops.var_exists Ops.var_for_all Ops.bdd_exists Ops.bdd_for_all Ops.binary_op_with_exists Ops.binary_op_with_for_all Ops.binary_op_nested
  Ops.var_select Ops.select Ops.restrict Ops.var_restrict Ops.var_pick Ops.var_pick_random Ops.pick Ops.pick_random Ops.substitute
  Ops.cmp_implies Ops.mk_dnf Ops.mk_cnf Ops.mk_sat_k Ops.support
  Ops.bdd_not Ops.fused_ternary_flip_op Ops.ternary_op Ops.if_then_else Ops.op3_of_table
  Apply.op_of_table Apply.op_and Apply.op_or Apply.op_imp Apply.op_iff Apply.op_xor Apply.op_and_not.
