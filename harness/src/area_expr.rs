// Expression area (C15): the `bdd!` macro forms against the corresponding method chains.
//   (macro sym A [B])        -> the Bdd produced by bdd!(!a) / bdd!(a SYM b)
//   (macro_eq form A B)      -> T iff the macro form equals (==, i.e. identical arrays) its method chain
//   (macro_vars_eq form nv i j) -> the `bdd!(vars, ..)` forms over BddVariable idents and "x_i" string literals
use crate::ops::*;
use crate::sexp::S;
use biodivine_lib_bdd::{bdd, BddVariable, BddVariableSet};

pub fn run(c: &[S]) -> Option<S> {
    let op = c[0].as_atom();
    let a = &c[1..];
    Some(match op {
        "macro" => {
            let sym = a[0].as_atom().to_string();
            let x = d_bdd_fresh(&a[1]);
            if sym == "not" {
                return Some(e_bdd(&bdd!(!x)));
            }
            let y = d_bdd_fresh(&a[2]);
            let r = match sym.as_str() {
                "and" => bdd!(x & y),
                "or" => bdd!(x | y),
                "xor" => bdd!(x ^ y),
                "imp" => bdd!(x => y),
                "iff" => bdd!(x <=> y),
                _ => panic!("harness: unknown macro symbol {}", sym),
            };
            e_bdd(&r)
        }
        "macro_eq" => {
            let form = a[0].as_atom().to_string();
            let x = d_bdd_fresh(&a[1]);
            let y = d_bdd_fresh(&a[2]);
            // the `$vars:ident` rules need a variable set of the operands' width; Bdd idents ignore it
            let vs = BddVariableSet::new_anonymous(x.num_vars());
            let (xx, yy) = (x.clone(), y.clone());
            let ok = match form.as_str() {
                "not" => bdd!(!x) == xx.not(),
                "and" => bdd!(x & y) == xx.and(&yy),
                "or" => bdd!(x | y) == xx.or(&yy),
                "xor" => bdd!(x ^ y) == xx.xor(&yy),
                "imp" => bdd!(x => y) == xx.imp(&yy),
                "iff" => bdd!(x <=> y) == xx.iff(&yy),
                // parenthesis elimination
                "p_not" => bdd!((!x)) == xx.not(),
                "p_and" => bdd!((x & y)) == xx.and(&yy),
                "p_or" => bdd!(((x | y))) == xx.or(&yy),
                "p_ident" => bdd!((x)) == xx,
                // nested forms
                "n_1" => bdd!((x & y) | (!x)) == xx.and(&yy).or(&xx.not()),
                "n_2" => bdd!((x <=> (!y)) | (y ^ x)) == xx.iff(&yy.not()).or(&yy.xor(&xx)),
                "n_3" => bdd!((!(x => y)) ^ ((x | y) & x)) == xx.imp(&yy).not().xor(&xx.or(&yy).and(&xx)),
                // rules with a variable set and Bdd idents (IntoBdd for Bdd)
                "v_not" => bdd!(vs, !x) == xx.not(),
                "v_and" => bdd!(vs, x & y) == xx.and(&yy),
                "v_or" => bdd!(vs, x | y) == xx.or(&yy),
                "v_xor" => bdd!(vs, x ^ y) == xx.xor(&yy),
                "v_imp" => bdd!(vs, x => y) == xx.imp(&yy),
                "v_iff" => bdd!(vs, x <=> y) == xx.iff(&yy),
                // IntoBdd for &Bdd (references may be used more than once)
                "v_n_1" => {
                    let (rx, ry) = (&xx, &yy);
                    bdd!(vs, (rx & (!ry)) => (ry | rx)) == xx.and(&yy.not()).imp(&yy.or(&xx))
                }
                _ => panic!("harness: unknown macro form {}", form),
            };
            S::boolean(ok)
        }
        "macro_vars_eq" => {
            let form = a[0].as_atom().to_string();
            let nv = d_u16(&a[1]);
            let vs = BddVariableSet::new_anonymous(nv);
            let p = BddVariable::from_index(d_u16(&a[2]) as usize);
            let q = BddVariable::from_index(d_u16(&a[3]) as usize);
            let (bp, bq) = (vs.mk_var(p), vs.mk_var(q));
            let (l0, l1) = (vs.mk_var_by_name("x_0"), vs.mk_var_by_name("x_1"));
            let ok = match form.as_str() {
                "var_ident" => bdd!(vs, p) == bp,
                "var_not" => bdd!(vs, !p) == bp.not(),
                "var_and" => bdd!(vs, p & q) == bp.and(&bq),
                "var_or" => bdd!(vs, p | q) == bp.or(&bq),
                "var_xor" => bdd!(vs, p ^ q) == bp.xor(&bq),
                "var_imp" => bdd!(vs, p => q) == bp.imp(&bq),
                "var_iff" => bdd!(vs, p <=> q) == bp.iff(&bq),
                "var_n_1" => bdd!(vs, (p <=> (!q)) | (q ^ p)) == bp.iff(&bq.not()).or(&bq.xor(&bp)),
                "lit_ident" => bdd!(vs, "x_0") == l0,
                "lit_not" => bdd!(vs, !"x_1") == l1.not(),
                "lit_and" => bdd!(vs, "x_0" & "x_1") == l0.and(&l1),
                "lit_or" => bdd!(vs, "x_0" | "x_1") == l0.or(&l1),
                "lit_xor" => bdd!(vs, "x_0" ^ "x_1") == l0.xor(&l1),
                "lit_imp" => bdd!(vs, "x_0" => "x_1") == l0.imp(&l1),
                "lit_iff" => bdd!(vs, "x_0" <=> "x_1") == l0.iff(&l1),
                "mix_1" => bdd!(vs, ("x_0" & p) | (!q)) == l0.and(&bp).or(&bq.not()),
                _ => panic!("harness: unknown macro form {}", form),
            };
            S::boolean(ok)
        }
        _ => return None,
    })
}
