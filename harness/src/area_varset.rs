// Variable sets (C16): BddVariableSetBuilder / BddVariableSet, names <-> variables.
//
// A set is denoted by a construction spec, rebuilt by every operation (values are s-expressions, a set
// cannot be stored):   (new (L h:..))    BddVariableSet::new(&[&str])
//                      (from (L h:..))   BddVariableSet::from(Vec<String>)  (builder fed name by name, then build)
//                      (anon n)          BddVariableSet::new_anonymous(n)
// A panic of the construction is the PANIC result of the whole operation.
use crate::ops::*;
use crate::sexp::S;
use biodivine_lib_bdd::*;

pub fn d_set(x: &S) -> BddVariableSet {
    let it = x.as_list();
    match it[0].as_atom() {
        "new" => {
            let names = d_names(&it[1]);
            let refs: Vec<&str> = names.iter().map(|s| s.as_str()).collect();
            BddVariableSet::new(&refs)
        }
        "from" => BddVariableSet::from(d_names(&it[1])),
        "anon" => BddVariableSet::new_anonymous(d_u16(&it[1])),
        _ => panic!("harness: unknown set spec {}", x),
    }
}

fn e_name(s: &str) -> S {
    e_hex(s.as_bytes())
}

fn e_var(v: BddVariable) -> S {
    S::int(v.to_index())
}

// (VS num_vars (L names) (L variables) display)
fn e_set(vs: &BddVariableSet) -> S {
    S::list(
        "VS",
        vec![
            S::int(vs.num_vars()),
            S::list("L", vs.variable_names().iter().map(|s| e_name(s)).collect()),
            S::list("L", vs.variables().into_iter().map(e_var).collect()),
            e_hex(format!("{}", vs).as_bytes()),
        ],
    )
}

pub fn run(c: &[S]) -> Option<S> {
    let op = c[0].as_atom();
    let a = &c[1..];
    Some(match op {
        "vs_summary" => e_set(&d_set(&a[0])),
        // every make_variable call under its own catch_unwind, then build
        "vs_steps" => {
            let names = d_names(&a[0]);
            let mut builder = BddVariableSetBuilder::new();
            let mut outs = Vec::new();
            for n in &names {
                let r = std::panic::catch_unwind(std::panic::AssertUnwindSafe(|| builder.make_variable(n.as_str())));
                outs.push(match r {
                    Ok(v) => e_var(v),
                    Err(_) => S::atom("PANIC"),
                });
            }
            S::list("P", vec![S::list("L", outs), e_set(&builder.build())])
        }
        // make_variables batch by batch, then build
        "vs_batches" => {
            let mut builder = BddVariableSetBuilder::new();
            let mut outs = Vec::new();
            for batch in d_items(&a[0], "L") {
                let names = d_names(batch);
                let refs: Vec<&str> = names.iter().map(|s| s.as_str()).collect();
                let vars = builder.make_variables(&refs);
                outs.push(S::list("L", vars.into_iter().map(e_var).collect()));
            }
            S::list("P", vec![S::list("L", outs), e_set(&builder.build())])
        }
        "vs_var_by_name" => {
            let vs = d_set(&a[0]);
            let name = String::from_utf8(d_hex(&a[1])).unwrap_or_else(|_| panic!("harness: utf8 name"));
            e_opt(&vs.var_by_name(name.as_str()), |v| e_var(*v))
        }
        "vs_name_of" => {
            let vs = d_set(&a[0]);
            e_name(vs.name_of(d_var(&a[1])).as_str())
        }
        "vs_mk_var_by_name" => {
            let vs = d_set(&a[0]);
            let name = String::from_utf8(d_hex(&a[1])).unwrap_or_else(|_| panic!("harness: utf8 name"));
            e_bdd(&vs.mk_var_by_name(name.as_str()))
        }
        "vs_mk_not_var_by_name" => {
            let vs = d_set(&a[0]);
            let name = String::from_utf8(d_hex(&a[1])).unwrap_or_else(|_| panic!("harness: utf8 name"));
            e_bdd(&vs.mk_not_var_by_name(name.as_str()))
        }
        // var_by_name(name_of(v)) for every variable of the set, in order
        "vs_roundtrip" => {
            let vs = d_set(&a[0]);
            S::list(
                "L",
                vs.variables()
                    .into_iter()
                    .map(|v| e_opt(&vs.var_by_name(vs.name_of(v).as_str()), |w| e_var(*w)))
                    .collect(),
            )
        }
        // dot export against an explicitly constructed set: (vs_dot bdd spec pruned)
        "vs_dot" => {
            let vs = d_set(&a[1]);
            e_hex(d_bdd(&a[0]).to_dot_string(&vs, d_bool(&a[2])).as_bytes())
        }
        // the Write-based entry point must produce the same bytes
        "dot_write" => {
            let vs = BddVariableSet::from(d_names(&a[1]));
            let mut buf: Vec<u8> = Vec::new();
            d_bdd(&a[0])
                .write_as_dot_string(&mut buf, &vs, d_bool(&a[2]))
                .unwrap_or_else(|_| panic!("harness: io error on Vec"));
            e_hex(&buf)
        }
        _ => return None,
    })
}
