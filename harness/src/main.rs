// bddh — correspondence harness: executes a program of operations against the real
// biodivine-lib-bdd crate (built from /repo's working tree) and prints a transcript.
//
// input  line: (id op arg ...)          operands are literals or $k = result of line k
// output line: (id (op arg' ...) res)   arg' = operand values as the implementation holds them
//
// Every operation runs under catch_unwind; a panic is the result `PANIC`.
mod ops;
mod sexp;
mod areas {
    include!(concat!(env!("OUT_DIR"), "/areas.rs"));
}

use sexp::S;
use std::collections::HashMap;
use std::io::{BufRead, Write};

fn main() {
    std::panic::set_hook(Box::new(|_| {}));
    let args: Vec<String> = std::env::args().collect();
    let input: Box<dyn BufRead> = if args.len() > 1 {
        Box::new(std::io::BufReader::new(std::fs::File::open(&args[1]).expect("open input")))
    } else {
        Box::new(std::io::BufReader::new(std::io::stdin()))
    };
    let stdout = std::io::stdout();
    let mut out = std::io::BufWriter::new(stdout.lock());
    let mut results: HashMap<String, S> = HashMap::new();
    for line in input.lines() {
        let line = line.expect("read line");
        let line = line.trim();
        if line.is_empty() || line.starts_with('#') {
            continue;
        }
        let case = sexp::parse(line);
        let items = case.as_list();
        let id = items[0].as_atom().to_string();
        // resolve references
        let resolved: Vec<S> = items[1..].iter().map(|x| resolve(x, &results)).collect();
        let call = S::L(resolved.clone());
        let res = match std::panic::catch_unwind(std::panic::AssertUnwindSafe(|| ops::run(&resolved))) {
            Ok(v) => v,
            Err(payload) => {
                let msg = if let Some(m) = payload.downcast_ref::<String>() {
                    m.clone()
                } else if let Some(m) = payload.downcast_ref::<&str>() {
                    m.to_string()
                } else {
                    String::new()
                };
                // decoding problems of the harness itself (e.g. an operand that is PANIC) are not library panics
                if msg.starts_with("harness: unknown") {
                    // an operation the harness does not implement is a machinery error, never a silent skip
                    eprintln!("{} in case {}", msg, line);
                    std::process::exit(3);
                } else if msg.starts_with("harness:") {
                    S::atom("SKIP")
                } else {
                    S::atom("PANIC")
                }
            }
        };
        writeln!(out, "({} {} {})", id, call, res).unwrap();
        results.insert(id, res);
    }
    out.flush().unwrap();
}

fn resolve(x: &S, results: &HashMap<String, S>) -> S {
    match x {
        S::A(a) if a.starts_with('$') => {
            let r = results.get(&a[1..]).unwrap_or_else(|| panic!("harness: unknown ref {}", a));
            // unwrap (S x) / (OK x) wrappers so that optional results can be chained
            match r {
                S::L(v) if v.len() == 2 && (v[0].as_atom() == "S" || v[0].as_atom() == "OK") => v[1].clone(),
                _ => r.clone(),
            }
        }
        S::A(_) => x.clone(),
        S::L(v) => S::L(v.iter().map(|y| resolve(y, results)).collect()),
    }
}
