// bddh — correspondence harness: executes a program of operations against the real
// biodivine-lib-bdd crate (built from /repo's working tree) and prints a transcript.
//
// input  line: (id op arg ...)          operands are literals or $k = result of line k
// output line: (id (op arg' ...) res)   arg' = operand values as the implementation holds them
//
// Every operation runs under catch_unwind; a panic is the result `PANIC`; an operation that does not return within
// VERIF_HANG_SECS (default 120) is the result `HANG`.
mod ops;
mod sexp;
mod areas {
    include!(concat!(env!("OUT_DIR"), "/areas.rs"));
}

use sexp::S;
use std::collections::HashMap;
use std::io::{BufRead, Write};

fn main() {
    std::panic::set_hook(Box::new(|_| {}));
    let args: Vec<String> = std::env::args().collect();
    let input: Box<dyn BufRead> = if args.len() > 1 {
        Box::new(std::io::BufReader::new(std::fs::File::open(&args[1]).expect("open input")))
    } else {
        Box::new(std::io::BufReader::new(std::io::stdin()))
    };
    let stdout = std::io::stdout();
    let mut out = std::io::BufWriter::new(stdout.lock());
    let mut results: HashMap<String, S> = HashMap::new();
    let hang = std::time::Duration::from_secs(std::env::var("VERIF_HANG_SECS").ok().and_then(|s| s.parse().ok()).unwrap_or(120));
    let mut worker = spawn_worker();
    for line in input.lines() {
        let line = line.expect("read line");
        let line = line.trim();
        if line.is_empty() || line.starts_with('#') {
            continue;
        }
        let case = sexp::parse(line);
        let items = case.as_list();
        let id = items[0].as_atom().to_string();
        // resolve references
        let resolved: Vec<S> = items[1..].iter().map(|x| resolve(x, &results)).collect();
        let call = S::L(resolved.clone());
        // the operation runs on a worker thread: one that does not answer within HANG_SECS is abandoned (result `HANG`,
        // the thread is left behind and a fresh worker takes over), so that a non-terminating library call costs one case,
        // not the whole shard
        worker.jobs.send((id.clone(), resolved.clone())).expect("worker gone");
        let res = match worker.results.recv_timeout(hang) {
            Ok(Ok(v)) => v,
            Ok(Err(msg)) => {
                // decoding problems of the harness itself (e.g. an operand that is PANIC) are not library panics
                if msg.starts_with("harness: unknown") {
                    // an operation the harness does not implement is a machinery error, never a silent skip
                    eprintln!("{} in case {}", msg, line);
                    std::process::exit(3);
                } else if msg.starts_with("harness:") {
                    S::atom("SKIP")
                } else {
                    S::atom("PANIC")
                }
            }
            Err(_) => {
                worker = spawn_worker();
                S::atom("HANG")
            }
        };
        writeln!(out, "({} {} {})", id, call, res).unwrap();
        // every answer reaches the transcript at once: if a later call takes the whole process down (allocation failure,
        // abort, stack overflow) the framework sees which case it was and resumes after it
        out.flush().unwrap();
        results.insert(id, res);
    }
    out.flush().unwrap();
}

struct Worker {
    jobs: std::sync::mpsc::Sender<(String, Vec<S>)>,
    results: std::sync::mpsc::Receiver<Result<S, String>>,
}

fn spawn_worker() -> Worker {
    let (jobs, job_rx) = std::sync::mpsc::channel::<(String, Vec<S>)>();
    let (res_tx, results) = std::sync::mpsc::channel::<Result<S, String>>();
    std::thread::Builder::new()
        .stack_size(1 << 30)
        .spawn(move || {
            for (id, resolved) in job_rx {
                ops::begin_case(&id);
                let r = match std::panic::catch_unwind(std::panic::AssertUnwindSafe(|| ops::run(&resolved))) {
                    Ok(v) => Ok(v),
                    Err(payload) => Err(if let Some(m) = payload.downcast_ref::<String>() {
                        m.clone()
                    } else if let Some(m) = payload.downcast_ref::<&str>() {
                        m.to_string()
                    } else {
                        String::new()
                    }),
                };
                ops::begin_case("");
                if res_tx.send(r).is_err() {
                    break;
                }
            }
        })
        .expect("spawn worker");
    Worker { jobs, results }
}

fn resolve(x: &S, results: &HashMap<String, S>) -> S {
    match x {
        S::A(a) if a.starts_with('$') => {
            let r = results.get(&a[1..]).unwrap_or_else(|| panic!("harness: unknown ref {}", a));
            // unwrap (S x) / (OK x) wrappers so that optional results can be chained
            match r {
                S::L(v) if v.len() == 2 && (v[0].as_atom() == "S" || v[0].as_atom() == "OK") => v[1].clone(),
                _ => r.clone(),
            }
        }
        S::A(_) => x.clone(),
        S::L(v) => S::L(v.iter().map(|y| resolve(y, results)).collect()),
    }
}
