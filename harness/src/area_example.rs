// Template for an area module: operations of one part of the library.
use crate::ops::*;
use crate::sexp::S;

pub fn run(c: &[S]) -> Option<S> {
    let op = c[0].as_atom();
    let a = &c[1..];
    Some(match op {
        "harness_version" => {
            let _ = a;
            S::atom("1")
        }
        _ => return None,
    })
}
