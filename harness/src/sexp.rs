// Minimal s-expression reader/printer shared by all harness ops.
#[derive(Clone, Debug, PartialEq, Eq)]
pub enum S {
    A(String),
    L(Vec<S>),
}

impl S {
    pub fn atom(s: impl Into<String>) -> S {
        S::A(s.into())
    }
    pub fn int<T: std::fmt::Display>(x: T) -> S {
        S::A(format!("{}", x))
    }
    pub fn boolean(b: bool) -> S {
        S::A(if b { "T" } else { "F" }.to_string())
    }
    pub fn list(tag: &str, mut items: Vec<S>) -> S {
        let mut v = vec![S::atom(tag)];
        v.append(&mut items);
        S::L(v)
    }
    pub fn some(x: S) -> S {
        S::L(vec![S::atom("S"), x])
    }
    pub fn none() -> S {
        S::atom("N")
    }
    pub fn as_atom(&self) -> &str {
        match self {
            S::A(s) => s,
            S::L(_) => panic!("harness: expected atom, got {}", self),
        }
    }
    pub fn as_list(&self) -> &[S] {
        match self {
            S::L(v) => v,
            S::A(_) => panic!("harness: expected list, got {}", self),
        }
    }
    pub fn tag(&self) -> &str {
        match self {
            S::L(v) if !v.is_empty() => v[0].as_atom(),
            S::A(s) => s,
            _ => "",
        }
    }
}

impl std::fmt::Display for S {
    fn fmt(&self, f: &mut std::fmt::Formatter<'_>) -> std::fmt::Result {
        match self {
            S::A(s) => write!(f, "{}", s),
            S::L(v) => {
                write!(f, "(")?;
                for (i, x) in v.iter().enumerate() {
                    if i > 0 {
                        write!(f, " ")?;
                    }
                    write!(f, "{}", x)?;
                }
                write!(f, ")")
            }
        }
    }
}

pub fn parse(src: &str) -> S {
    let bytes = src.as_bytes();
    let mut pos = 0usize;
    let r = parse_at(bytes, &mut pos);
    r
}

fn skip_ws(b: &[u8], pos: &mut usize) {
    while *pos < b.len() && (b[*pos] == b' ' || b[*pos] == b'\t') {
        *pos += 1;
    }
}

fn parse_at(b: &[u8], pos: &mut usize) -> S {
    skip_ws(b, pos);
    if *pos >= b.len() {
        panic!("harness: unexpected end of s-expression");
    }
    if b[*pos] == b'(' {
        *pos += 1;
        let mut items = Vec::new();
        loop {
            skip_ws(b, pos);
            if *pos >= b.len() {
                panic!("harness: unterminated list");
            }
            if b[*pos] == b')' {
                *pos += 1;
                return S::L(items);
            }
            items.push(parse_at(b, pos));
        }
    } else {
        let start = *pos;
        while *pos < b.len() && b[*pos] != b' ' && b[*pos] != b'(' && b[*pos] != b')' && b[*pos] != b'\t' {
            *pos += 1;
        }
        S::A(String::from_utf8(b[start..*pos].to_vec()).unwrap())
    }
}
