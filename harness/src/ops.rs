// Operation dispatch: decode operands, call the library, encode the result.
use crate::sexp::S;
use biodivine_lib_bdd::boolean_expression::BooleanExpression;
use biodivine_lib_bdd::*;
use num_bigint::BigInt;
use std::cmp::Ordering;
use std::hash::{Hash, Hasher};

// ---------------------------------------------------------------- decoders
fn bad(what: &str, x: &S) -> ! {
    panic!("harness: expected {}, got {}", what, x)
}

pub fn d_u64(x: &S) -> u64 {
    match x {
        S::A(a) => a.parse::<u64>().unwrap_or_else(|_| bad("integer", x)),
        _ => bad("integer", x),
    }
}
pub fn d_usize(x: &S) -> usize {
    d_u64(x) as usize
}
pub fn d_u16(x: &S) -> u16 {
    let v = d_u64(x);
    if v > u16::MAX as u64 {
        bad("u16", x)
    }
    v as u16
}
pub fn d_bool(x: &S) -> bool {
    match x.as_atom_opt() {
        Some("T") => true,
        Some("F") => false,
        _ => bad("bool", x),
    }
}
pub fn d_var(x: &S) -> BddVariable {
    BddVariable::from_index(d_u16(x) as usize)
}
pub fn d_optvar(x: &S) -> Option<BddVariable> {
    match x {
        S::A(a) if a == "N" => None,
        S::L(v) if v.len() == 2 && v[0].as_atom() == "S" => Some(d_var(&v[1])),
        _ => bad("optional variable", x),
    }
}
pub fn d_items<'a>(x: &'a S, tag: &str) -> &'a [S] {
    match x {
        S::L(v) if !v.is_empty() && v[0].as_atom_opt() == Some(tag) => &v[1..],
        _ => bad(tag, x),
    }
}
pub fn d_vars(x: &S) -> Vec<BddVariable> {
    d_items(x, "L").iter().map(d_var).collect()
}
pub fn d_lits(x: &S) -> Vec<(BddVariable, bool)> {
    d_items(x, "L")
        .iter()
        .map(|p| {
            let it = d_items(p, "P");
            (d_var(&it[0]), d_bool(&it[1]))
        })
        .collect()
}
thread_local! {
    /// operands decoded in the current case: textually identical operands are handed out as ONE object when sharing is on,
    /// so that `f.and(&f)`-style aliasing (the same reference in two operand positions) is exercised
    static BDD_CACHE: std::cell::RefCell<Vec<(S, std::rc::Rc<Bdd>)>> = std::cell::RefCell::new(Vec::new());
    static SHARE: std::cell::Cell<bool> = std::cell::Cell::new(false);
}
/// called by main before every case: identical operands share one object in three cases out of four
pub fn begin_case(id: &str) {
    BDD_CACHE.with(|c| c.borrow_mut().clear());
    let k: u32 = id.bytes().map(|b| b as u32).sum();
    SHARE.with(|s| s.set(k % 4 != 0));
}
pub fn d_bdd(x: &S) -> std::rc::Rc<Bdd> {
    let share = SHARE.with(|s| s.get());
    if share {
        if let Some(hit) = BDD_CACHE.with(|c| c.borrow().iter().find(|(k, _)| k == x).map(|(_, v)| v.clone())) {
            return hit;
        }
    }
    let b = std::rc::Rc::new(d_bdd_fresh(x));
    if share {
        BDD_CACHE.with(|c| c.borrow_mut().push((x.clone(), b.clone())));
    }
    b
}
pub fn d_bdd_fresh(x: &S) -> Bdd {
    let it = d_items(x, "b");
    if it.len() % 3 != 0 {
        bad("bdd triples", x)
    }
    let mut nodes = Vec::with_capacity(it.len() / 3);
    for c in it.chunks(3) {
        let v = d_u16(&c[0]);
        let l = d_u64(&c[1]);
        let h = d_u64(&c[2]);
        if l > u32::MAX as u64 || h > u32::MAX as u64 {
            bad("u32 link", x)
        }
        nodes.push(BddNode::mk_node(
            BddVariable::from_index(v as usize),
            BddPointer::from_index(l as usize),
            BddPointer::from_index(h as usize),
        ));
    }
    Bdd::verif_from_raw(nodes)
}
pub fn d_nodes(x: &S) -> Vec<BddNode> {
    d_bdd(x).verif_raw_nodes().to_vec()
}
/// operator table: string over "-01"; 9 entries (binary) or 27 (ternary); index 3*i(l)+i(r), i(None)=0,i(false)=1,i(true)=2
pub fn d_table(x: &S, n: usize) -> Vec<Option<bool>> {
    let a = match x {
        S::A(a) => a.strip_prefix("t:").unwrap_or_else(|| bad("table", x)),
        _ => bad("table", x),
    };
    if a.len() != n {
        bad("table length", x)
    }
    a.chars()
        .map(|c| match c {
            '-' => None,
            '0' => Some(false),
            '1' => Some(true),
            _ => bad("table char", x),
        })
        .collect()
}
fn oi(x: Option<bool>) -> usize {
    match x {
        None => 0,
        Some(false) => 1,
        Some(true) => 2,
    }
}
pub fn table2(t: Vec<Option<bool>>) -> impl Fn(Option<bool>, Option<bool>) -> Option<bool> {
    move |l, r| t[3 * oi(l) + oi(r)]
}
pub fn table3(t: Vec<Option<bool>>) -> impl Fn(Option<bool>, Option<bool>, Option<bool>) -> Option<bool> {
    move |a, b, c| t[9 * oi(a) + 3 * oi(b) + oi(c)]
}
/// valuation: "v0110"
pub fn d_bits(x: &S, prefix: char) -> Vec<bool> {
    let a = match x {
        S::A(a) if a.starts_with(prefix) => &a[1..],
        _ => bad("bit string", x),
    };
    a.chars()
        .map(|c| match c {
            '0' => false,
            '1' => true,
            _ => bad("bit", x),
        })
        .collect()
}
pub fn d_valuation(x: &S) -> BddValuation {
    BddValuation::new(d_bits(x, 'v'))
}
/// partial valuation: "p01-1" built cell by cell (no trailing padding beyond what is written)
pub fn d_pv(x: &S) -> BddPartialValuation {
    let a = match x {
        S::A(a) if a.starts_with('p') => &a[1..],
        _ => bad("partial valuation", x),
    };
    // cell by cell, so that unset cells also pad the backing vector ("p--" is an empty valuation of length 2):
    // the written length of the string is the length of the value the library holds
    let mut pv = BddPartialValuation::empty();
    for (i, c) in a.chars().enumerate() {
        match c {
            '0' => pv.set_value(BddVariable::from_index(i), false),
            '1' => pv.set_value(BddVariable::from_index(i), true),
            '-' => pv.unset_value(BddVariable::from_index(i)),
            _ => bad("pv char", x),
        }
    }
    pv
}
pub fn d_pvs(x: &S) -> Vec<BddPartialValuation> {
    d_items(x, "L").iter().map(d_pv).collect()
}
pub fn d_hex(x: &S) -> Vec<u8> {
    let a = match x {
        S::A(a) => a.strip_prefix("h:").unwrap_or_else(|| bad("hex", x)),
        _ => bad("hex", x),
    };
    if a.len() % 2 != 0 {
        bad("hex length", x)
    }
    (0..a.len() / 2)
        .map(|i| u8::from_str_radix(&a[2 * i..2 * i + 2], 16).unwrap_or_else(|_| bad("hex digit", x)))
        .collect()
}
pub fn d_names(x: &S) -> Vec<String> {
    d_items(x, "L")
        .iter()
        .map(|n| String::from_utf8(d_hex(n)).unwrap_or_else(|_| bad("utf8 name", n)))
        .collect()
}

impl S {
    pub fn as_atom_opt(&self) -> Option<&str> {
        match self {
            S::A(a) => Some(a),
            _ => None,
        }
    }
}

// ---------------------------------------------------------------- encoders
pub fn e_bdd(b: &Bdd) -> S {
    let mut v = Vec::with_capacity(1 + 3 * b.size());
    v.push(S::atom("b"));
    for n in b.verif_raw_nodes() {
        v.push(S::int(n.var.to_index()));
        v.push(S::int(n.low_link.to_index()));
        v.push(S::int(n.high_link.to_index()));
    }
    S::L(v)
}
pub fn e_optbdd(b: &Option<Bdd>) -> S {
    match b {
        None => S::none(),
        Some(b) => S::some(e_bdd(b)),
    }
}
pub fn e_valuation(v: &BddValuation) -> S {
    let mut s = String::from("v");
    for b in v.clone().vector() {
        s.push(if b { '1' } else { '0' });
    }
    S::atom(s)
}
/// canonical rendering of a partial valuation: fixed cells only, trailing unset cells dropped
pub fn e_pv(p: &BddPartialValuation) -> S {
    let vals = p.to_values();
    let len = vals.iter().map(|(v, _)| v.to_index() + 1).max().unwrap_or(0);
    let mut cells = vec!['-'; len];
    for (v, b) in vals {
        cells[v.to_index()] = if b { '1' } else { '0' };
    }
    let mut s = String::from("p");
    s.extend(cells);
    S::atom(s)
}
pub fn e_opt<T>(x: &Option<T>, f: impl Fn(&T) -> S) -> S {
    match x {
        None => S::none(),
        Some(v) => S::some(f(v)),
    }
}
pub fn e_big(x: &BigInt) -> S {
    S::atom(x.to_string())
}
pub fn e_hex(bytes: &[u8]) -> S {
    let mut s = String::from("h:");
    for b in bytes {
        s.push_str(&format!("{:02x}", b));
    }
    S::atom(s)
}
pub fn e_ordering(o: Ordering) -> S {
    S::atom(match o {
        Ordering::Less => "LT",
        Ordering::Equal => "EQ",
        Ordering::Greater => "GT",
    })
}
pub fn e_vars(mut v: Vec<BddVariable>) -> S {
    v.sort();
    S::list("L", v.iter().map(|x| S::int(x.to_index())).collect())
}
pub fn e_expr(e: &BooleanExpression) -> S {
    use BooleanExpression::*;
    match e {
        Const(b) => S::list("const", vec![S::boolean(*b)]),
        Variable(n) => S::list("var", vec![e_hex(n.as_bytes())]),
        Not(a) => S::list("not", vec![e_expr(a)]),
        And(a, b) => S::list("and", vec![e_expr(a), e_expr(b)]),
        Or(a, b) => S::list("or", vec![e_expr(a), e_expr(b)]),
        Xor(a, b) => S::list("xor", vec![e_expr(a), e_expr(b)]),
        Imp(a, b) => S::list("imp", vec![e_expr(a), e_expr(b)]),
        Iff(a, b) => S::list("iff", vec![e_expr(a), e_expr(b)]),
        Cond(a, b, c) => S::list("cond", vec![e_expr(a), e_expr(b), e_expr(c)]),
    }
}
pub fn d_expr(x: &S) -> BooleanExpression {
    use BooleanExpression::*;
    let it = x.as_list();
    let bx = |i: usize| Box::new(d_expr(&it[i]));
    match it[0].as_atom() {
        "const" => Const(d_bool(&it[1])),
        "var" => Variable(String::from_utf8(d_hex(&it[1])).unwrap_or_else(|_| bad("utf8 name", x))),
        "not" => Not(bx(1)),
        "and" => And(bx(1), bx(2)),
        "or" => Or(bx(1), bx(2)),
        "xor" => Xor(bx(1), bx(2)),
        "imp" => Imp(bx(1), bx(2)),
        "iff" => Iff(bx(1), bx(2)),
        "cond" => Cond(bx(1), bx(2), bx(3)),
        _ => bad("expression", x),
    }
}

// ---------------------------------------------------------------- scripted RNG
/// gen_bool(0.5) in rand 0.8.5 draws exactly one next_u64 and returns v < 2^63.
/// The script is a bit string; bit 1 => true. Exhausted script => true.
pub struct ScriptRng {
    bits: Vec<bool>,
    pos: usize,
}
impl ScriptRng {
    pub fn new(bits: Vec<bool>) -> ScriptRng {
        ScriptRng { bits, pos: 0 }
    }
}
impl rand::RngCore for ScriptRng {
    fn next_u32(&mut self) -> u32 {
        (self.next_u64() >> 32) as u32
    }
    fn next_u64(&mut self) -> u64 {
        let b = if self.pos < self.bits.len() { self.bits[self.pos] } else { true };
        self.pos += 1;
        if b {
            0
        } else {
            u64::MAX
        }
    }
    fn fill_bytes(&mut self, dest: &mut [u8]) {
        for chunk in dest.chunks_mut(8) {
            let v = self.next_u64().to_le_bytes();
            for (d, s) in chunk.iter_mut().zip(v.iter()) {
                *d = *s;
            }
        }
    }
    fn try_fill_bytes(&mut self, dest: &mut [u8]) -> Result<(), rand::Error> {
        self.fill_bytes(dest);
        Ok(())
    }
}

// ---------------------------------------------------------------- recording hasher
pub struct RecHasher(pub Vec<u8>);
impl Hasher for RecHasher {
    fn finish(&self) -> u64 {
        0
    }
    fn write(&mut self, bytes: &[u8]) {
        self.0.push(0xfe); // call separator
        self.0.extend_from_slice(bytes);
    }
}

fn named_op(name: &str) -> fn(Option<bool>, Option<bool>) -> Option<bool> {
    match name {
        "and" => op_function::and,
        "or" => op_function::or,
        "imp" => op_function::imp,
        "iff" => op_function::iff,
        "xor" => op_function::xor,
        "and_not" => op_function::and_not,
        _ => panic!("harness: unknown operator {}", name),
    }
}

fn dump2(f: impl Fn(Option<bool>, Option<bool>) -> Option<bool>) -> S {
    let o = [None, Some(false), Some(true)];
    let mut s = String::from("t:");
    for l in o {
        for r in o {
            s.push(match f(l, r) {
                None => '-',
                Some(false) => '0',
                Some(true) => '1',
            });
        }
    }
    S::atom(s)
}

fn varset(nv: u16) -> BddVariableSet {
    BddVariableSet::new_anonymous(nv)
}

fn truth_table(b: &Bdd) -> S {
    let nv = b.num_vars() as usize;
    if nv > 16 {
        panic!("harness: truth table too large");
    }
    let mut s = String::from("v");
    for i in 0..(1usize << nv) {
        // variable 0 is the most significant bit
        let vals: Vec<bool> = (0..nv).map(|k| (i >> (nv - 1 - k)) & 1 == 1).collect();
        s.push(if b.eval_in(&BddValuation::new(vals)) { '1' } else { '0' });
    }
    S::atom(s)
}

// ---------------------------------------------------------------- dispatch
pub fn run(c: &[S]) -> S {
    let op = c[0].as_atom();
    let a = &c[1..];
    match op {
        // ---- logic
        "fbin" => {
            let (t, fa, fb, fo, x, y) = (d_table(&a[0], 9), d_optvar(&a[1]), d_optvar(&a[2]), d_optvar(&a[3]), d_bdd(&a[4]), d_bdd(&a[5]));
            e_bdd(&Bdd::fused_binary_flip_op((&x, fa), (&y, fb), fo, table2(t)))
        }
        "bin" => {
            let (t, x, y) = (d_table(&a[0], 9), d_bdd(&a[1]), d_bdd(&a[2]));
            e_bdd(&Bdd::binary_op(&x, &y, table2(t)))
        }
        "named" => {
            let (x, y) = (d_bdd(&a[1]), d_bdd(&a[2]));
            e_bdd(&match a[0].as_atom() {
                "and" => x.and(&y),
                "or" => x.or(&y),
                "imp" => x.imp(&y),
                "iff" => x.iff(&y),
                "xor" => x.xor(&y),
                "and_not" => x.and_not(&y),
                n => panic!("harness: unknown named op {}", n),
            })
        }
        "not" => e_bdd(&d_bdd(&a[0]).not()),
        "ite" => {
            let (x, y, z) = (d_bdd(&a[0]), d_bdd(&a[1]), d_bdd(&a[2]));
            e_bdd(&Bdd::if_then_else(&x, &y, &z))
        }
        "ftern" => {
            let t = d_table(&a[0], 27);
            let (f1, f2, f3, fo) = (d_optvar(&a[1]), d_optvar(&a[2]), d_optvar(&a[3]), d_optvar(&a[4]));
            let (x, y, z) = (d_bdd(&a[5]), d_bdd(&a[6]), d_bdd(&a[7]));
            e_bdd(&Bdd::fused_ternary_flip_op((&x, f1), (&y, f2), (&z, f3), fo, table3(t)))
        }
        "tern" => {
            let t = d_table(&a[0], 27);
            let (x, y, z) = (d_bdd(&a[1]), d_bdd(&a[2]), d_bdd(&a[3]));
            e_bdd(&Bdd::ternary_op(&x, &y, &z, table3(t)))
        }
        "fbinlim" => {
            let lim = d_usize(&a[0]);
            let (t, fa, fb, fo, x, y) = (d_table(&a[1], 9), d_optvar(&a[2]), d_optvar(&a[3]), d_optvar(&a[4]), d_bdd(&a[5]), d_bdd(&a[6]));
            e_optbdd(&Bdd::fused_binary_flip_op_with_limit(lim, (&x, fa), (&y, fb), fo, table2(t)))
        }
        "binlim" => {
            let lim = d_usize(&a[0]);
            let (t, x, y) = (d_table(&a[1], 9), d_bdd(&a[2]), d_bdd(&a[3]));
            e_optbdd(&Bdd::binary_op_with_limit(lim, &x, &y, table2(t)))
        }
        "dry" => {
            let lim = d_usize(&a[0]);
            let (t, fa, fb, fo, x, y) = (d_table(&a[1], 9), d_optvar(&a[2]), d_optvar(&a[3]), d_optvar(&a[4]), d_bdd(&a[5]), d_bdd(&a[6]));
            e_opt(&Bdd::check_fused_binary_flip_op(lim, (&x, fa), (&y, fb), fo, table2(t)), |(f, n)| {
                S::list("P", vec![S::boolean(*f), S::int(*n)])
            })
        }
        "drybin" => {
            let lim = d_usize(&a[0]);
            let (t, x, y) = (d_table(&a[1], 9), d_bdd(&a[2]), d_bdd(&a[3]));
            e_opt(&Bdd::check_binary_op(lim, &x, &y, table2(t)), |(f, n)| S::list("P", vec![S::boolean(*f), S::int(*n)]))
        }
        "optable" => match a[0].as_atom() {
            "ite" => {
                // observed through the public API: if_then_else on constant operands is not a table dump,
                // so the 27 entries are obtained from constants over zero variables
                panic!("harness: ite table is checked by the `ite` op on constants")
            }
            n => dump2(named_op(n)),
        },
        // ---- observation
        "eval" => S::boolean(d_bdd(&a[0]).eval_in(&d_valuation(&a[1]))),
        "tt" => truth_table(&d_bdd(&a[0])),
        "is_true" => S::boolean(d_bdd(&a[0]).is_true()),
        "is_false" => S::boolean(d_bdd(&a[0]).is_false()),
        "size" => S::int(d_bdd(&a[0]).size()),
        "num_vars" => S::int(d_bdd(&a[0]).num_vars()),
        "eq" => S::boolean(d_bdd(&a[0]) == d_bdd(&a[1])),
        "hash" => {
            let mut h = RecHasher(Vec::new());
            d_bdd(&a[0]).hash(&mut h);
            e_hex(&h.0)
        }
        "id" => e_bdd(&d_bdd(&a[0]).clone()),
        // ---- quantification
        "var_exists" => e_bdd(&d_bdd(&a[0]).var_exists(d_var(&a[1]))),
        "var_for_all" => e_bdd(&d_bdd(&a[0]).var_for_all(d_var(&a[1]))),
        "exists" => e_bdd(&d_bdd(&a[0]).exists(&d_vars(&a[1]))),
        "for_all" => e_bdd(&d_bdd(&a[0]).for_all(&d_vars(&a[1]))),
        "bin_exists" => {
            let (t, x, y, vs) = (d_table(&a[0], 9), d_bdd(&a[1]), d_bdd(&a[2]), d_vars(&a[3]));
            e_bdd(&Bdd::binary_op_with_exists(&x, &y, table2(t), &vs))
        }
        "bin_for_all" => {
            let (t, x, y, vs) = (d_table(&a[0], 9), d_bdd(&a[1]), d_bdd(&a[2]), d_vars(&a[3]));
            e_bdd(&Bdd::binary_op_with_for_all(&x, &y, table2(t), &vs))
        }
        "nested" => {
            // (nested outer inner A B trig)  trig = "v0101.." one bit per variable; variables beyond the string are not triggered
            let (to, ti, x, y, trig) = (d_table(&a[0], 9), d_table(&a[1], 9), d_bdd(&a[2]), d_bdd(&a[3]), d_bits(&a[4], 'v'));
            let trigger = move |v: BddVariable| trig.get(v.to_index()).copied().unwrap_or(false);
            e_bdd(&Bdd::binary_op_nested(&x, &y, trigger, table2(to), table2(ti)))
        }
        // ---- relations
        "var_select" => e_bdd(&d_bdd(&a[0]).var_select(d_var(&a[1]), d_bool(&a[2]))),
        "select" => e_bdd(&d_bdd(&a[0]).select(&d_lits(&a[1]))),
        "var_restrict" => e_bdd(&d_bdd(&a[0]).var_restrict(d_var(&a[1]), d_bool(&a[2]))),
        "restrict" => e_bdd(&d_bdd(&a[0]).restrict(&d_lits(&a[1]))),
        "var_pick" => e_bdd(&d_bdd(&a[0]).var_pick(d_var(&a[1]))),
        "var_pick_random" => {
            let mut rng = ScriptRng::new(d_bits(&a[2], 'v'));
            e_bdd(&d_bdd(&a[0]).var_pick_random(d_var(&a[1]), &mut rng))
        }
        "pick" => e_bdd(&d_bdd(&a[0]).pick(&d_vars(&a[1]))),
        "pick_random" => {
            let mut rng = ScriptRng::new(d_bits(&a[2], 'v'));
            e_bdd(&d_bdd(&a[0]).pick_random(&d_vars(&a[1]), &mut rng))
        }
        "substitute" => e_bdd(&d_bdd(&a[0]).substitute(d_var(&a[1]), &d_bdd(&a[2]))),
        // ---- constructors
        "mk_true" => e_bdd(&varset(d_u16(&a[0])).mk_true()),
        "mk_false" => e_bdd(&varset(d_u16(&a[0])).mk_false()),
        "mk_var" => e_bdd(&varset(d_u16(&a[0])).mk_var(d_var(&a[1]))),
        "mk_not_var" => e_bdd(&varset(d_u16(&a[0])).mk_not_var(d_var(&a[1]))),
        "mk_literal" => e_bdd(&varset(d_u16(&a[0])).mk_literal(d_var(&a[1]), d_bool(&a[2]))),
        "mk_cc" => e_bdd(&varset(d_u16(&a[0])).mk_conjunctive_clause(&d_pv(&a[1]))),
        "mk_dc" => e_bdd(&varset(d_u16(&a[0])).mk_disjunctive_clause(&d_pv(&a[1]))),
        "mk_dnf" => e_bdd(&varset(d_u16(&a[0])).mk_dnf(&d_pvs(&a[1]))),
        "mk_cnf" => e_bdd(&varset(d_u16(&a[0])).mk_cnf(&d_pvs(&a[1]))),
        "mk_sat_exactly" => e_bdd(&varset(d_u16(&a[0])).mk_sat_exactly_k(d_usize(&a[1]), &d_vars(&a[2]))),
        "mk_sat_upto" => e_bdd(&varset(d_u16(&a[0])).mk_sat_up_to_k(d_usize(&a[1]), &d_vars(&a[2]))),
        "of_valuation" => e_bdd(&Bdd::from(d_valuation(&a[0]))),
        // ---- counting
        "exact_card" => e_big(&d_bdd(&a[0]).exact_cardinality()),
        "clause_card" => e_big(&d_bdd(&a[0]).exact_clause_cardinality()),
        "card" => S::atom(format!("f:{:016x}", d_bdd(&a[0]).cardinality().to_bits())),
        "support" => e_vars(d_bdd(&a[0]).support_set().into_iter().collect()),
        "size_per_var" => {
            let mut m: Vec<(BddVariable, usize)> = d_bdd(&a[0]).size_per_variable().into_iter().collect();
            m.sort();
            S::list("L", m.iter().map(|(v, n)| S::list("P", vec![S::int(v.to_index()), S::int(*n)])).collect())
        }
        // ---- extraction / enumeration
        "to_dnf" => S::list("L", d_bdd(&a[0]).to_dnf().iter().map(e_pv).collect()),
        "to_cnf" => S::list("L", d_bdd(&a[0]).to_cnf().iter().map(e_pv).collect()),
        "to_opt_dnf" => S::list("L", d_bdd(&a[0]).to_optimized_dnf().iter().map(e_pv).collect()),
        "sat_clauses" => S::list("L", d_bdd(&a[0]).sat_clauses().map(|p| e_pv(&p)).collect()),
        "into_sat_clauses" => S::list("L", d_bdd_fresh(&a[0]).into_sat_clauses().map(|p| e_pv(&p)).collect()),
        "sat_valuations" => S::list("L", d_bdd(&a[0]).sat_valuations().map(|p| e_valuation(&p)).collect()),
        "into_sat_valuations" => S::list("L", d_bdd_fresh(&a[0]).into_sat_valuations().map(|p| e_valuation(&p)).collect()),
        "clause_valuations" => {
            let it = ValuationsOfClauseIterator::new(d_pv(&a[0]), d_u16(&a[1]));
            S::list("L", it.map(|p| e_valuation(&p)).collect())
        }
        "owned_back" => {
            // take k steps of each owned iterator and give the Bdd back
            let k = d_usize(&a[1]);
            let b = d_bdd_fresh(&a[0]);
            let mut it = b.clone().into_sat_valuations();
            for _ in 0..k {
                it.next();
            }
            let b1: Bdd = it.into();
            let mut it2 = b.into_sat_clauses();
            for _ in 0..k {
                it2.next();
            }
            let b2: Bdd = it2.into();
            S::list("P", vec![e_bdd(&b1), e_bdd(&b2)])
        }
        // ---- selectors
        "sat_witness" => e_opt(&d_bdd(&a[0]).sat_witness(), e_valuation),
        "first_valuation" => e_opt(&d_bdd(&a[0]).first_valuation(), e_valuation),
        "last_valuation" => e_opt(&d_bdd(&a[0]).last_valuation(), e_valuation),
        "most_positive_valuation" => e_opt(&d_bdd(&a[0]).most_positive_valuation(), e_valuation),
        "most_negative_valuation" => e_opt(&d_bdd(&a[0]).most_negative_valuation(), e_valuation),
        "first_clause" => e_opt(&d_bdd(&a[0]).first_clause(), e_pv),
        "last_clause" => e_opt(&d_bdd(&a[0]).last_clause(), e_pv),
        "most_fixed_clause" => e_opt(&d_bdd(&a[0]).most_fixed_clause(), e_pv),
        "most_free_clause" => e_opt(&d_bdd(&a[0]).most_free_clause(), e_pv),
        "necessary_clause" => e_opt(&d_bdd(&a[0]).necessary_clause(), e_pv),
        "random_valuation" => {
            let mut rng = ScriptRng::new(d_bits(&a[1], 'v'));
            e_opt(&d_bdd(&a[0]).random_valuation(&mut rng), e_valuation)
        }
        "random_clause" => {
            let mut rng = ScriptRng::new(d_bits(&a[1], 'v'));
            e_opt(&d_bdd(&a[0]).random_clause(&mut rng), e_pv)
        }
        "is_clause" => S::boolean(d_bdd(&a[0]).is_clause()),
        "is_valuation" => S::boolean(d_bdd(&a[0]).is_valuation()),
        // ---- comparators
        "cmp_size" => e_ordering(Bdd::cmp_size(&d_bdd(&a[0]), &d_bdd(&a[1]))),
        "cmp_cardinality" => e_ordering(Bdd::cmp_cardinality(&d_bdd(&a[0]), &d_bdd(&a[1]))),
        "cmp_cardinality_strict" => e_opt(&Bdd::cmp_cardinality_strict(&d_bdd(&a[0]), &d_bdd(&a[1])), |o| e_ordering(*o)),
        "cmp_implies" => e_opt(&Bdd::cmp_implies(&d_bdd(&a[0]), &d_bdd(&a[1])), |o| e_ordering(*o)),
        "cmp_structural" => e_ordering(Bdd::cmp_structural(&d_bdd(&a[0]), &d_bdd(&a[1]))),
        // ---- node lists / validation
        "from_nodes" => match Bdd::from_nodes(&d_nodes(&a[0])) {
            Ok(b) => S::list("OK", vec![e_bdd(&b)]),
            Err(_) => S::atom("ERR"),
        },
        "to_nodes" => {
            let nodes = d_bdd_fresh(&a[0]).to_nodes();
            e_bdd(&Bdd::verif_from_raw(nodes))
        }
        "validate" => match d_bdd(&a[0]).validate() {
            Ok(()) => S::atom("OK"),
            Err(_) => S::atom("ERR"),
        },
        // ---- renaming
        "rename_var" => {
            let mut b = d_bdd_fresh(&a[0]);
            unsafe { b.rename_variable(d_var(&a[1]), d_var(&a[2])) };
            e_bdd(&b)
        }
        "rename_vars" => {
            let mut b = d_bdd_fresh(&a[0]);
            let map: std::collections::HashMap<BddVariable, BddVariable> = d_items(&a[1], "L")
                .iter()
                .map(|p| {
                    let it = d_items(p, "P");
                    (d_var(&it[0]), d_var(&it[1]))
                })
                .collect();
            unsafe { b.rename_variables(&map) };
            e_bdd(&b)
        }
        "set_num_vars" => {
            let mut b = d_bdd_fresh(&a[0]);
            unsafe { b.set_num_vars(d_u16(&a[1])) };
            e_bdd(&b)
        }
        "transfer" => {
            // (transfer A names_from names_to)
            let from = BddVariableSet::from(d_names(&a[1]));
            let to = BddVariableSet::from(d_names(&a[2]));
            e_optbdd(&to.transfer_from(&d_bdd(&a[0]), &from))
        }
        // ---- expressions
        "parse" => {
            let text = String::from_utf8(d_hex(&a[0])).unwrap_or_else(|_| bad("utf8", &a[0]));
            match BooleanExpression::try_from(text.as_str()) {
                Ok(e) => S::list("OK", vec![e_expr(&e)]),
                Err(_) => S::atom("ERR"),
            }
        }
        "show" => e_hex(format!("{}", d_expr(&a[0])).as_bytes()),
        "eval_expr" => {
            let vs = BddVariableSet::from(d_names(&a[0]));
            e_bdd(&vs.eval_expression(&d_expr(&a[1])))
        }
        "safe_eval_expr" => {
            let vs = BddVariableSet::from(d_names(&a[0]));
            e_optbdd(&vs.safe_eval_expression(&d_expr(&a[1])))
        }
        "to_expr" => {
            let vs = BddVariableSet::from(d_names(&a[1]));
            e_expr(&d_bdd(&a[0]).to_boolean_expression(&vs))
        }
        // ---- text / bytes (plain, unscheduled)
        "to_string" => e_hex(d_bdd(&a[0]).to_string().as_bytes()),
        "to_bytes" => e_hex(&d_bdd(&a[0]).to_bytes()),
        "read_string" => {
            let data = d_hex(&a[0]);
            match Bdd::read_as_string(&mut data.as_slice()) {
                Ok(b) => S::list("OK", vec![e_bdd(&b)]),
                Err(_) => S::atom("ERR"),
            }
        }
        "read_bytes" => {
            let data = d_hex(&a[0]);
            match Bdd::read_as_bytes(&mut data.as_slice()) {
                Ok(b) => S::list("OK", vec![e_bdd(&b)]),
                Err(_) => S::atom("ERR"),
            }
        }
        "dot" => {
            let vs = BddVariableSet::from(d_names(&a[1]));
            e_hex(d_bdd(&a[0]).to_dot_string(&vs, d_bool(&a[2])).as_bytes())
        }
        _ => match crate::areas::run_areas(c) {
            Some(r) => r,
            None => panic!("harness: unknown op {}", op),
        },
    }
}
