// Thin public entry points (model: coq/Model/Alias.v): deprecated aliases, the panicking forms of the readers,
// eval_expression_string, _to_optimized_dnf with an interrupt that never fires, and histories over BddValuation.
//   (project A (L x ...))  (var_project A x)  (from_string h:..)  (from_bytes h:..)
//   (eval_expr_string (L name ...) h:text)  (to_opt_dnf_int A)
//   (val_hist start (L op ...) x)   start: (AF n) all_false | (AT n) all_true | (N v0110) new
//                                   op: (S x) set | (C x) clear | (F x) flip_value | (V x c) set_value | (I x c) v[x] = c
//       -> (P vector value-at-x num_vars); value via `value()` and via Index must agree (else harness panic = PANIC)
#![allow(deprecated)]
use crate::ops::*;
use crate::sexp::S;
use biodivine_lib_bdd::*;

pub fn run(c: &[S]) -> Option<S> {
    let op = c[0].as_atom();
    let a = &c[1..];
    Some(match op {
        "project" => e_bdd(&d_bdd(&a[0]).project(&d_vars(&a[1]))),
        "var_project" => e_bdd(&d_bdd(&a[0]).var_project(d_var(&a[1]))),
        "from_string" => {
            let text = String::from_utf8(d_hex(&a[0])).unwrap_or_else(|_| panic!("harness: utf8"));
            e_bdd(&Bdd::from_string(&text))
        }
        "from_bytes" => {
            let data = d_hex(&a[0]);
            e_bdd(&Bdd::from_bytes(&mut data.as_slice()))
        }
        "eval_expr_string" => {
            let vs = BddVariableSet::from(d_names(&a[0]));
            let text = String::from_utf8(d_hex(&a[1])).unwrap_or_else(|_| panic!("harness: utf8"));
            e_bdd(&vs.eval_expression_string(&text))
        }
        "to_opt_dnf_int" => {
            let calls = std::cell::Cell::new(0usize);
            let r: Result<Vec<BddPartialValuation>, ()> = d_bdd(&a[0])._to_optimized_dnf(&|_dnf: &[BddPartialValuation]| {
                calls.set(calls.get() + 1);
                Ok(())
            });
            match r {
                Ok(l) => S::list("L", l.iter().map(e_pv).collect()),
                Err(()) => S::atom("ERR"),
            }
        }
        // variable_name_assignment(): the pairs (variable, name) sorted by variable
        "vs_assignment" => {
            let vs = crate::areas::area_varset::d_set(&a[0]);
            let mut m: Vec<(BddVariable, String)> = vs.variable_name_assignment().into_iter().collect();
            m.sort();
            S::list("L", m.iter().map(|(v, n)| S::list("P", vec![S::int(v.to_index()), e_hex(n.as_bytes())])).collect())
        }
        // BddVariableSetBuilder::make::<3>: the array form of make_variables
        "vs_make3" => {
            let names = d_names(&a[0]);
            if names.len() != 3 {
                panic!("harness: vs_make3 needs three names");
            }
            let mut builder = BddVariableSetBuilder::new();
            let [x, y, z] = builder.make(&[names[0].as_str(), names[1].as_str(), names[2].as_str()]);
            let vs = builder.build();
            S::list(
                "P",
                vec![
                    S::list("L", vec![S::int(x.to_index()), S::int(y.to_index()), S::int(z.to_index())]),
                    S::list("L", vs.variable_names().iter().map(|s| e_hex(s.as_bytes())).collect()),
                ],
            )
        }
        // (after_panic k table A B (op arg ...)): binary_op(A, B, closure) whose closure panics at its (k+1)-th call, caught here;
        // then the inner operation is executed on the same thread and ITS result is the answer (state left behind by the
        // unwound call must not leak into later operations)
        "after_panic" => {
            let k = d_usize(&a[0]);
            let f = table2(d_table(&a[1], 9));
            let (x, y) = (d_bdd(&a[2]), d_bdd(&a[3]));
            let calls = std::cell::Cell::new(0usize);
            let _ = std::panic::catch_unwind(std::panic::AssertUnwindSafe(|| {
                Bdd::binary_op(&x, &y, |l, r| {
                    calls.set(calls.get() + 1);
                    if calls.get() > k {
                        panic!("scripted operator panic");
                    }
                    f(l, r)
                })
            }));
            crate::ops::run(a[4].as_list())
        }
        // (nested_re outer inner A B trigger-bits SIDE): binary_op_nested whose trigger closure itself runs a quantification (on SIDE)
        // before answering from the bit vector: re-entrant use of the nested apply on one thread
        "nested_re" => {
            let (to, ti) = (table2(d_table(&a[0], 9)), table2(d_table(&a[1], 9)));
            let (x, y, side) = (d_bdd(&a[2]), d_bdd(&a[3]), d_bdd(&a[5]));
            let trig = d_bits(&a[4], 'v');
            let trigger = |v: BddVariable| {
                let _probe = side.exists(&[v]);
                let _probe2 = side.var_for_all(v);
                trig.get(v.to_index()).copied().unwrap_or(false)
            };
            e_bdd(&Bdd::binary_op_nested(&x, &y, trigger, to, ti))
        }
        "val_hist" => {
            let st = a[0].as_list();
            let mut v = match st[0].as_atom() {
                "AF" => BddValuation::all_false(d_u16(&st[1])),
                "AT" => BddValuation::all_true(d_u16(&st[1])),
                "N" => BddValuation::new(d_bits(&st[1], 'v')),
                other => panic!("harness: bad valuation start {}", other),
            };
            for o in d_items(&a[1], "L") {
                let o = o.as_list();
                let x = d_var(&o[1]);
                match o[0].as_atom() {
                    "S" => v.set(x),
                    "C" => v.clear(x),
                    "F" => v.flip_value(x),
                    "V" => v.set_value(x, d_bool(&o[2])),
                    "I" => v[x] = d_bool(&o[2]),
                    other => panic!("harness: bad valuation op {}", other),
                }
            }
            let x = d_var(&a[2]);
            let val = match std::panic::catch_unwind(std::panic::AssertUnwindSafe(|| (v.value(x), v[x]))) {
                Ok((p, q)) => {
                    if p != q {
                        // value() and Index disagree: not a harness problem, a library one
                        panic!("value() and Index disagree");
                    }
                    S::boolean(p)
                }
                Err(_) => S::atom("PANIC"),
            };
            let n = v.num_vars();
            S::list("P", vec![e_valuation(&v), val, S::int(n as usize)])
        }
        _ => return None,
    })
}
