// C19 — purity, determinism, concurrency.
// (par <threads> <nv> (L pool-bdd ...) (L (opname arg ...) ...))
//   pool operands are referenced inside the op list as @k; every thread executes the whole op list
//   (in a thread-specific rotation) over Arc-shared operands and an Arc-shared variable set; the op
//   list is also executed sequentially three times. Result:
//   (R (L sequential-results...) same_repeats same_threads pool_unchanged first_divergence)
#![allow(unused_imports, dead_code)]
use crate::ops::*;
use crate::sexp::S;
use biodivine_lib_bdd::*;
use std::sync::Arc;

// compile-time: the value types are Send + Sync (feature `sendsync`, built by the C19 check)
#[cfg(feature = "sendsync")]
fn _assert_send_sync<T: Send + Sync>() {}
#[cfg(feature = "sendsync")]
#[allow(dead_code)]
fn _static_assertions() {
    _assert_send_sync::<Bdd>();
    _assert_send_sync::<BddVariableSet>();
    _assert_send_sync::<BddVariableSetBuilder>();
    _assert_send_sync::<BddValuation>();
    _assert_send_sync::<BddPartialValuation>();
    _assert_send_sync::<BddVariable>();
    _assert_send_sync::<BddNode>();
    _assert_send_sync::<BddPointer>();
    _assert_send_sync::<ValuationsOfClauseIterator>();
    _assert_send_sync::<OwnedBddSatisfyingValuations>();
    _assert_send_sync::<OwnedBddPathIterator>();
    _assert_send_sync::<boolean_expression::BooleanExpression>();
}

fn pool_ref<'a>(pool: &'a [Bdd], x: &S) -> &'a Bdd {
    let a = x.as_atom();
    if !a.starts_with('@') {
        panic!("harness: expected pool reference, got {}", x)
    }
    let k: usize = a[1..].parse().unwrap_or_else(|_| panic!("harness: bad pool reference {}", x));
    pool.get(k).unwrap_or_else(|| panic!("harness: pool index out of range {}", x))
}

/// one operation over shared references; the result is rendered canonically (sets sorted, sequences in order)
fn exec(pool: &[Bdd], vars: &BddVariableSet, c: &[S]) -> S {
    let op = c[0].as_atom();
    let a = &c[1..];
    let p = |i: usize| pool_ref(pool, &a[i]);
    match op {
        "and" => e_bdd(&p(0).and(p(1))),
        "or" => e_bdd(&p(0).or(p(1))),
        "xor" => e_bdd(&p(0).xor(p(1))),
        "imp" => e_bdd(&p(0).imp(p(1))),
        "iff" => e_bdd(&p(0).iff(p(1))),
        "and_not" => e_bdd(&p(0).and_not(p(1))),
        "not" => e_bdd(&p(0).not()),
        "ite" => e_bdd(&Bdd::if_then_else(p(0), p(1), p(2))),
        "fbin" => {
            let t = d_table(&a[0], 9);
            e_bdd(&Bdd::fused_binary_flip_op((p(4), d_optvar(&a[1])), (p(5), d_optvar(&a[2])), d_optvar(&a[3]), table2(t)))
        }
        "binlim" => e_optbdd(&Bdd::binary_op_with_limit(d_usize(&a[0]), p(2), p(3), table2(d_table(&a[1], 9)))),
        "drybin" => e_opt(&Bdd::check_binary_op(d_usize(&a[0]), p(2), p(3), table2(d_table(&a[1], 9))), |(f, n)| {
            S::list("P", vec![S::boolean(*f), S::int(*n)])
        }),
        "exists" => e_bdd(&p(0).exists(&d_vars(&a[1]))),
        "for_all" => e_bdd(&p(0).for_all(&d_vars(&a[1]))),
        "bin_exists" => e_bdd(&Bdd::binary_op_with_exists(p(1), p(2), table2(d_table(&a[0], 9)), &d_vars(&a[3]))),
        "nested" => {
            let trig = d_bits(&a[4], 'v');
            let trigger = move |v: BddVariable| trig.get(v.to_index()).copied().unwrap_or(false);
            e_bdd(&Bdd::binary_op_nested(p(2), p(3), trigger, table2(d_table(&a[0], 9)), table2(d_table(&a[1], 9))))
        }
        "select" => e_bdd(&p(0).select(&d_lits(&a[1]))),
        "restrict" => e_bdd(&p(0).restrict(&d_lits(&a[1]))),
        "pick" => e_bdd(&p(0).pick(&d_vars(&a[1]))),
        "pick_random" => {
            let mut rng = ScriptRng::new(d_bits(&a[2], 'v'));
            e_bdd(&p(0).pick_random(&d_vars(&a[1]), &mut rng))
        }
        "substitute" => e_bdd(&p(0).substitute(d_var(&a[1]), p(2))),
        "to_dnf" => S::list("L", p(0).to_dnf().iter().map(e_pv).collect()),
        "to_cnf" => S::list("L", p(0).to_cnf().iter().map(e_pv).collect()),
        "to_opt_dnf" => S::list("L", p(0).to_optimized_dnf().iter().map(e_pv).collect()),
        "sat_valuations" => S::list("L", p(0).sat_valuations().map(|v| e_valuation(&v)).collect()),
        "sat_clauses" => S::list("L", p(0).sat_clauses().map(|v| e_pv(&v)).collect()),
        "exact_card" => e_big(&p(0).exact_cardinality()),
        "card" => S::atom(format!("f:{:016x}", p(0).cardinality().to_bits())),
        "support" => e_vars(p(0).support_set().into_iter().collect()),
        "size_per_var" => {
            let mut m: Vec<(BddVariable, usize)> = p(0).size_per_variable().into_iter().collect();
            m.sort();
            S::list("L", m.iter().map(|(v, n)| S::list("P", vec![S::int(v.to_index()), S::int(*n)])).collect())
        }
        "necessary_clause" => e_opt(&p(0).necessary_clause(), e_pv),
        "most_positive_valuation" => e_opt(&p(0).most_positive_valuation(), e_valuation),
        "most_free_clause" => e_opt(&p(0).most_free_clause(), e_pv),
        "first_valuation" => e_opt(&p(0).first_valuation(), e_valuation),
        "to_string" => e_hex(p(0).to_string().as_bytes()),
        "to_bytes" => e_hex(&p(0).to_bytes()),
        "to_expr" => e_expr(&p(0).to_boolean_expression(vars)),
        "eval_expr" => e_bdd(&vars.eval_expression(&d_expr(&a[0]))),
        "transfer" => {
            let to = BddVariableSet::from(d_names(&a[1]));
            e_optbdd(&to.transfer_from(p(0), vars))
        }
        "mk_dnf" => e_bdd(&vars.mk_dnf(&d_pvs(&a[0]))),
        "mk_cnf" => e_bdd(&vars.mk_cnf(&d_pvs(&a[0]))),
        "mk_sat_exactly" => e_bdd(&vars.mk_sat_exactly_k(d_usize(&a[0]), &d_vars(&a[1]))),
        "var_by_name" => e_opt(&vars.var_by_name(&String::from_utf8(d_hex(&a[0])).unwrap_or_default()), |v| S::int(v.to_index())),
        "cmp_implies" => e_opt(&Bdd::cmp_implies(p(0), p(1)), |o| e_ordering(*o)),
        "dot" => e_hex(p(0).to_dot_string(vars, d_bool(&a[1])).as_bytes()),
        _ => panic!("harness: unknown concurrent op {}", op),
    }
}

fn guarded(pool: &[Bdd], vars: &BddVariableSet, c: &S) -> S {
    let items = c.as_list();
    match std::panic::catch_unwind(std::panic::AssertUnwindSafe(|| exec(pool, vars, items))) {
        Ok(v) => v,
        Err(payload) => {
            let msg = payload.downcast_ref::<String>().cloned().or_else(|| payload.downcast_ref::<&str>().map(|m| m.to_string())).unwrap_or_default();
            if msg.starts_with("harness:") {
                panic!("{}", msg)
            }
            S::atom("PANIC")
        }
    }
}

#[cfg(not(feature = "conc"))]
pub fn run(_c: &[S]) -> Option<S> {
    None
}

#[cfg(feature = "conc")]
pub fn run(c: &[S]) -> Option<S> {
    let op = c[0].as_atom();
    let a = &c[1..];
    Some(match op {
        "par" => {
            let threads = d_usize(&a[0]);
            let nv = d_u16(&a[1]);
            let pool: Vec<Bdd> = d_items(&a[2], "L").iter().map(d_bdd_fresh).collect();
            let before: Vec<Vec<u8>> = pool.iter().map(|b| b.to_bytes()).collect();
            let before_raw: Vec<S> = pool.iter().map(e_bdd).collect();
            let ops: Vec<S> = d_items(&a[3], "L").to_vec();
            let vars = BddVariableSet::new_anonymous(nv);
            let pool = Arc::new(pool);
            let vars = Arc::new(vars);
            let ops = Arc::new(ops);
            // sequential, three times
            let seq: Vec<Vec<S>> = (0..3).map(|_| ops.iter().map(|o| guarded(&pool, &vars, o)).collect()).collect();
            let mut first_div = S::none();
            let mut same_repeats = true;
            for r in 1..3 {
                for (i, (x, y)) in seq[0].iter().zip(seq[r].iter()).enumerate() {
                    if x != y && same_repeats {
                        same_repeats = false;
                        first_div = S::some(S::list("repeat", vec![S::int(i), x.clone(), y.clone()]));
                    }
                }
            }
            // concurrent: every thread runs the whole list, rotated by its index
            let mut handles = Vec::new();
            for t in 0..threads {
                let (pool, vars, ops) = (Arc::clone(&pool), Arc::clone(&vars), Arc::clone(&ops));
                handles.push(std::thread::spawn(move || {
                    let n = ops.len();
                    let mut out: Vec<(usize, S)> = Vec::with_capacity(n);
                    for k in 0..n {
                        let i = (k * (2 * t + 1) + t) % n.max(1);
                        // (2t+1) may share a factor with n: fall back to a plain rotation then
                        let i = if gcd(2 * t + 1, n.max(1)) == 1 { i } else { (k + t) % n.max(1) };
                        out.push((i, guarded(&pool, &vars, &ops[i])));
                    }
                    out
                }));
            }
            let mut same_threads = true;
            for h in handles {
                let res = h.join().unwrap_or_else(|_| panic!("harness: worker thread died"));
                for (i, r) in res {
                    if r != seq[0][i] && same_threads {
                        same_threads = false;
                        if first_div == S::none() {
                            first_div = S::some(S::list("thread", vec![S::int(i), seq[0][i].clone(), r]));
                        }
                    }
                }
            }
            let after: Vec<Vec<u8>> = pool.iter().map(|b| b.to_bytes()).collect();
            let after_raw: Vec<S> = pool.iter().map(e_bdd).collect();
            let unchanged = before == after && before_raw == after_raw;
            S::list(
                "R",
                vec![S::list("L", seq[0].clone()), S::boolean(same_repeats), S::boolean(same_threads), S::boolean(unchanged), first_div],
            )
        }
        _ => return None,
    })
}

fn gcd(a: usize, b: usize) -> usize {
    if b == 0 {
        a
    } else {
        gcd(b, a % b)
    }
}
