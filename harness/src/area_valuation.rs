// Valuation types (C18): partial valuations are passed as *histories* so that the padding produced by
// the library's own set/unset operations is what gets compared/hashed, never a re-encoded value.
//
//   history  (H start op ...)    start:  E                      BddPartialValuation::empty()
//                                        D                      BddPartialValuation::default()
//                                        (V v0110)              BddPartialValuation::from(BddValuation)
//                                        (F (L (P x c) ...))    BddPartialValuation::from_values
//                                op:     (S x c)                set_value
//                                        (U x)                  unset_value
//                                        (I x N) / (I x (S c))  pv[x] = None / Some(c)   (IndexMut)
use crate::ops::*;
use crate::sexp::S;
use biodivine_lib_bdd::*;
use std::convert::TryFrom;
use std::hash::Hash;

fn d_optbool(x: &S) -> Option<bool> {
    match x {
        S::A(a) if a == "N" => None,
        S::L(v) if v.len() == 2 && v[0].as_atom() == "S" => Some(d_bool(&v[1])),
        _ => panic!("harness: expected optional bool, got {}", x),
    }
}

pub fn d_hist(x: &S) -> BddPartialValuation {
    let it = d_items(x, "H");
    if it.is_empty() {
        panic!("harness: empty history {}", x);
    }
    let mut pv = match &it[0] {
        S::A(a) if a == "E" => BddPartialValuation::empty(),
        S::A(a) if a == "D" => BddPartialValuation::default(),
        S::L(v) if v.len() == 2 && v[0].as_atom() == "V" => BddPartialValuation::from(d_valuation(&v[1])),
        S::L(v) if v.len() == 2 && v[0].as_atom() == "F" => BddPartialValuation::from_values(&d_lits(&v[1])),
        other => panic!("harness: bad history start {}", other),
    };
    for op in &it[1..] {
        let o = op.as_list();
        match o[0].as_atom() {
            "S" => pv.set_value(d_var(&o[1]), d_bool(&o[2])),
            "U" => pv.unset_value(d_var(&o[1])),
            "I" => pv[d_var(&o[1])] = d_optbool(&o[2]),
            other => panic!("harness: bad history op {}", other),
        }
    }
    pv
}

fn e_lits(v: &[(BddVariable, bool)]) -> S {
    S::list(
        "L",
        v.iter()
            .map(|(x, c)| S::list("P", vec![S::int(x.to_index()), S::boolean(*c)]))
            .collect(),
    )
}

fn e_optbool(x: Option<bool>) -> S {
    match x {
        None => S::none(),
        Some(c) => S::some(S::boolean(c)),
    }
}

/// the stored vector as the derived Debug prints it: "p01--" including padding (auxiliary information only)
fn raw_cells(pv: &BddPartialValuation) -> S {
    let d = format!("{:?}", pv);
    let mut s = String::from("p");
    let mut rest = d.as_str();
    loop {
        let n = rest.find("None");
        let t = rest.find("Some(true)");
        let f = rest.find("Some(false)");
        let best = [(n, '-', 4usize), (t, '1', 10), (f, '0', 11)]
            .iter()
            .filter_map(|(p, c, l)| p.map(|p| (p, *c, *l)))
            .min();
        match best {
            None => break,
            Some((p, c, l)) => {
                s.push(c);
                rest = &rest[p + l..];
            }
        }
    }
    S::atom(s)
}

pub fn run(c: &[S]) -> Option<S> {
    let op = c[0].as_atom();
    let a = &c[1..];
    Some(match op {
        // ---- equality / hash / extends on histories
        "pv_eq" => S::boolean(d_hist(&a[0]) == d_hist(&a[1])),
        "pv_ne" => S::boolean(d_hist(&a[0]) != d_hist(&a[1])),
        "pv_hash" => {
            let mut h = RecHasher(Vec::new());
            d_hist(&a[0]).hash(&mut h);
            e_hex(&h.0)
        }
        "pv_extends" => S::boolean(d_hist(&a[0]).extends(&d_hist(&a[1]))),
        "val_extends" => S::boolean(d_valuation(&a[0]).extends(&d_hist(&a[1]))),
        // ---- observers
        "pv_get" => e_optbool(d_hist(&a[0]).get_value(d_var(&a[1]))),
        "pv_index" => e_optbool(d_hist(&a[0])[d_var(&a[1])]),
        "pv_has" => S::boolean(d_hist(&a[0]).has_value(d_var(&a[1]))),
        "pv_to_values" => e_lits(&d_hist(&a[0]).to_values()),
        "pv_card" => S::int(d_hist(&a[0]).cardinality()),
        "pv_last" => e_opt(&d_hist(&a[0]).last_fixed_variable(), |v| S::int(v.to_index())),
        "pv_is_empty" => S::boolean(d_hist(&a[0]).is_empty()),
        "pv_raw" => raw_cells(&d_hist(&a[0])),
        // ---- conversions
        "pv_to_val" => match BddValuation::try_from(d_hist(&a[0])) {
            Ok(v) => S::list("OK", vec![e_valuation(&v)]),
            Err(()) => S::atom("ERR"),
        },
        "val_to_pv" => e_lits(&BddPartialValuation::from(d_valuation(&a[0])).to_values()),
        "val_to_values" => e_lits(&d_valuation(&a[0]).to_values()),
        // BddValuation -> BddPartialValuation -> BddValuation
        "val_pv_val" => match BddValuation::try_from(BddPartialValuation::from(d_valuation(&a[0]))) {
            Ok(v) => S::list("OK", vec![e_valuation(&v)]),
            Err(()) => S::atom("ERR"),
        },
        // BddPartialValuation -> BddValuation -> BddPartialValuation, compared with the library's ==
        "pv_val_pv" => {
            let p = d_hist(&a[0]);
            match BddValuation::try_from(p.clone()) {
                Ok(v) => {
                    let q = BddPartialValuation::from(v);
                    S::list("OK", vec![S::boolean(p == q), e_lits(&q.to_values())])
                }
                Err(()) => S::atom("ERR"),
            }
        }
        // from_values(to_values(p)) == p
        "pv_values_pv" => {
            let p = d_hist(&a[0]);
            let q = BddPartialValuation::from_values(&p.to_values());
            S::list("P", vec![S::boolean(p == q), e_lits(&q.to_values())])
        }
        // from_values(valuation.to_values()) == From(valuation)
        "val_values_pv" => {
            let v = d_valuation(&a[0]);
            let p = BddPartialValuation::from_values(&v.to_values());
            let q = BddPartialValuation::from(v);
            S::boolean(p == q)
        }
        // the Bdd of a total valuation seen through the partial valuation: mk_conjunctive_clause(From(v)) vs Bdd::from(v)
        "val_bdd_via_pv" => {
            let v = d_valuation(&a[0]);
            let vs = BddVariableSet::new_anonymous(v.num_vars());
            e_bdd(&vs.mk_conjunctive_clause(&BddPartialValuation::from(v)))
        }
        "val_display" => e_hex(format!("{}", d_valuation(&a[0])).as_bytes()),
        _ => return None,
    })
}
