// Serialisation under scripted I/O (properties C12, C13).
//
// The library is handed a `&mut dyn Read` / `&mut dyn Write` that only implements `read` / `write`
// (+ a trivial `flush`), so the std default loops `read_exact`, `read_to_string`, `write_all`,
// `write_fmt` are the ones that run.  The object is a *scripted stream* driven by a schedule
//     (L ev ev ...)      ev ::= (C k) | I | (E kind)
//   (C k)    the next k bytes of the stream become available (reader) / can be accepted (writer).  A call whose
//            buffer is shorter takes a prefix and leaves (C k-n) at the head of the schedule, so the byte stream and
//            its chunk boundaries do not depend on the buffer sizes std happens to choose; (C 0) makes the call
//            return Ok(0).
//   I        the call returns Err(ErrorKind::Interrupted)
//   (E kind) the call returns an error of that kind (other, unexpected_eof, would_block, interrupted, ...)
//   schedule exhausted: every call delivers / accepts as much as the buffer allows; a reader then returns Ok(0)
//            (end of input) once the data is used up.
// A call with an empty buffer returns Ok(0) and consumes nothing (std never issues one from these loops).
//
// ops:  (read_bytes_sched h:<data> <schedule>)   -> (OK bdd) | ERR
//       (read_string_sched h:<data> <schedule>)  -> (OK bdd) | ERR
//       (write_bytes_sched <bdd> <schedule>)     -> (P OK|ERR h:<bytes the writer accepted>)
//       (write_string_sched <bdd> <schedule>)    -> (P OK|ERR h:<bytes the writer accepted>)
//       (dot_write_sched <bdd> (L names) <pruned> <schedule>) -> (P OK|ERR h:<bytes the writer accepted>)
use crate::ops::*;
use crate::sexp::S;
use biodivine_lib_bdd::*;
use std::collections::VecDeque;
use std::io::{self, ErrorKind, Read, Write};

#[derive(Clone, Debug)]
enum Ev {
    Chunk(usize),
    Intr,
    Fail(ErrorKind),
}

fn d_kind(name: &str) -> ErrorKind {
    match name {
        "other" => ErrorKind::Other,
        "unexpected_eof" => ErrorKind::UnexpectedEof,
        "would_block" => ErrorKind::WouldBlock,
        "interrupted" => ErrorKind::Interrupted,
        "invalid_data" => ErrorKind::InvalidData,
        "invalid_input" => ErrorKind::InvalidInput,
        "timed_out" => ErrorKind::TimedOut,
        "write_zero" => ErrorKind::WriteZero,
        "broken_pipe" => ErrorKind::BrokenPipe,
        "connection_reset" => ErrorKind::ConnectionReset,
        "not_found" => ErrorKind::NotFound,
        "permission_denied" => ErrorKind::PermissionDenied,
        "out_of_memory" => ErrorKind::OutOfMemory,
        _ => panic!("harness: unknown error kind {}", name),
    }
}

fn d_sched(x: &S) -> VecDeque<Ev> {
    d_items(x, "L")
        .iter()
        .map(|e| match e {
            S::A(a) if a == "I" => Ev::Intr,
            S::L(v) if v.len() == 2 && v[0].as_atom() == "C" => Ev::Chunk(d_usize(&v[1])),
            S::L(v) if v.len() == 2 && v[0].as_atom() == "E" => Ev::Fail(d_kind(v[1].as_atom())),
            _ => panic!("harness: bad schedule event {}", e),
        })
        .collect()
}

struct SchedReader {
    data: Vec<u8>,
    pos: usize,
    sched: VecDeque<Ev>,
}

impl Read for SchedReader {
    fn read(&mut self, buf: &mut [u8]) -> io::Result<usize> {
        if buf.is_empty() {
            return Ok(0);
        }
        let remaining = self.data.len() - self.pos;
        match self.sched.front().cloned() {
            None => {
                let n = buf.len().min(remaining);
                buf[..n].copy_from_slice(&self.data[self.pos..self.pos + n]);
                self.pos += n;
                Ok(n)
            }
            Some(Ev::Intr) => {
                self.sched.pop_front();
                Err(io::Error::new(ErrorKind::Interrupted, "scripted interruption"))
            }
            Some(Ev::Fail(kind)) => {
                self.sched.pop_front();
                Err(io::Error::new(kind, "scripted failure"))
            }
            Some(Ev::Chunk(k)) => {
                let n = k.min(buf.len()).min(remaining);
                buf[..n].copy_from_slice(&self.data[self.pos..self.pos + n]);
                self.pos += n;
                if n < k {
                    self.sched[0] = Ev::Chunk(k - n);
                } else {
                    self.sched.pop_front();
                }
                Ok(n)
            }
        }
    }
}

struct SchedWriter {
    accepted: Vec<u8>,
    sched: VecDeque<Ev>,
}

impl Write for SchedWriter {
    fn write(&mut self, buf: &[u8]) -> io::Result<usize> {
        if buf.is_empty() {
            return Ok(0);
        }
        match self.sched.front().cloned() {
            None => {
                self.accepted.extend_from_slice(buf);
                Ok(buf.len())
            }
            Some(Ev::Intr) => {
                self.sched.pop_front();
                Err(io::Error::new(ErrorKind::Interrupted, "scripted interruption"))
            }
            Some(Ev::Fail(kind)) => {
                self.sched.pop_front();
                Err(io::Error::new(kind, "scripted failure"))
            }
            Some(Ev::Chunk(k)) => {
                let n = k.min(buf.len());
                self.accepted.extend_from_slice(&buf[..n]);
                if n < k {
                    self.sched[0] = Ev::Chunk(k - n);
                } else {
                    self.sched.pop_front();
                }
                Ok(n)
            }
        }
    }
    fn flush(&mut self) -> io::Result<()> {
        Ok(())
    }
}

fn e_read<E>(r: Result<Bdd, E>) -> S {
    match r {
        Ok(b) => S::list("OK", vec![e_bdd(&b)]),
        Err(_) => S::atom("ERR"),
    }
}

pub fn run(c: &[S]) -> Option<S> {
    let op = c[0].as_atom();
    let a = &c[1..];
    Some(match op {
        "read_bytes_sched" => {
            let mut r = SchedReader { data: d_hex(&a[0]), pos: 0, sched: d_sched(&a[1]) };
            let input: &mut dyn Read = &mut r;
            e_read(Bdd::read_as_bytes(input))
        }
        "read_string_sched" => {
            let mut r = SchedReader { data: d_hex(&a[0]), pos: 0, sched: d_sched(&a[1]) };
            let input: &mut dyn Read = &mut r;
            e_read(Bdd::read_as_string(input))
        }
        "write_bytes_sched" => {
            let b = d_bdd(&a[0]);
            let mut w = SchedWriter { accepted: Vec::new(), sched: d_sched(&a[1]) };
            let res = {
                let output: &mut dyn Write = &mut w;
                b.write_as_bytes(output)
            };
            S::list("P", vec![S::atom(if res.is_ok() { "OK" } else { "ERR" }), e_hex(&w.accepted)])
        }
        "write_string_sched" => {
            let b = d_bdd(&a[0]);
            let mut w = SchedWriter { accepted: Vec::new(), sched: d_sched(&a[1]) };
            let res = {
                let output: &mut dyn Write = &mut w;
                b.write_as_string(output)
            };
            S::list("P", vec![S::atom(if res.is_ok() { "OK" } else { "ERR" }), e_hex(&w.accepted)])
        }
        // (dot_write_sched <bdd> (L names) <pruned> <schedule>) -> (P OK|ERR h:<bytes the writer accepted>)
        "dot_write_sched" => {
            let b = d_bdd(&a[0]);
            let vs = BddVariableSet::from(d_names(&a[1]));
            let mut w = SchedWriter { accepted: Vec::new(), sched: d_sched(&a[3]) };
            let res = {
                let output: &mut dyn Write = &mut w;
                b.write_as_dot_string(output, &vs, d_bool(&a[2]))
            };
            S::list("P", vec![S::atom(if res.is_ok() { "OK" } else { "ERR" }), e_hex(&w.accepted)])
        }
        _ => return None,
    })
}
