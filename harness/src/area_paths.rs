// Paths area (C08): the remaining constructors of the clause-valuation iterator.
//   (valuations_unconstrained nv)   ValuationsOfClauseIterator::new_unconstrained(nv)
//   (valuations_deprecated nv)      BddValuationIterator::new(nv)   (deprecated wrapper)
//   (valuations_empty)              ValuationsOfClauseIterator::empty()
//   (clause_valuations_adapters pv nv k)  count / last / nth(1) / size_hint of the iterator after k steps
//   (iter_after_end b)              the four iterators of a Bdd drained and asked again
//   (clause_valuations_clone pv nv k)  k items, then the rest of a `clone()` of the iterator: (P first-k rest-of-clone)
use crate::ops::*;
use crate::sexp::S;
use biodivine_lib_bdd::*;

#[allow(deprecated)]
pub fn run(c: &[S]) -> Option<S> {
    let op = c[0].as_atom();
    let a = &c[1..];
    Some(match op {
        "valuations_unconstrained" => {
            let it = ValuationsOfClauseIterator::new_unconstrained(d_u16(&a[0]));
            S::list("L", it.map(|p| e_valuation(&p)).collect())
        }
        "valuations_deprecated" => {
            let it = BddValuationIterator::new(d_u16(&a[0]));
            S::list("L", it.map(|p| e_valuation(&p)).collect())
        }
        "valuations_empty" => {
            let it = ValuationsOfClauseIterator::empty();
            S::list("L", it.map(|p| e_valuation(&p)).collect())
        }
        "clause_valuations_clone" => {
            let mut it = ValuationsOfClauseIterator::new(d_pv(&a[0]), d_u16(&a[1]));
            let k = d_usize(&a[2]);
            let mut first = Vec::new();
            for _ in 0..k {
                if let Some(v) = it.next() {
                    first.push(e_valuation(&v));
                }
            }
            let rest: Vec<S> = it.clone().map(|p| e_valuation(&p)).collect();
            S::list("P", vec![S::list("L", first), S::list("L", rest)])
        }
        // the provided Iterator methods on a PARTIALLY consumed clause iterator: after k calls of next(), on clones of the rest:
        // (P count last nth(1) size_hint-consistent)
        "clause_valuations_adapters" => {
            let mut it = ValuationsOfClauseIterator::new(d_pv(&a[0]), d_u16(&a[1]));
            for _ in 0..d_usize(&a[2]) {
                it.next();
            }
            let rest: Vec<BddValuation> = it.clone().collect();
            let count = it.clone().count();
            let last = it.clone().last();
            let nth1 = it.clone().nth(1);
            let (lo, hi) = it.size_hint();
            let hint_ok = lo <= rest.len() && hi.map(|h| rest.len() <= h).unwrap_or(true);
            S::list("P", vec![S::int(count), e_opt(&last, e_valuation), e_opt(&nth1, e_valuation), S::boolean(hint_ok)])
        }
        // every iterator of a Bdd drained, then asked three more times: (L (P count still-none) x4) for sat_valuations,
        // sat_clauses, into_sat_valuations, into_sat_clauses
        "iter_after_end" => {
            fn drain<I: Iterator>(mut it: I) -> S {
                let mut n = 0usize;
                while it.next().is_some() {
                    n += 1;
                }
                let mut ok = true;
                for _ in 0..3 {
                    if it.next().is_some() {
                        ok = false;
                    }
                }
                S::list("P", vec![S::int(n), S::boolean(ok)])
            }
            let b = d_bdd_fresh(&a[0]);
            S::list(
                "L",
                vec![drain(b.sat_valuations()), drain(b.sat_clauses()), drain(b.clone().into_sat_valuations()), drain(b.clone().into_sat_clauses())],
            )
        }
        _ => return None,
    })
}
