// Generates the list of area modules (src/area_*.rs): each defines
// `pub fn run(c: &[S]) -> Option<S>` for the operations it knows (None otherwise).
use std::io::Write;
fn main() {
    let out = std::env::var("OUT_DIR").unwrap();
    let manifest = std::env::var("CARGO_MANIFEST_DIR").unwrap();
    let mut names: Vec<String> = std::fs::read_dir(format!("{}/src", manifest))
        .unwrap()
        .filter_map(|e| e.ok())
        .map(|e| e.file_name().to_string_lossy().to_string())
        .filter(|n| n.starts_with("area_") && n.ends_with(".rs"))
        .map(|n| n.trim_end_matches(".rs").to_string())
        .collect();
    names.sort();
    let mut f = std::fs::File::create(format!("{}/areas.rs", out)).unwrap();
    for n in &names {
        writeln!(f, "#[path = \"{}/src/{}.rs\"] pub mod {};", manifest, n, n).unwrap();
    }
    writeln!(f, "pub fn run_areas(c: &[crate::sexp::S]) -> Option<crate::sexp::S> {{").unwrap();
    for n in &names {
        writeln!(f, "    if let Some(r) = {}::run(c) {{ return Some(r); }}", n).unwrap();
    }
    writeln!(f, "    None\n}}").unwrap();
    println!("cargo:rerun-if-changed=src");
}
