#!/bin/sh
# Builds the whole framework offline from files on disk: Coq development (full .vo), extraction,
# OCaml model driver, Rust harness (against /repo's working tree, hooks enabled).
set -e
cd "$(dirname "$0")"
export CARGO_NET_OFFLINE=true
mkdir -p .work evidence
python3 tools/gen_tables.py /repo >/dev/null || true
python3 tools/gen_expr.py /repo >/dev/null || true
( cd coq && coq_makefile -f _CoqProject -o Makefile >/dev/null && timeout 3000 make -j16 >.build.log 2>&1 || { tail -50 .build.log; exit 1; } )
( cd driver && sh build.sh )
( cd harness && timeout 3000 cargo build --release --offline 2>&1 | tail -3 )
echo "setup ok"
