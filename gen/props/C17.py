"""C17 — variable renaming and transfer keep the function or refuse."""
from common import *
from props.base import *

PID = "C17"
CROSSCHECK = False
RULE = ("transfer_from: every ordered pair of name lists over the alphabet {a,b,c,d} (source = every arrangement of <=3 names, target = every "
        "arrangement of <=4 names: shared, missing and reordered names) x functions of as many variables as the source has names (all of them for "
        "<=2 variables, sampled for 3; sampled per pair in the quick tier), plus random diagrams over 4..6 variables with an 8-name alphabet, "
        "non-canonical valid operands and operands whose variable count differs from the source set; rename_variables: every partial map "
        "{0..nv-1} -> {0..nv} for nv<=4 (values equal to the variable count are out of range), optionally extended by keys nv, nv+1, 65535, x functions "
        "(all for nv<=2, sampled above); rename_variable: every (old,new) in {0..nv+1}^2; set_num_vars: every count 0..nv+2 and 65535. "
        "relation: Some/None, PANIC/value and the node arrays equal the step-faithful model's exactly; every non-panicking result is re-checked by "
        "an independent oracle (Python is_wf + truth table under the mapping): valid in the new variable count and denoting the renamed function; "
        "transfer's Some/None is compared with the name-induced mapping computed in Python. "
        "non-trivial = operand with >=3 nodes (transfer: non-constant; rename_variables: some key in the support; rename_variable: old in the "
        "support or a refusal caused by the support); distinct by sha256 of (operation, operands)")

ALPHA = ["a", "b", "c", "d"]
ALPHA8 = ["a", "b", "c", "d", "e", "f", "g", "hh"]


def names_sx(ns):
    return ["L"] + [hexs(n) for n in ns]


def arrangements(alpha, kmax):
    out = []
    for k in range(kmax + 1):
        out += [list(p) for p in itertools.permutations(alpha, k)]
    return out


def map_sx(m):
    return ["L"] + [["P", str(k), str(v)] for k, v in m]


def support_of(nodes):
    return sorted({v for (v, l, h) in nodes[2:]})


def funcs_sep(rng, nv, n):
    fs = all_functions(nv) if nv <= 3 else []
    return rng.sample(fs, min(n, len(fs)))


def programs(rng, tier):
    P = Prog()
    quick = tier == "quick"
    fcache = {k: all_functions(k) for k in (0, 1, 2, 3)}
    full3 = [f for f in fcache[3] if support_of(f) == [0, 1, 2]]

    # ---- transfer over the 4-name alphabet
    sources = arrangements(ALPHA, 3)
    targets = arrangements(ALPHA, 4)
    for src in sources:
        k = len(src)
        for tgt in targets:
            if k <= 2:
                fs = fcache[k] if not quick else rng.sample(fcache[k], min(len(fcache[k]), 8))
            else:
                n = 9 if quick else 36
                fs = rng.sample(fcache[3], n - n // 3) + rng.sample(full3, n // 3)
            for f in fs:
                P.add(["transfer", bdd_sx(f), names_sx(src), names_sx(tgt)])
    # random: larger sets, skipped levels, non-canonical operands, mismatching variable counts
    for _ in range(4000 if quick else 40000):
        nv = rng.choice([3, 4, 4, 5, 6])
        src = rng.sample(ALPHA8, nv)
        f = rand_operand(rng, nv, 0.15)
        sup = support_of(f)
        k = rng.random()
        if k < 0.45:
            # target keeps the support's names in order, other names random
            keep = [src[x] for x in sup]
            others = [n for n in ALPHA8 if n not in keep]
            extra = rng.sample(others, rng.randrange(0, len(others) + 1))
            tgt = list(keep)
            for n in extra:
                tgt.insert(rng.randrange(0, len(tgt) + 1), n)
        elif k < 0.7:
            tgt = rng.sample(ALPHA8, rng.randrange(0, 9))
        else:
            tgt = list(src)
            if tgt and rng.random() < 0.5:
                i, j = rng.randrange(len(tgt)), rng.randrange(len(tgt))
                tgt[i], tgt[j] = tgt[j], tgt[i]
            if tgt and rng.random() < 0.4:
                tgt.pop(rng.randrange(len(tgt)))
        if rng.random() < 0.06:
            # the Bdd does not belong to the source set: more variables than names (name_of may panic) or fewer
            src = src[:rng.randrange(0, nv)] if rng.random() < 0.7 else src + [n for n in ALPHA8 if n not in src][:1]
        P.add(["transfer", bdd_sx(f), names_sx(src), names_sx(tgt)])

    # names that contain the separators a printed name list uses (comma, space, comma + space): two DIFFERENT sets whose joined
    # names coincide ("a","b","c" vs "a","b,c"; "a, b","c" vs "a","b, c"), in both directions, with functions of the source's width
    sep_pairs = [(["a", "b", "c"], ["a", "b,c"]), (["a", "b,c"], ["a", "b", "c"]), (["a,b", "c"], ["a", "b,c"]), (["a", "b", "c"], ["a,b", "c"]),
                 (["a, b", "c"], ["a", "b, c"]), (["x y", "z"], ["x", "y z"]), (["a", "b"], ["a,b"]), (["a,b"], ["a", "b"]),
                 (["a", "b,c", "d"], ["a,b", "c,d"]), (["p", "q"], ["p", "q"])]
    for src, tgt in sep_pairs:
        for f in funcs_sep(rng, len(src), 6 if quick else 40):
            P.add(["transfer", bdd_sx(f), names_sx(src), names_sx(tgt)])

    # ---- rename_variables
    def funcs(nv, n):
        if nv <= 3:
            fs = fcache[nv]
            return fs if len(fs) <= n else rng.sample(fs, n)
        return [rand_operand(rng, nv, 0.15, max_support=4) for _ in range(n)]

    for nv in (1, 2, 3, 4):
        per = {1: 4, 2: 16, 3: (40 if quick else 256), 4: (6 if quick else 24)}[nv]
        for values in itertools.product([None] + list(range(nv + 1)), repeat=nv):
            base = [(k, v) for k, v in enumerate(values) if v is not None]
            for f in funcs(nv, per):
                m = list(base)
                r = rng.random()
                if r < 0.15:
                    m.append((nv, rng.randrange(0, nv + 2)))
                elif r < 0.22:
                    m.append((nv + 1, rng.randrange(0, nv + 2)))
                elif r < 0.27:
                    m.append((65535, rng.choice([0, nv, 65535])))
                elif r < 0.32 and m:
                    i = rng.randrange(len(m))
                    m[i] = (m[i][0], rng.choice([nv + 1, 65535]))
                rng.shuffle(m)
                P.add(["rename_vars", bdd_sx(f), map_sx(m)])
    for _ in range(800 if quick else 20000):
        nv = rng.choice([4, 5, 6, 8])
        f = rand_operand(rng, nv, 0.15)
        sup = support_of(f)
        m = {}
        if rng.random() < 0.6 and sup:
            # an order-preserving relabelling of the support, sometimes broken
            new = sorted(rng.sample(range(nv), len(sup)))
            m = dict(zip(sup, new))
            if rng.random() < 0.25:
                m[rng.choice(sup)] = rng.randrange(0, nv + 1)
        else:
            for k in rng.sample(range(nv + 1), rng.randrange(0, nv + 1)):
                m[k] = rng.randrange(0, nv + 1)
        for k in rng.sample(range(nv), rng.randrange(0, 2)):
            if k not in sup:
                m[k] = rng.randrange(0, nv + 2)
        items = list(m.items())
        rng.shuffle(items)
        P.add(["rename_vars", bdd_sx(f), map_sx(items)])

    # ---- rename_variable
    for nv in (1, 2, 3, 4):
        per = {1: 4, 2: 16, 3: (10 if quick else 256), 4: (6 if quick else 60)}[nv]
        for old in range(nv + 2):
            for new in range(nv + 2):
                for f in funcs(nv, per):
                    P.add(["rename_var", bdd_sx(f), str(old), str(new)])
    for _ in range(600 if quick else 15000):
        nv = rng.choice([4, 5, 6, 8])
        f = rand_operand(rng, nv, 0.15, max_support=3)
        sup = support_of(f)
        old = rng.choice(sup) if sup and rng.random() < 0.8 else rng.randrange(0, nv + 1)
        P.add(["rename_var", bdd_sx(f), str(old), str(rng.randrange(0, nv + 1))])

    # ---- set_num_vars
    for nv in (0, 1, 2, 3):
        for f in funcs(nv, 60 if quick else 256):
            for n in list(range(nv + 3)) + [65535]:
                P.add(["set_num_vars", bdd_sx(f), str(n)])
    for _ in range(400 if quick else 10000):
        nv = rng.choice([4, 5, 6, 8])
        f = rand_operand(rng, nv, 0.15)
        sup = support_of(f)
        top = (sup[-1] + 1) if sup else 0
        n = rng.choice([top, top, max(0, top - 1), top + 1, nv, nv + 1, rng.randrange(0, nv + 3)])
        P.add(["set_num_vars", bdd_sx(f), str(n)])
    return P.progs


# ----------------------------------------------------------------------------- independent oracle
def tt_under(nodes, nv_out, pull):
    """truth table over nv_out variables of  v' |-> eval(nodes, pull(v'))"""
    return tuple(raw_eval(nodes, pull(val_of_index(i, nv_out))) for i in range(1 << nv_out))


def first_diff(res, nv_out, orig, pull):
    for i in range(1 << nv_out):
        v = val_of_index(i, nv_out)
        e, o = raw_eval(orig, pull(v)), raw_eval(res, v)
        if e != o:
            return {"valuation": vbits(v), "expected": e, "observed": o}
    return None


def check_result(call, res):
    """None if the non-panicking result satisfies the property, else a description of the failing input"""
    op = call[0]
    orig = bdd_nodes(call[1])
    nv = orig[0][0]
    sup = support_of(orig)
    if not is_wf(res):
        return {"problem": "the result is not a valid diagram (unordered, out-of-range variable or malformed terminal)", "result": sx_str(bdd_sx(res))}
    if op == "rename_vars":
        m = {int(p[1]): int(p[2]) for p in call[2][1:]}
        if res[0][0] != nv:
            return {"problem": "variable count changed", "result": sx_str(bdd_sx(res))}

        def pull(v):
            return [(v[m.get(x, x)] if m.get(x, x) < nv else False) if x in sup else v[x] for x in range(nv)]
        return first_diff(res, nv, orig, pull)
    if op == "rename_var":
        old, new = int(call[2]), int(call[3])
        if res[0][0] != nv:
            return {"problem": "variable count changed", "result": sx_str(bdd_sx(res))}

        def pull(v):
            return [(v[new] if new < nv else False) if x == old else v[x] for x in range(nv)]
        return first_diff(res, nv, orig, pull)
    if op == "set_num_vars":
        n = int(call[2])
        if res[0][0] != n:
            return {"problem": "variable count is not the requested one", "result": sx_str(bdd_sx(res))}
        if n > 12:
            # same decision nodes, terminals relabelled: compare over the old count (every decision variable is below both counts)
            if res[2:] != orig[2:]:
                return {"problem": "decision nodes changed"}
            return None
        top = max(n, nv)
        for i in range(1 << top):
            v = val_of_index(i, top)
            if raw_eval(orig, v) != raw_eval(res, v):
                return {"valuation": vbits(v), "expected": raw_eval(orig, v), "observed": raw_eval(res, v)}
        return None
    if op == "transfer":
        src = [unhex(h).decode() for h in call[2][1:]]
        tgt = [unhex(h).decode() for h in call[3][1:]]
        if res[0][0] != len(tgt):
            return {"problem": "the result is not over the target set's variable count", "result": sx_str(bdd_sx(res))}
        missing = [src[x] for x in sup if x >= len(src) or src[x] not in tgt]
        if missing:
            return {"problem": "Some(..) although a support variable has no namesake in the target set", "missing_names": missing}
        mp = {x: tgt.index(src[x]) for x in sup}
        nt = len(tgt)
        if nt > 12:
            return None

        def pull(v):
            return [v[mp[x]] if x in mp else False for x in range(nv)]
        return first_diff(res, nt, orig, pull)
    return None


def transfer_expected(call):
    """'S' / 'N' by the name-induced mapping, or None when the Bdd is not over the source set"""
    orig = bdd_nodes(call[1])
    src = [unhex(h).decode() for h in call[2][1:]]
    tgt = [unhex(h).decode() for h in call[3][1:]]
    sup = support_of(orig)
    if orig[0][0] != len(src):
        return None
    if any(src[x] not in tgt for x in sup):
        return "N"
    img = [tgt.index(src[x]) for x in sup]
    return "S" if all(a < b for a, b in zip(img, img[1:])) else "N"


def judge(st, V):
    cid, call, impl, model, aux = st
    op = call[0]
    V.evaluations += 1
    V.count("op:" + op)
    if impl == "SKIP" or not operands_wf(call):
        V.skipped += 1
        return
    if op == "transfer":
        for lst in (call[2], call[3]):
            if len(set(lst[1:])) != len(lst) - 1:
                V.skipped += 1      # not a variable set: BddVariableSet rejects duplicate names before transfer_from is reached
                return
    machinery_guard(st)
    orig = bdd_nodes(call[1])
    sup = support_of(orig)
    V.count("outcome:%s:%s" % (op, impl if isinstance(impl, str) else impl[0]))
    V.count("size:%s" % ("1-2" if len(orig) < 3 else "3-6" if len(orig) < 7 else "7+"))
    sample(V, st)
    rb = unwrap_bdd(impl)
    bad = None
    if rb is not None:
        try:
            bad = check_result(call, bdd_nodes(rb))
        except (EvalDiverges, IndexError) as ex:
            bad = {"problem": "the result cannot be evaluated: %s" % ex}
        if bad is not None:
            V.violations.append(violation(PID, st, "the operation returned a diagram that is invalid or denotes a different function",
                                          oracle=bad, confirmed=True, relation="valid and renamed semantics (independent oracle)"))
            return
    if op == "transfer":
        want = transfer_expected(call)
        if want is not None:
            got = "S" if rb is not None else impl
            if got != want:
                V.violations.append(violation(PID, st, "transfer_from must return Some exactly when every support variable's name exists in the "
                                              "target set and the name-induced mapping is strictly increasing",
                                              oracle={"expected": want, "observed": sx_str(impl)[:200]}, confirmed=True,
                                              relation="Some/None vs. name-induced mapping"))
                return
        else:
            V.count("transfer:foreign-operand")
    if impl != model:
        V.violations.append(violation(PID, st, "implementation and step-faithful model disagree (Some/None, PANIC/value, node arrays compared exactly)",
                                      oracle={"independent_check_of_impl_result": "passed" if rb is not None else "no diagram returned"},
                                      confirmed=False, relation="exact"))
        return
    # non-trivial cases
    if len(orig) >= 3:
        nt = False
        if op == "transfer":
            nt = True
        elif op == "rename_vars":
            nt = any(int(p[1]) in sup for p in call[2][1:])
        elif op == "rename_var":
            old, new = int(call[2]), int(call[3])
            nt = old != new and (old in sup or impl == "PANIC")
        elif op == "set_num_vars":
            nt = int(call[2]) != orig[0][0]
        if nt:
            V.nontrivial.add(key_of(call))
