"""Independent reference implementations for the expression properties (C14, C15), in plain Python:
a lexer + precedence-climbing parser for the documented grammar, the printer, pointwise evaluation
of expression trees, random tree / string generators.  Nothing here calls the model or the library.

Expression trees are the transcript s-expressions:  ["const","T"], ["var","h:61"], ["not",e],
["and",a,b], ["or",a,b], ["xor",a,b], ["imp",a,b], ["iff",a,b], ["cond",a,b,c]."""
from common import *

# Unicode White_Space (what Rust's char::is_whitespace tests)
WS = set(list(range(0x9, 0xE)) + [0x20, 0x85, 0xA0, 0x1680] + list(range(0x2000, 0x200B)) + [0x2028, 0x2029, 0x202F, 0x205F, 0x3000])
RESERVED = set("!&|^=<>()?:")

BIN = {"<=>": (1, "iff"), "=>": (2, "imp"), "|": (4, "or"), "&": (5, "and"), "^": (6, "xor")}
COND_PREC = 3


class Reject(Exception):
    pass


def ref_lex(s):
    """flat token list: operator strings, '(' , ')', ('id', name)"""
    toks = []
    i, n = 0, len(s)
    while i < n:
        c = s[i]
        if ord(c) in WS:
            i += 1
        elif c in "!&|^:?()":
            toks.append(c)
            i += 1
        elif s.startswith("=>", i):
            toks.append("=>")
            i += 2
        elif s.startswith("<=>", i):
            toks.append("<=>")
            i += 3
        elif c in "=<>":
            raise Reject("stray " + c)
        else:
            j = i
            while j < n and ord(s[j]) not in WS and s[j] not in RESERVED:
                j += 1
            toks.append(("id", s[i:j]))
            i = j
    return toks


def ref_parse(s):
    """'ERR' or ['OK', tree] for the grammar
         iff ::= imp | imp <=> iff      imp ::= cnd | cnd => imp      cnd ::= or | or ? or : or
         or ::= and | and '|' or        and ::= xor | xor & and       xor ::= t | t ^ xor
         t ::= ! t | id | true | false | ( iff )
       by precedence climbing (all binary operators right-associative, the conditional does not nest)."""
    try:
        toks = ref_lex(s)
    except Reject:
        return "ERR"
    pos = 0

    def peek():
        return toks[pos] if pos < len(toks) else None

    def unary():
        nonlocal pos
        t = peek()
        if t is None:
            raise Reject("operand expected")
        if t == "!":
            pos += 1
            return ["not", unary()]
        if t == "(":
            pos += 1
            e = climb(1)
            if peek() != ")":
                raise Reject(") expected")
            pos += 1
            return e
        if isinstance(t, tuple):
            pos += 1
            if t[1] == "true":
                return ["const", "T"]
            if t[1] == "false":
                return ["const", "F"]
            return ["var", hexs(t[1])]
        raise Reject("operand expected")

    def climb(min_prec):
        nonlocal pos
        lhs = unary()
        limit = 6
        while True:
            t = peek()
            if isinstance(t, str) and t in BIN and min_prec <= BIN[t][0] <= limit:
                p, nm = BIN[t]
                pos += 1
                rhs = climb(p)          # right-associative
                lhs = [nm, lhs, rhs]
                limit = p - 1
            elif t == "?" and min_prec <= COND_PREC <= limit:
                pos += 1
                b = climb(COND_PREC + 1)
                if peek() != ":":
                    raise Reject(": expected")
                pos += 1
                c = climb(COND_PREC + 1)
                lhs = ["cond", lhs, b, c]
                limit = COND_PREC - 1
            else:
                return lhs

    try:
        e = climb(1)
        if pos != len(toks):
            raise Reject("trailing tokens")
        return ["OK", e]
    except Reject:
        return "ERR"
    except RecursionError:
        return "ERR?"


def name_of(e):
    return unhex(e[1]).decode("utf-8")


SYM = {"and": "&", "or": "|", "xor": "^", "imp": "=>", "iff": "<=>"}


def ref_show(e):
    k = e[0]
    if k == "const":
        return "true" if e[1] == "T" else "false"
    if k == "var":
        return name_of(e)
    if k == "not":
        return "!" + ref_show(e[1])
    if k == "cond":
        return "(%s ? %s : %s)" % (ref_show(e[1]), ref_show(e[2]), ref_show(e[3]))
    return "(%s %s %s)" % (ref_show(e[1]), SYM[k], ref_show(e[2]))


def expr_eval(e, env):
    """env: name -> bool; raises KeyError on an unknown variable"""
    k = e[0]
    if k == "const":
        return e[1] == "T"
    if k == "var":
        return env[name_of(e)]
    if k == "not":
        return not expr_eval(e[1], env)
    a = expr_eval(e[1], env)
    if k == "cond":
        return expr_eval(e[2], env) if a else expr_eval(e[3], env)
    b = expr_eval(e[2], env)
    return {"and": a and b, "or": a or b, "xor": a != b, "imp": (not a) or b, "iff": a == b}[k]


def expr_vars(e):
    if e[0] == "var":
        return {name_of(e)}
    if e[0] == "const":
        return set()
    out = set()
    for x in e[1:]:
        out |= expr_vars(x)
    return out


def expr_size(e):
    if e[0] in ("var", "const"):
        return 1
    return 1 + sum(expr_size(x) for x in e[1:])


def expr_tt(e, names):
    """truth table (variable 0 = most significant bit) of e over the ordered name list"""
    nv = len(names)
    out = []
    for i in range(1 << nv):
        val = val_of_index(i, nv)
        out.append(expr_eval(e, dict(zip(names, val))))
    return tuple(out)


def name_safe(nm):
    return len(nm) > 0 and nm not in ("true", "false") and all(ord(c) not in WS and c not in RESERVED for c in nm)


def expr_names_safe(e):
    if e[0] == "var":
        return name_safe(name_of(e))
    if e[0] == "const":
        return True
    return all(expr_names_safe(x) for x in e[1:])


NAME_CHARS = "abcxyzABZ019__" + "\u010d\u00e9\u00df\u03bb\u0416\u4e2d\U0001d518" + "+-*/.,;#@~%$[]{}'\"\\"


NEAR_KEYWORDS = ["True", "FALSE", "tRuE", "False", "TRUE", "xtrue", "true_", "truefalse", "tru", "fals", "t", "f", "0", "1"]


def rand_name(rng):
    if rng.random() < 0.15:
        return rng.choice(NEAR_KEYWORDS)
    while True:
        nm = "".join(rng.choice(NAME_CHARS) for _ in range(rng.choice([1, 1, 2, 3, 5])))
        if name_safe(nm):
            return nm


def rand_tree(rng, depth, names, pconst=0.1):
    """random tree over all connectives; `names` is a list of variable names to draw from"""
    if depth == 0 or rng.random() < 0.2:
        if rng.random() < pconst:
            return ["const", rng.choice("TF")]
        return ["var", hexs(rng.choice(names))]
    k = rng.choice(["not", "and", "or", "xor", "imp", "iff", "cond", "and", "or", "not"])
    if k == "not":
        return ["not", rand_tree(rng, depth - 1, names, pconst)]
    if k == "cond":
        return ["cond"] + [rand_tree(rng, depth - 1, names, pconst) for _ in range(3)]
    return [k, rand_tree(rng, depth - 1, names, pconst), rand_tree(rng, depth - 1, names, pconst)]


LEVEL = {"iff": 1, "imp": 2, "cond": 3, "or": 4, "and": 5, "xor": 6, "not": 7, "var": 7, "const": 7}
ODD_WS = [" ", " ", " ", "  ", "\t", "\n", "\u00a0", "\u2003", "\u3000", "\u0085", "\r", "\u1680", "\u2028", "\u205f", "\u000b", "\u000c"]


def loose_print(rng, e, ctx=0, pextra=0.15):
    """prints a tree with only the parentheses the grammar needs (plus a few redundant ones) and
    random whitespace; the result parses back to e when names are safe"""
    k = e[0]

    def sp():
        r = rng.random()
        return "" if r < 0.3 else " " if r < 0.8 else rng.choice(ODD_WS)

    if k == "const":
        s = "true" if e[1] == "T" else "false"
    elif k == "var":
        s = name_of(e)
    elif k == "not":
        s = "!" + sp() + loose_print(rng, e[1], 7, pextra)
    elif k == "cond":
        s = (loose_print(rng, e[1], 4, pextra) + sp() + "?" + sp() + loose_print(rng, e[2], 4, pextra) + sp() + ":" + sp() +
             loose_print(rng, e[3], 4, pextra))
    else:
        p = LEVEL[k]
        # left operand must be of a strictly tighter level, right operand may be of the same level (right assoc.)
        s = loose_print(rng, e[1], p + 1, pextra) + sp() + SYM[k] + sp() + loose_print(rng, e[2], p, pextra)
    if LEVEL[k] < ctx or rng.random() < pextra:
        s = "(" + sp() + s + sp() + ")"
    # identifiers need a separator from a following identifier only; operators delimit themselves
    return s


STRAY = list("!&|^=<>()?:") + [" ", "a", "true", "false", "=>", "<=>", "\u200b", "\u001c", "\ufeff", "\u00e9", "=", "<=", "))", "((", "\u180e", "\u001f"]


def mutate(rng, s):
    s = list(s)
    for _ in range(rng.choice([1, 1, 2, 3])):
        k = rng.random()
        i = rng.randrange(len(s) + 1)
        if k < 0.4 or not s:
            s.insert(i, rng.choice(STRAY))
        elif k < 0.7:
            del s[min(i, len(s) - 1)]
        else:
            s[min(i, len(s) - 1)] = rng.choice(STRAY)
    return "".join(s)


# ----------------------------------------------------------------------------- vm_compute cross-check of the extracted model
def coq_str(s):
    return "[" + "; ".join(str(ord(c)) for c in s) + "]%N"


def coq_expr(e):
    k = e[0]
    if k == "const":
        return "(EConst %s)" % ("true" if e[1] == "T" else "false")
    if k == "var":
        return "(EVar %s)" % coq_str(name_of(e))
    ctor = {"not": "ENot", "and": "EAnd", "or": "EOr", "xor": "EXor", "imp": "EImp", "iff": "EIff", "cond": "ECond"}[k]
    return "(%s %s)" % (ctor, " ".join(coq_expr(x) for x in e[1:]))


def vm_eval(workdir, terms, tag):
    """evaluates closed Coq terms of type `list N` with vm_compute inside coqc; returns the lists of ints"""
    import re
    lines = ["From Coq Require Import List NArith. Import ListNotations.",
             "From BddVerif Require Import Model.Bdd Model.Apply Model.Ops Model.Expr.", "Open Scope N_scope."]
    for t in terms:
        lines.append("Eval vm_compute in (%s)." % t)
    os.makedirs(workdir, exist_ok=True)
    path = os.path.join(workdir, "cross_%s.v" % tag)
    open(path, "w").write("\n".join(lines) + "\n")
    rc, out, err = run_cmd(["timeout", "600", "coqc", "-noglob", "-Q", COQ_DIR, "BddVerif", path], cwd=workdir, timeout=700)
    if rc != 0:
        raise RuntimeError("vm_compute cross-check failed to compile: " + (out + err)[-2000:])
    vals = re.findall(r"=\s*(\[.*?\])\s*:\s*list", out, flags=re.S)
    return [[int(x) for x in re.findall(r"\d+", v)] for v in vals]
