"""C08 — enumeration yields exactly the satisfying valuations and paths, once each."""
from common import *
from props.base import *

PID = "C08"
RULE = ("sat_clauses / into_sat_clauses / to_dnf / sat_valuations / into_sat_valuations on: every function of 0..3 variables (3 sampled in the quick tier; "
        "thorough: all 256 plus sampled functions of 4 variables), constants at several variable counts, functions over every <=3-subset of 4..7 variables "
        "(skipped levels), random functions over 4..9 variables, valid non-canonical arrays (duplicated / permuted / unreachable nodes; arrays with a "
        "redundant test l==h are outside the property - the iterator documents a panic - and are fed to to_dnf only), few-node diagrams over 12..40 variables "
        "(clauses only); owned_back for every k in 0..count+1 (sampled k for large counts); ValuationsOfClauseIterator::new(clause, nv) for every clause over "
        "<=4 variables x nv in 0..6 (clauses mentioning a variable >= nv are outside the property: recorded, not judged), plus new_unconstrained / the "
        "deprecated BddValuationIterator / empty() and clone() after k steps. "
        "relation: the yielded SEQUENCE equals the Coq model's (step-faithful stack machine / counter, cross-checked in the driver against the I/O-equivalent "
        "lists the theorems are about); owned iterators return the operand array twice. On top, an independent Python oracle over the raw array is run on "
        "EVERY step with nv<=10: multiset of valuations == satisfying set; clauses pairwise incompatible, inside nv, union == satisfying set; sat_clauses and "
        "to_dnf of the same program give the same set. non-trivial = operand has >=1 decision node and >=2 items are yielded (clause iterator: >=1 free and "
        ">=1 fixed position); distinct by sha256 of the step")
EXHAUSTIVE = {"quick": False, "thorough": False}
MAXO = 10   # oracle bound on the variable count

ITER_OPS = ("sat_clauses", "into_sat_clauses", "sat_valuations", "into_sat_valuations")


def has_redundant(nodes):
    return any(l == h for (_, l, h) in nodes[2:])


def iter_safe_variant(rng, b):
    """valid non-canonical variant without a redundant test (those make the path iterator panic by design)"""
    for _ in range(8):
        c = noncanonical_variant(rng, b)
        if not has_redundant(c) and is_wf(c):
            return c
    return b


def family(b, ks, vals=True, clauses=True):
    """one program for a diagram b: all enumerations + owned_back for the given ks"""
    bs = bdd_sx(b)
    prog = [["b", "id", bs]]
    if clauses:
        prog += [["sc", "sat_clauses", "$b"], ["isc", "into_sat_clauses", "$b"]]
    prog += [["dnf", "to_dnf", "$b"]]
    if vals:
        prog += [["sv", "sat_valuations", "$b"], ["isv", "into_sat_valuations", "$b"]]
    for k in ks:
        prog.append(["ob%d" % k, "owned_back", "$b", str(k)])
    if vals and clauses:
        prog.append(["end", "iter_after_end", "$b"])
    return prog


def programs(rng, tier):
    progs = []
    quick = tier == "quick"
    # ---- exhaustive small scopes (includes 0 variables and the constants)
    for nv in (0, 1, 2, 3):
        fs = all_functions(nv)
        if nv == 3 and quick:
            fs = rng.sample(fs, 128)
        for b in fs:
            progs.append(family(b, range(0, sum(raw_tt(b)) + 2)))
    if not quick:
        for _ in range(2500):
            tt = [rng.random() < 0.5 for _ in range(16)]
            b = bdd_from_tt(4, [0, 1, 2, 3], tt)
            cnt = sum(tt)
            progs.append(family(b, sorted(set([0, 1, cnt, cnt + 1, rng.randrange(0, cnt + 2)]))))
    # ---- constants at other variable counts
    for nv in (4, 5, 7, 9):
        for b in ([(nv, 0, 0)], [(nv, 0, 0), (nv, 1, 1)]):
            progs.append(family(b, [0, 1, 2, (1 << nv) - 1, 1 << nv, (1 << nv) + 1]))
    for nv in (16, 40, 1000):      # constants over many variables: clauses only
        for b in ([(nv, 0, 0)], [(nv, 0, 0), (nv, 1, 1)]):
            progs.append(family(b, [], vals=False))
    # ---- skipped levels: functions over a subset of the variables
    gap = []
    for nv in (4, 5, 6, 7):
        for k in (1, 2, 3):
            for sub in itertools.combinations(range(nv), k):
                gap.append((nv, sub))
    for (nv, sub) in (rng.sample(gap, 120) if quick else gap):
        k = len(sub)
        tts = list(itertools.product([False, True], repeat=1 << k))
        for tt in (rng.sample(tts, min(len(tts), 3)) if quick else rng.sample(tts, min(len(tts), 24))):
            b = bdd_from_tt(nv, list(sub), list(tt))
            cnt = sum(raw_tt(b))
            progs.append(family(b, sorted(set([0, 1, 2, cnt - 1 if cnt else 0, cnt, cnt + 1]))))
    # ---- random over 4..9 variables, and valid non-canonical variants
    for _ in range(1200 if quick else 9000):
        nv = rng.choice([4, 5, 6, 7, 8, 9])
        b = random_bdd(rng, nv, max_support=min(nv, 6))
        if rng.random() < 0.25:
            b = iter_safe_variant(rng, b)
        cnt = sum(raw_tt(b))
        ks = sorted(set([0, 1, cnt, cnt + 1, rng.randrange(0, cnt + 2), rng.randrange(0, cnt + 2)]))
        progs.append(family(b, ks))
    # ---- arrays with a redundant test: to_dnf only (the iterators panic there by design)
    P = Prog()
    for _ in range(60 if quick else 1500):
        nv = rng.choice([3, 4, 5, 6])
        b = noncanonical_variant(rng, random_bdd(rng, nv))
        if is_wf(b):
            P.add(["to_dnf", bdd_sx(b)])
    # ---- few-node diagrams over many variables: clauses only
    for _ in range(60 if quick else 1500):
        nv = rng.choice([12, 16, 25, 40])
        b = random_bdd(rng, nv, max_support=5)
        progs.append(family(b, [0, 1, 3], vals=False))
    # ---- clause iterators
    clauses = set()
    for n in range(0, 5):
        for cells in itertools.product("-01", repeat=n):
            clauses.add("p" + "".join(cells).rstrip("-"))
            clauses.add("p" + "".join(cells))            # with explicit trailing unset cells as well
    clauses = sorted(clauses)
    for cl in clauses:
        nvs = range(0, 7)
        for nv in nvs:
            P.add(["clause_valuations", cl, str(nv)])
    for nv in range(0, 9):
        P.add(["valuations_unconstrained", str(nv)])
        P.add(["valuations_deprecated", str(nv)])
    P.add(["valuations_empty"])
    for _ in range(150 if quick else 3000):      # k calls of next(), then the rest through a clone()
        nv = rng.randrange(0, 7)
        cl = "p" + "".join(rng.choice("-01-") for _ in range(rng.randrange(0, nv + 1)))
        P.add(["clause_valuations_clone", cl, str(nv), str(rng.randrange(0, (1 << nv) + 2))])
        P.add(["clause_valuations_adapters", cl, str(nv), str(rng.randrange(0, (1 << nv) + 2))])
    for _ in range(40 if quick else 1500):
        nv = rng.choice([7, 8, 9, 10])
        cl = "p" + "".join(rng.choice("-01011") for _ in range(rng.randrange(0, nv + 1)))
        P.add(["clause_valuations", cl, str(nv)])
    return progs + P.progs


# --------------------------------------------------------------------------------------------- oracles
def pv_cells(a):
    return {i: (c == "1") for i, c in enumerate(a[1:]) if c != "-"}


def sat_set(b):
    nv = b[0][0]
    tt = raw_tt(b)
    return {vbits(val_of_index(i, nv)) for i in range(1 << nv) if tt[i]}


def oracle_valuations(b, items):
    """None if the yielded valuations are exactly the satisfying set, once each; else a description"""
    want = sat_set(b)
    seen = set()
    for x in items:
        if x in seen:
            return {"problem": "valuation yielded twice", "valuation": x}
        seen.add(x)
        if x not in want:
            return {"problem": "yielded valuation does not satisfy the Bdd (or has the wrong length)", "valuation": x}
    miss = want - seen
    if miss:
        return {"problem": "satisfying valuation never yielded", "valuation": sorted(miss)[0]}
    return None


def oracle_clauses(b, items):
    nv = b[0][0]
    want = sat_set(b)
    cs = [pv_cells(x) for x in items]
    for x, c in zip(items, cs):
        if any(i >= nv for i in c):
            return {"problem": "clause mentions a variable outside the Bdd", "clause": x}
    for i in range(len(cs)):
        for j in range(i + 1, len(cs)):
            if not any(k in cs[j] and cs[j][k] != v for k, v in cs[i].items()):
                return {"problem": "two yielded clauses are compatible (not disjoint)", "clauses": [items[i], items[j]]}
    union = set()
    for c in cs:
        for i in range(1 << nv):
            v = val_of_index(i, nv)
            if all(v[k] == x for k, x in c.items()):
                union.add(vbits(v))
    if union != want:
        d = sorted(union ^ want)[0]
        return {"problem": "union of the clauses differs from the satisfying set", "valuation": d, "in_union": d in union}
    return None


def oracle_clause_iter(cl, nv, items):
    c = pv_cells(cl)
    want = {vbits(v) for v in (val_of_index(i, nv) for i in range(1 << nv)) if all(v[k] == x for k, x in c.items())}
    k = nv - len(c)
    if len(items) != 1 << k:
        return {"problem": "expected 2^%d items, got %d" % (k, len(items))}
    if len(set(items)) != len(items):
        return {"problem": "a valuation is yielded twice"}
    if set(items) != want:
        return {"problem": "yielded set differs from the extensions of the clause", "example": sorted(set(items) ^ want)[0]}
    return None


_last = {}


def count_paths(nodes):
    """number of root-to-1 paths of a raw array"""
    if len(nodes) == 1:
        return 0
    memo = {0: 0, 1: 1}

    def go(p):
        if p not in memo:
            memo[p] = go(nodes[p][1]) + go(nodes[p][2])
        return memo[p]
    return go(len(nodes) - 1)


def judge(st, V):
    cid, call, impl, model, aux = st
    op = call[0]
    if op == "id":
        _last.clear()
        return
    V.evaluations += 1
    V.count("op:" + op)
    if impl == "SKIP" or not operands_wf(call):
        V.skipped += 1
        return
    if op == "clause_valuations_adapters":
        # count / last / nth(1) / size_hint of a partially consumed clause iterator, against the enumeration computed in Python
        machinery_guard(st)
        cl, nv, k = call[1], int(call[2]), int(call[3])
        cells = cl[1:]
        want = None
        if len(cells) <= nv and nv <= 12:
            free = [i for i in range(nv) if i >= len(cells) or cells[i] == "-"]
            allv = []
            for m in range(1 << len(free)):
                v = [(cells[i] == "1") if i < len(cells) and cells[i] != "-" else False for i in range(nv)]
                for j, x in enumerate(free):          # the first free variable is the least significant position of the counter
                    v[x] = bool(m >> j & 1)
                allv.append("v" + "".join("1" if c else "0" for c in v))
            rest = allv[k:]
            want = ["P", str(len(rest)), ["S", rest[-1]] if rest else "N", ["S", rest[1]] if len(rest) > 1 else "N", "T"]
        if impl != model or (want is not None and impl != want):
            V.violations.append(violation(PID, st, "count / last / nth / size_hint of a partially consumed clause iterator disagree with the enumeration",
                                          oracle={"expected": sx_str(want) if want else None, "observed": sx_str(impl), "model": sx_str(model)},
                                          confirmed=(want is not None and impl != want), relation="(count, last, nth(1), size_hint ok) exact"))
        else:
            V.nontrivial.add(key_of(call))
        return
    if op == "iter_after_end":
        # every iterator, once exhausted, keeps answering None; the counts are those of the enumerations above
        machinery_guard(st)
        nodes = bdd_nodes(call[1])
        want = None
        if is_canonical(nodes)[0] and nodes[0][0] <= 16:
            nsat = raw_count(nodes)
            npaths = count_paths(nodes)
            want = ["L"] + [["P", str(n), "T"] for n in (nsat, npaths, nsat, npaths)]
        if impl != model or (want is not None and impl != want):
            V.violations.append(violation(PID, st, "an exhausted iterator yields again, or the number of items differs from the enumeration",
                                          oracle={"expected": sx_str(want) if want else None, "observed": sx_str(impl)},
                                          confirmed=(want is not None and impl != want), relation="(count, None after the end) x 4"))
        elif len(nodes) >= 3:
            V.nontrivial.add(key_of(call))
        return
    # ---------------- clause iterator
    if op == "valuations_empty":
        machinery_guard(st)
        if impl != ["L"] or model != ["L"]:
            V.violations.append(violation(PID, st, "ValuationsOfClauseIterator::empty() yields something", confirmed=impl != ["L"], relation="sequence exact"))
        return
    if op in ("valuations_unconstrained", "valuations_deprecated", "clause_valuations_clone"):
        # reduce to the clause iterator: unconstrained = empty clause; clone = prefix + rest
        cl, nv = ("p", int(call[1])) if op != "clause_valuations_clone" else (call[1], int(call[2]))
        machinery_guard(st)
        sample(V, st)
        V.count("clause_nv:%d" % nv)
        if op == "clause_valuations_clone":
            ok = isinstance(impl, list) and impl[0] == "P"
            items = (impl[1][1:] + impl[2][1:]) if ok else None
            k = int(call[3])
            ok = ok and len(impl[1][1:]) == min(k, len(items))
        else:
            ok = isinstance(impl, list)
            items = impl[1:] if ok else None
        bad = oracle_clause_iter(cl, nv, items) if ok else {"problem": "panic or malformed result"}
        if bad is not None or impl != model:
            V.violations.append(violation(PID, st, op + ": " + ("oracle: %s" % bad["problem"] if bad else "sequence differs from the model"),
                                          oracle=bad, confirmed=bad is not None, relation="sequence exact"))
            return
        if nv >= 1:
            V.nontrivial.add(key_of(call))
        return
    if op == "clause_valuations":
        cl, nv = call[1], int(call[2])
        cells = pv_cells(cl)
        V.count("clause_nv:%d" % nv)
        if any(i >= nv for i in cells):
            V.count("outside_property:clause_beyond_nv:" + ("PANIC" if impl == "PANIC" else "yields"))
            V.skipped += 1
            return
        machinery_guard(st)
        sample(V, st)
        if impl == "PANIC" or not isinstance(impl, list):
            V.violations.append(violation(PID, st, "clause iterator panicked on a clause inside nv", confirmed=True,
                                          oracle="panic on an input inside the property's quantifier", relation="sequence exact"))
            return
        bad = oracle_clause_iter(cl, nv, impl[1:]) if nv <= 12 else None
        if bad is not None or impl != model:
            V.violations.append(violation(PID, st, "valuations of a clause: " + ("oracle: %s" % bad["problem"] if bad else "sequence differs from the model"),
                                          oracle=bad, confirmed=bad is not None, relation="sequence exact"))
            return
        if 0 < len(cells) < nv:
            V.nontrivial.add(key_of(call))
        return
    b = bdd_nodes(call[1])
    nv = b[0][0]
    V.count("nv:%s" % (nv if nv <= 10 else "11+"))
    V.count("size:%s" % ("1-2" if len(b) < 3 else "3-6" if len(b) < 7 else "7-20" if len(b) < 21 else "21+"))
    ok, _why = is_canonical(b)
    V.count("operand:" + ("canonical" if ok else "non-canonical"))
    if op in ITER_OPS and has_redundant(b):
        V.count("outside_property:redundant_test_in_iterator")
        V.skipped += 1
        return
    machinery_guard(st)
    sample(V, st)
    # ---------------- owned iterators give the Bdd back
    if op == "owned_back":
        want = ["P", call[1], call[1]]
        if impl != want or model != want:
            V.violations.append(violation(PID, st, "owned iterator did not give back the unchanged Bdd", confirmed=impl != want,
                                          oracle={"expected": sx_str(want), "observed": sx_str(impl)}, relation="both returned arrays == operand array"))
            return
        if len(b) >= 3 and int(call[2]) >= 1:
            V.nontrivial.add(key_of(call))
        return
    if impl == "PANIC" or not isinstance(impl, list):
        V.violations.append(violation(PID, st, "enumeration panicked on a valid diagram", confirmed=True,
                                      oracle="panic on an input inside the property's quantifier", relation="sequence exact"))
        return
    items = impl[1:]
    bad = None
    if nv <= MAXO:
        bad = oracle_valuations(b, items) if op in ("sat_valuations", "into_sat_valuations") else oracle_clauses(b, items)
    if bad is None and op in ("sat_clauses", "into_sat_clauses", "to_dnf"):
        # the same set of clauses from the iterator and from to_dnf (same program)
        prev = _last.get(("clauses", sx_str(call[1])))
        if prev is not None and set(prev) != set(items):
            bad = {"problem": "sat_clauses and to_dnf yield different clause sets", "one": sorted(set(prev) ^ set(items))[0]}
        _last[("clauses", sx_str(call[1]))] = items
    if bad is None and op in ("sat_valuations", "into_sat_valuations"):
        prev = _last.get(("vals", sx_str(call[1])))
        if prev is not None and prev != items:
            bad = {"problem": "borrowed and owned valuation iterators yield different sequences"}
        _last[("vals", sx_str(call[1]))] = items
    if bad is not None or impl != model:
        V.violations.append(violation(PID, st, op + ": " + ("oracle: %s" % bad["problem"] if bad else "sequence differs from the model (set-level oracle passed)"),
                                      oracle=bad, confirmed=bad is not None, relation="sequence exact + set-level oracle"))
        return
    if len(b) >= 3 and len(items) >= 2:
        V.nontrivial.add(key_of(call))


# --------------------------------------------------------------------------------------------- extraction cross-check
def coq_bdd(x):
    return "[" + "; ".join("mkNode %d %d %d" % nd for nd in bdd_nodes(x)) + "]"


def coq_pv(a):
    return "[" + "; ".join({"-": "None", "0": "Some false", "1": "Some true"}[c] for c in a[1:]) + "]"


def coq_val(a):
    return "[" + "; ".join("true" if c == "1" else "false" for c in a[1:]) + "]"


def coq_list(items, f):
    return "[" + "; ".join(f(x) for x in items) + "]"


def coq_goal(call, model):
    """a Coq proposition stating that kernel evaluation of the model gives the extracted binary's answer (None: not covered)"""
    op = call[0]
    if op in ("sat_clauses", "into_sat_clauses") and isinstance(model, list):
        return "path_iter %s = Ok (%s : list pval)" % (coq_bdd(call[1]), coq_list(model[1:], coq_pv))
    if op in ("sat_valuations", "into_sat_valuations") and isinstance(model, list):
        return "sat_valuations_iter %s = Ok (%s : list (list bool))" % (coq_bdd(call[1]), coq_list(model[1:], coq_val))
    # the driver reports the faithful machines of Model/Dnf.v (clauses printed without trailing unset cells)
    if op in ("to_dnf", "to_cnf") and isinstance(model, list):
        return "match %s_faithful %s with Ok l => map pv_trim l | _ => [[None]] end = (%s : list pval)" % (op, coq_bdd(call[1]), coq_list(model[1:], coq_pv))
    # to_optimized_dnf: the step-faithful recursion of Model/OptDnf.v (C10)
    if op == "to_opt_dnf" and isinstance(model, list):
        return "match to_optimized_dnf %s with Ok l => map pv_trim l | _ => [[None]] end = (%s : list pval)" % (coq_bdd(call[1]), coq_list(model[1:], coq_pv))
    if op == "clause_valuations":
        if model == "PANIC":
            return "clause_iter %s %s = Panic" % (coq_pv(call[1]), call[2])
        if isinstance(model, list):
            return "clause_iter %s %s = Ok (%s : list (list bool))" % (coq_pv(call[1]), call[2], coq_list(model[1:], coq_val))
    if op in ("mk_dnf", "mk_cnf"):
        cs = coq_list(call[2][1:], coq_pv)
        if model == "PANIC":
            return "%s_faithful %s (%s : list pval) = Panic" % (op, call[1], cs)
        if is_bdd(model):
            return "%s_faithful %s (%s : list pval) = Ok %s" % (op, call[1], cs, coq_bdd(model))
    return None


def kernel_crosscheck(steps, limit=60, max_chars=4000):
    """re-evaluates a sample of steps with vm_compute inside coqc; the extracted binary must agree with the kernel"""
    import tempfile
    seen = {}
    for (cid, call, impl, model, aux) in steps:
        k = call[0]
        if seen.get(k, 0) >= limit // 6 + 1:
            continue
        g = coq_goal(call, model)
        if g is None or len(g) > max_chars:
            continue
        # prefer non-trivial cases
        if isinstance(model, list) and len(model) < 3 and seen.get(("t", k), 0) >= 2:
            continue
        if isinstance(model, list) and len(model) < 3:
            seen[("t", k)] = seen.get(("t", k), 0) + 1
        seen[k] = seen.get(k, 0) + 1
        seen.setdefault("goals", []).append(g)
    goals = seen.get("goals", [])[:limit]
    if not goals:
        return 0, 0
    lines = ["From Coq Require Import List NArith Bool. Import ListNotations.",
             "From BddVerif Require Import Model.Bdd Model.Apply Model.Ops Model.Paths Model.Valuation Model.Dnf Model.OptDnf.", "Open Scope N_scope."]
    for i, g in enumerate(goals):
        lines.append("Goal %s. Proof. vm_compute. reflexivity. Qed." % g)
    d = tempfile.mkdtemp(prefix="xchk", dir=os.path.join(VERIF, ".work"))
    try:
        path = os.path.join(d, "cases.v")
        open(path, "w").write("\n".join(lines) + "\n")
        rc, out, err = run_cmd(["timeout", "600", "coqc", "-noglob", "-Q", COQ_DIR, "BddVerif", path], cwd=d, timeout=700)
        if rc != 0:
            raise RuntimeError("extracted model disagrees with vm_compute (or the cross-check file does not compile): " + (out + err)[-1500:])
    finally:
        import shutil
        shutil.rmtree(d, ignore_errors=True)
    return len(goals), len(goals)


_cross = [0, 0]


def finalize(steps, V):
    n, a = kernel_crosscheck(steps)
    _cross[0], _cross[1] = n, a


def extra(V):
    return {"vm_compute_crosscheck": {"cases": _cross[0], "agree": _cross[1]}}
