"""C05 — size-limited and dry-run operators agree with the unrestricted operator; cmp_implies."""
from common import *
from props.base import *

PID = "C05"
RULE = ("binary_op_with_limit / fused_binary_flip_op_with_limit for EVERY limit 0..size+2 of the unrestricted result; check_binary_op / "
        "check_fused_binary_flip_op for every limit 0..count+2; operands: all pairs of functions of <=2 variables (sampled connectives), random "
        "operands over 3..8 variables with flips, non-canonical operands; cmp_implies on all pairs of a pool. relations: the Option<Bdd> equals "
        "the model's exactly (Some r iff |r|<=limit and then r identical to the unrestricted result, which is also obtained from the implementation "
        "in the same program); dry run: flag == !is_false(result), count >= decision nodes of the result, None iff the unlimited count exceeds the "
        "limit (the exact count is recorded, not compared); cmp_implies == inclusion of truth tables. non-trivial = result >=3 nodes. "
        "LARGE operands (model side: the proved-equal fast twins of Model/ApplyFast2.v, Proofs/ApplyFast2.v): a random function of 20 "
        "variables (>70,000 nodes, so pointers and store sizes exceed 65,536) against a small function of 2..3 of the same variables "
        "(large operand on the right; thorough: also on the left, with flips), connective with a large result whose exact size n is "
        "known in advance (canonical array of the expected truth table, built independently in Python): limits n-1, n, n+1 (thorough: "
        "also 1, 2, 65535, 65536, 65537, n/2, n+5000); dry runs with limits c-1, c, c+1 around the task count c of an independent "
        "Python simulation (thorough: also 0, 65535, 65536, c/2, c+100000) and the unlimited dry run; BOTH operands large with "
        "|a|*|b| > 2^32: the pairing function AND_i (x_i <=> x_{16+i}) over 32 variables (196,607 nodes) against itself under and / xor "
        "(thorough: or, and_not, and against the differently paired variant), limits around the operand size and dry-run limits 65536, "
        "196604, 196605, 10^6; limits that do not fit 32 bits (2^32, 2^32+1, 2^40, 2^63, 2^64-1, ...) on small operands; MEDIUM operands (random "
        "functions of 10..12 variables, 250..700 nodes) with limits around the result size, served by the fast twins in the normal "
        "run and re-run with the reference definitions in the engine cross-check")


# ----------------------------------------------------------------------------- large operands
BIG_NV = 20


def as_bool(p):
    return False if p == 0 else True if p == 1 else None


def table_lookup2(t, l, r):
    oi = lambda x: 0 if x is None else 2 if x else 1
    c = t[2 + 3 * oi(l) + oi(r)]
    return None if c == "-" else c == "1"


def py_dry_count(a, b, fa, fb, t):
    """independent simulation of the dry run over raw arrays: number of distinct non-terminal task pairs reachable from
    the root pair (the output flip only changes the visiting order, not the set)"""
    seen = set()
    stack = [(len(a) - 1, len(b) - 1)]
    while stack:
        l, r = stack.pop()
        if table_lookup2(t, as_bool(l), as_bool(r)) is not None or (l, r) in seen:
            continue
        seen.add((l, r))
        lv, rv = a[l][0], b[r][0]
        dv = min(lv, rv)
        if lv != dv:
            ll, lh = l, l
        elif fa == lv:
            ll, lh = a[l][2], a[l][1]
        else:
            ll, lh = a[l][1], a[l][2]
        if rv != dv:
            rl, rh = r, r
        elif fb == rv:
            rl, rh = b[r][2], b[r][1]
        else:
            rl, rh = b[r][1], b[r][2]
        stack.append((ll, rl))
        stack.append((lh, rh))
    return len(seen)


def limit_programs(a, b, t, fa, fb, fo, limits, dry_limits):
    """two programs (so that they run on different shards): the limited operator, the dry run; each with the unrestricted
    result first"""
    head = [["a", "id", bdd_sx(a)], ["b", "id", bdd_sx(b)],
            ["full", "fbin", t, optvar(fa), optvar(fb), optvar(fo), "$a", "$b"]]
    p1 = list(head)
    for lim in limits:
        p1.append(["l%d" % lim, "fbinlim", str(lim), t, optvar(fa), optvar(fb), optvar(fo), "$a", "$b"])
    p2 = list(head) + [["dinf", "dry", "100000000", t, optvar(fa), optvar(fb), optvar(fo), "$a", "$b"]]
    for lim in dry_limits:
        p2.append(["d%d" % lim, "dry", str(lim), t, optvar(fa), optvar(fb), optvar(fo), "$a", "$b"])
    return [p1, p2]


BIG_CONNS = [(False, True, True, False), (True, False, False, True), (False, False, False, True), (False, True, True, True),
             (True, True, False, True), (False, False, True, False), (False, True, False, False), (True, False, True, True)]


def large_programs(rng, tier):
    progs = []
    nfam = 1 if tier == "quick" else 6
    for i in range(nfam):
        nv = BIG_NV
        tb = big_random_tt(rng, nv)
        big = big_bdd_from_tt(nv, tt_to_bytes(nv, tb))
        assert len(big) > 70000 and is_canonical(big)[0], "large-operand generator is broken"
        while True:
            small, ts = small_fn_tt(rng, nv)
            conn = BIG_CONNS[i % 2] if tier == "quick" else rng.choice(BIG_CONNS)
            if tier == "quick" or i % 2 == 0:
                fa = fb = fo = None
            else:
                fa, fb, fo = (rand_optvar(rng, nv, 0.3) for _ in range(3))
            big_left = tier != "quick" and i % 3 == 2
            (a, ta), (b, tb2) = ((big, tb), (small, ts)) if big_left else ((small, ts), (big, tb))
            expected = tt_flip(nv, tt_conn2(nv, conn, tt_flip(nv, ta, fa), tt_flip(nv, tb2, fb)), fo)
            n = len(big_bdd_from_tt(nv, tt_to_bytes(nv, expected)))
            if n > 66000:
                break
        t = partial_table(rng, conn)
        c = py_dry_count(a, b, fa, fb, t)
        limits = [n - 1, n, n + 1]
        dry_limits = [c - 1, c, c + 1]
        if tier != "quick":
            limits = [1, 2, 65535, 65536, 65537, n // 2] + limits + [n + 5000]
            dry_limits = [0, 65535, 65536, c // 2] + dry_limits + [c + 100000]
        progs += limit_programs(a, b, t, fa, fb, fo, limits, dry_limits)
    # BOTH operands far above 65,536 nodes, with |a| * |b| > 2^32 (a task identified by its position in the left x right
    # table no longer fits 32 bits): the pairing function AND_i (x_i <=> x_{16+i}) over 32 variables, 3*2^16-1 = 196,607 nodes,
    # against itself / its complement (tasks stay near the diagonal: about 200,000), thorough: against the differently
    # paired variant as well.  The result and the task count are not pre-computed in Python: the limits straddle the
    # operand size (the result of `a and a`, `a or a` is a; of `a and_not a` / `a xor a` is false).
    pa = pairing_bdd(16)
    assert len(pa) == 196607
    cases = [(pa, pa, (False, False, False, True)), (pa, pa, (False, True, True, False))]
    if tier != "quick":
        pr = pairing_bdd(16, reversed_partner=True)
        cases += [(pa, pa, (False, True, True, True)), (pa, pa, (False, False, True, False)), (pa, pr, (False, False, False, True)),
                  (pr, pa, (False, True, True, False))]
    for a, b, conn in cases:
        t = partial_table(rng, conn)
        progs += limit_programs(a, b, t, None, None, None, [1, 196606, 196607], [65536, 196604, 196605, 1000000])
    # medium operands: both random functions of 10..12 variables
    for i in range(2 if tier == "quick" else 20):
        nv = rng.choice([10, 11, 12])
        ta, tb = big_random_tt(rng, nv), big_random_tt(rng, nv)
        a, b = big_bdd_from_tt(nv, tt_to_bytes(nv, ta)), big_bdd_from_tt(nv, tt_to_bytes(nv, tb))
        conn = rng.choice(BIG_CONNS)
        fa, fb, fo = (rand_optvar(rng, nv, 0.5) for _ in range(3))
        expected = tt_flip(nv, tt_conn2(nv, conn, tt_flip(nv, ta, fa), tt_flip(nv, tb, fb)), fo)
        n = len(big_bdd_from_tt(nv, tt_to_bytes(nv, expected)))
        t = partial_table(rng, conn)
        c = py_dry_count(a, b, fa, fb, t)
        progs += limit_programs(a, b, t, fa, fb, fo, [max(0, n - 1), n, n + 1, n // 2], [max(0, c - 1), c, c + 1, c // 2])
    return progs


def programs(rng, tier):
    progs = []

    def family(a, b, t, fa, fb, fo, maxlim=None):
        prog = [["a", "id", bdd_sx(a)], ["b", "id", bdd_sx(b)],
                ["full", "fbin", t, optvar(fa), optvar(fb), optvar(fo), "$a", "$b"]]
        # limits: the harness cannot branch on a result, so sweep a range that certainly covers size+2
        top = maxlim if maxlim is not None else (len(a) * len(b) + 4)
        for lim in range(0, top + 1):
            prog.append(["l%d" % lim, "fbinlim", str(lim), t, optvar(fa), optvar(fb), optvar(fo), "$a", "$b"])
        prog.append(["dinf", "dry", "100000000", t, optvar(fa), optvar(fb), optvar(fo), "$a", "$b"])
        for lim in range(0, top + 1):
            prog.append(["d%d" % lim, "dry", str(lim), t, optvar(fa), optvar(fb), optvar(fo), "$a", "$b"])
        return prog

    for nv in (1, 2):
        fs = all_functions(nv)
        pairs = [(a, b) for a in fs for b in fs]
        if tier == "quick" and len(pairs) > 60:
            pairs = rng.sample(pairs, 60)
        for a, b in pairs:
            progs.append(family(a, b, partial_table(rng, rng.choice(CONNS)), None, None, None, maxlim=8))
    nrand = 120 if tier == "quick" else 3000
    for _ in range(nrand):
        nv = rng.choice([3, 4, 4, 5, 6, 8])
        a, b = rand_operand(rng, nv, 0.15), rand_operand(rng, nv, 0.15)
        fa, fb, fo = (rand_optvar(rng, nv, 0.6) for _ in range(3))
        if rng.random() < 0.12:      # the same operand (one object in the harness) on both sides, equal or different flips
            b = a
            if rng.random() < 0.5:
                fa = fb = rng.randrange(nv)
        progs.append(family(a, b, partial_table(rng, rng.choice(CONNS)), fa, fb, fo, maxlim=min(40, len(a) * len(b) + 4)))
    # product-like blow-up: two symmetric functions over INTERLEAVED disjoint supports (exactly-k / at-least-k of the even resp.
    # odd variables): the conjunction / disjunction has about |a|*|b|/k nodes, far more than both operands together; limits in the
    # whole window from below |a|+|b| up to beyond the result size (sampled when the window is long)
    for _ in range(8 if tier == "quick" else 120):
        half = rng.choice([3, 4, 5, 6]) if tier == "quick" else rng.choice([3, 4, 5, 6, 8, 10])
        nv = 2 * half
        ka, kb = rng.randint(1, half - 1), rng.randint(1, half - 1)
        exact = rng.random() < 0.6
        sym = lambda vs, k: bdd_from_fn(nv, vs, lambda a, vs=vs, k=k: (sum(a[x] for x in vs) == k) if exact else (sum(a[x] for x in vs) >= k))
        a, b = sym(list(range(0, nv, 2)), ka), sym(list(range(1, nv, 2)), kb)
        conn = rng.choice([(False, False, False, True), (False, True, True, True), (False, True, True, False), (True, False, False, True)])
        t = partial_table(rng, conn)
        ta, tb = raw_tt(a), raw_tt(b)
        n = len(bdd_from_tt(nv, list(range(nv)), [conn[2 * int(x) + int(y)] for x, y in zip(ta, tb)])) if nv <= 12 else None
        lo = len(a) + len(b) - 2
        hi = (n if n is not None else 40 * (len(a) + len(b))) + 2
        window = list(range(max(0, lo), hi + 1))
        if len(window) > 60:
            window = sorted(set(rng.sample(window, 50) + [lo, 2 * (len(a) + len(b)), 2 * (len(a) + len(b)) + 1, hi - 3, hi - 2, hi - 1, hi]))
        prog = [["a", "id", bdd_sx(a)], ["b", "id", bdd_sx(b)], ["full", "fbin", t, "N", "N", "N", "$a", "$b"],
                ["dinf", "dry", "100000000", t, "N", "N", "N", "$a", "$b"]]
        for lim in window:
            if rng.random() < 0.7:
                prog.append(["l%d" % lim, "fbinlim", str(lim), t, "N", "N", "N", "$a", "$b"])
            else:
                prog.append(["l%d" % lim, "binlim", str(lim), t, "$a", "$b"])
        progs.append(prog)
    # dry runs and limited operators under input flips on operands that SKIP levels differently: one operand over the upper
    # variables only, the other over all, the flip variable inside the support of the skipping operand (the order in which "is
    # this the decision variable" and "is this the flip variable" are asked matters exactly when a node tests the flip
    # variable while the other operand is still at a smaller level)
    for _ in range(150 if tier == "quick" else 4000):
        nv = rng.choice([3, 4, 5, 6])
        cut = rng.randrange(1, nv)
        up = sorted(rng.sample(range(cut, nv), rng.randrange(1, nv - cut + 1)))
        a = bdd_from_tt(nv, up, [rng.random() < 0.5 for _ in range(1 << len(up))])
        allv = sorted(set(rng.sample(range(nv), rng.randrange(1, nv + 1))) | {rng.randrange(0, cut)})
        b = bdd_from_tt(nv, allv, [rng.random() < 0.5 for _ in range(1 << len(allv))])
        if len(a) < 3 or len(b) < 3:
            continue
        swap = rng.random() < 0.5
        f_skip = rng.choice(up)
        f_other = rand_optvar(rng, nv, 0.5)
        fo = rand_optvar(rng, nv, 0.7)
        x, y, fa, fb = (b, a, f_other, f_skip) if swap else (a, b, f_skip, f_other)
        t = partial_table(rng, rng.choice(CONNS))
        prog = [["a", "id", bdd_sx(x)], ["b", "id", bdd_sx(y)], ["full", "fbin", t, optvar(fa), optvar(fb), optvar(fo), "$a", "$b"],
                ["dinf", "dry", "100000000", t, optvar(fa), optvar(fb), optvar(fo), "$a", "$b"]]
        for lim in (0, 1, 2, 3, 5, 8):
            prog.append(["d%d" % lim, "dry", str(lim), t, optvar(fa), optvar(fb), optvar(fo), "$a", "$b"])
            prog.append(["l%d" % lim, "fbinlim", str(lim), t, optvar(fa), optvar(fb), optvar(fo), "$a", "$b"])
        progs.append(prog)
    # limits that do not fit 32 bits (the result is small: every such limit must answer Some / the count)
    for _ in range(12 if tier == "quick" else 300):
        nv = rng.choice([2, 3, 4, 5])
        a, b = rand_operand(rng, nv, 0.1), rand_operand(rng, nv, 0.1)
        t = partial_table(rng, rng.choice(CONNS))
        fa, fb, fo = (rand_optvar(rng, nv, 0.5) for _ in range(3))
        prog = [["a", "id", bdd_sx(a)], ["b", "id", bdd_sx(b)], ["full", "fbin", t, optvar(fa), optvar(fb), optvar(fo), "$a", "$b"],
                ["dinf", "dry", "100000000", t, optvar(fa), optvar(fb), optvar(fo), "$a", "$b"]]
        for lim in rng.sample([1 << 32, (1 << 32) + 1, (1 << 32) + 2, (1 << 33) + 3, 1 << 40, (1 << 48) + 5, 1 << 63, (1 << 64) - 2, (1 << 64) - 1], 4):
            prog.append(["l%d" % lim, "fbinlim", str(lim), t, optvar(fa), optvar(fb), optvar(fo), "$a", "$b"])
            prog.append(["d%d" % lim, "dry", str(lim), t, optvar(fa), optvar(fb), optvar(fo), "$a", "$b"])
        progs.append(prog)
    # plain (unfused) entry points
    P = Prog()
    for _ in range(200 if tier == "quick" else 5000):
        nv = rng.choice([2, 3, 4, 5])
        a, b = rand_operand(rng, nv, 0.1), rand_operand(rng, nv, 0.1)
        t = partial_table(rng, rng.choice(CONNS))
        P.add(["binlim", str(rng.randrange(0, 12)), t, bdd_sx(a), bdd_sx(b)])
        P.add(["drybin", str(rng.randrange(0, 12)), t, bdd_sx(a), bdd_sx(b)])
    # large / medium operands last (the vm_compute cross-check samples the first small steps)
    return progs + P.progs + cmp_implies_programs(rng, tier) + large_programs(rng, tier)


def cmp_implies_programs(rng, tier):
    """operand pairs for cmp_implies (shared with C18): small exhaustive-ish pairs, medium comparable pairs of different shape"""
    P = Prog()
    # cmp_implies
    for _ in range(400 if tier == "quick" else 10000):
        nv = rng.choice([0, 1, 2, 3, 4])
        a = random_bdd(rng, nv)
        b = random_bdd(rng, nv) if rng.random() < 0.7 else a
        if rng.random() < 0.3 and nv:
            # b := a \/ something, so that implication holds often
            extra = raw_tt(random_bdd(rng, nv))
            b = bdd_from_tt(nv, list(range(nv)), [x or y for x, y in zip(raw_tt(a), extra)])
        if rng.random() < 0.05:
            b = random_bdd(rng, nv + 1)
        P.add(["cmp_implies", bdd_sx(a), bdd_sx(b)])
    # constants in non-canonical form (a valid diagram of a constant with redundant decision nodes: `is_true()`/`is_false()`,
    # which look at the node count only, do not recognise it) against canonical constants and ordinary functions
    def nc_constant(nv, value):
        nodes = [(nv, 0, 0), (nv, 1, 1)]
        t = 1 if value else 0
        vs = sorted(rng.sample(range(nv), rng.randint(1, min(3, nv))), reverse=True)
        cur = t
        for x in vs:
            nodes.append((x, cur, cur) if cur >= 2 or rng.random() < 0.6 else (x, t, t))
            cur = len(nodes) - 1
        return nodes
    for _ in range(60 if tier == "quick" else 1500):
        nv = rng.choice([1, 2, 3, 4, 6])
        v1, v2 = rng.random() < 0.5, rng.random() < 0.5
        const = lambda v: [(nv, 0, 0), (nv, 1, 1)] if v else [(nv, 0, 0)]
        others = [const(v2), nc_constant(nv, v2), random_bdd(rng, nv)]
        a, b = nc_constant(nv, v1), rng.choice(others)
        P.add(["cmp_implies", bdd_sx(a), bdd_sx(b)])
        P.add(["cmp_implies", bdd_sx(b), bdd_sx(a)])
        P.add(["cmp_implies", bdd_sx(const(v1)), bdd_sx(nc_constant(nv, v2))])
    # many variables, a STRICT inclusion whose two sides have the same number of models as doubles (the difference is far below
    # one ulp of 2^(n-1)): a literal against the literal plus one far-away cube; also the reverse order and the equal pair
    for _ in range(12 if tier == "quick" else 300):
        nv = rng.choice([60, 64, 80, 120, 300, 1000])
        ncube = rng.choice([56, 58, 70, nv - 1])
        cube_vars = sorted(rng.sample(range(1, nv), min(ncube, nv - 1)))
        a = [(nv, 0, 0), (nv, 1, 1), (0, 0, 1)]                       # x0
        b = [(nv, 0, 0), (nv, 1, 1)]                                   # x0 or (not x0 and all cube_vars): a chain below x0's low edge
        cur = 1
        for v in reversed(cube_vars):
            b.append((v, 0, cur))
            cur = len(b) - 1
        b.append((0, cur, 1))
        assert is_canonical(b)[0]
        for p, q in ((a, b), (b, a), (b, b)):
            P.add(["cmp_implies", bdd_sx(p), bdd_sx(q)])
    # cmp_implies on medium-sized, structurally different but comparable operands
    for _ in range(150 if tier == "quick" else 4000):
        nv = rng.choice([5, 6, 7, 8, 9])
        a = random_bdd(rng, nv, max_support=nv, density=rng.choice([0.2, 0.4, 0.6]))
        ta = raw_tt(a)
        extra = raw_tt(random_bdd(rng, nv, max_support=nv, density=rng.choice([0.1, 0.3])))
        k = rng.random()
        if k < 0.4:
            b = bdd_from_tt(nv, list(range(nv)), [x or y for x, y in zip(ta, extra)])
        elif k < 0.7:
            b = bdd_from_tt(nv, list(range(nv)), [x and y for x, y in zip(ta, extra)])
        elif k < 0.8:
            b = a
        else:
            b = random_bdd(rng, nv, max_support=nv)
        P.add(["cmp_implies", bdd_sx(a), bdd_sx(b)])
    # comparable operands over interleaved, disjoint supports: the number of (left,right) task pairs is ~|a|*|c|
    for _ in range(80 if tier == "quick" else 2000):
        nv = rng.choice([6, 8, 10])
        va = [x for x in range(nv) if x % 2 == 0]
        vc = [x for x in range(nv) if x % 2 == 1]
        ta = [rng.random() < 0.5 for _ in range(1 << len(va))]
        tc = [rng.random() < 0.4 for _ in range(1 << len(vc))]
        a = bdd_from_tt(nv, va, ta)
        fa = lambda asg: ta[sum((1 << (len(va) - 1 - i)) for i, x in enumerate(va) if asg[x])]
        fc = lambda asg: tc[sum((1 << (len(vc) - 1 - i)) for i, x in enumerate(vc) if asg[x])]
        k = rng.random()
        if k < 0.5:
            b = bdd_from_fn(nv, list(range(nv)), lambda asg: fa(asg) or fc(asg))
        elif k < 0.8:
            b = bdd_from_fn(nv, list(range(nv)), lambda asg: fa(asg) and fc(asg))
        else:
            b = bdd_from_tt(nv, vc, tc)
        if rng.random() < 0.5:
            a, b = b, a
        P.add(["cmp_implies", bdd_sx(a), bdd_sx(b)])
    # comparable pairs of different shape: (a&b, a|c), (a&~c, b|a), bad-ordering pairings x_i & x_{i+k}
    for _ in range(150 if tier == "quick" else 4000):
        nv = rng.choice([8, 10, 10, 12])
        if rng.random() < 0.3:
            k = nv // 2
            pairs = [(i, i + k) for i in range(k) if rng.random() < 0.8]
            fa = lambda asg, pairs=pairs: any(asg[i] and asg[j] for i, j in pairs)
            fb = lambda asg, k=k: all(asg[i] != asg[nv - 1 - i] for i in range(min(3, k)))
            fc = fb
        else:
            ta, tb, tc = (raw_tt(random_bdd(rng, nv, max_support=4)) for _ in range(3))
            idx = lambda asg: sum((1 << (nv - 1 - x)) for x in range(nv) if asg[x])
            fa = lambda asg, ta=ta: ta[idx(asg)]
            fb = lambda asg, tb=tb: tb[idx(asg)]
            fc = lambda asg, tc=tc: tc[idx(asg)]
        shape = rng.randrange(4)
        if shape == 0:
            f1, f2 = (lambda g: fa(g) and fb(g)), (lambda g: fa(g) or fc(g))
        elif shape == 1:
            f1, f2 = (lambda g: fa(g) and not fc(g)), (lambda g: fb(g) or fa(g))
        elif shape == 2:
            f1, f2 = fa, (lambda g: fa(g) or fc(g))
        else:
            f1, f2 = (lambda g: fa(g) and fb(g) and fc(g)), (lambda g: fa(g) == fb(g))
        a = bdd_from_fn(nv, list(range(nv)), f1)
        b = bdd_from_fn(nv, list(range(nv)), f2)
        if rng.random() < 0.5:
            a, b = b, a
        P.add(["cmp_implies", bdd_sx(a), bdd_sx(b)])
    # random DNF/XOR-of-cubes functions (sparse, structurally unrelated but comparable): (a, a|b), (a&b, a), (a&b, a|c), (a&~c, b|a)
    def rand_cubes_fn(nv, k):
        cl = []
        for _ in range(k):
            vs = [rng.randrange(nv) for _ in range(rng.randrange(2, 5))]
            cl.append([(x, rng.random() < 0.5) for x in vs])
        xor = [rng.random() < 0.3 for _ in cl]

        def f(asg):
            r = False
            for c, x in zip(cl, xor):
                val = all(asg[v] == b for v, b in c)
                r = (r != val) if x else (r or val)
            return r
        return f

    for _ in range(900 if tier == "quick" else 20000):
        nv = rng.choice([7, 10, 10])
        fa, fb, fc = rand_cubes_fn(nv, rng.randrange(1, 2 * nv)), rand_cubes_fn(nv, rng.randrange(1, 2 * nv)), rand_cubes_fn(nv, 3)
        sh = rng.randrange(4)
        if sh == 0:
            f1, f2 = fa, (lambda g: fa(g) or fb(g))
        elif sh == 1:
            f1, f2 = (lambda g: fa(g) and fb(g)), fa
        elif sh == 2:
            f1, f2 = (lambda g: fa(g) and fb(g)), (lambda g: fa(g) or fc(g))
        else:
            f1, f2 = (lambda g: fa(g) and not fc(g)), (lambda g: fb(g) or fa(g))
        a = bdd_from_fn(nv, list(range(nv)), f1)
        b = bdd_from_fn(nv, list(range(nv)), f2)
        if rng.random() < 0.5:
            a, b = b, a
        P.add(["cmp_implies", bdd_sx(a), bdd_sx(b)])
    # logically equal / comparable operands where one side is a valid NON-canonical array of the same function
    for _ in range(150 if tier == "quick" else 3000):
        nv = rng.choice([2, 3, 4, 5])
        a = random_bdd(rng, nv)
        b = noncanonical_variant(rng, a)
        k = rng.random()
        if k < 0.3:
            a, b = b, a
        elif k < 0.45:
            b = noncanonical_variant(rng, b)
        if is_wf(a) and is_wf(b):
            P.add(["cmp_implies", bdd_sx(a), bdd_sx(b)])
    return P.progs


_full = {}
_fullmodel = {}
_dinf = {}
_minf = {}


def judge(st, V):
    cid, call, impl, model, aux = st
    op = call[0]
    if op == "id":
        return
    V.evaluations += 1
    V.count("op:" + op)
    if impl == "SKIP" or not operands_wf(call):
        V.skipped += 1
        return
    if op == "cmp_implies":
        a, b = bdd_nodes(call[1]), bdd_nodes(call[2])
        if a[0][0] != b[0][0]:
            want = "N"
        else:
            le, ge = raw_implies(a, b), raw_implies(b, a)      # memoised product walk over the raw arrays: any variable count
            want = ["S", "EQ"] if le and ge else ["S", "LT"] if le else ["S", "GT"] if ge else "N"
        machinery_guard(st)
        if impl != want or impl != model:
            V.violations.append(violation(PID, st, "cmp_implies does not order by implication", confirmed=(impl != want),
                                          oracle={"expected": sx_str(want), "observed": sx_str(impl)}, relation="exact vs truth-table inclusion"))
        elif len(a) >= 3 and len(b) >= 3:
            V.nontrivial.add(key_of(call))
        return
    machinery_guard(st)
    sample(V, st)
    if any(is_bdd(x) and len(x) > 3 * 65536 for x in call[1:]):
        V.count("large-operand(>65536 nodes):" + op)
    if op == "fbin":
        _full[sx_str(call[1:])] = impl
        _fullmodel[sx_str(call[1:])] = model
        if not semantic_agree(impl, model, aux):
            V.skipped += 1   # a broken unrestricted operator is C01/C04's business; the limited variants are compared with the model
        return
    if op in ("fbinlim", "binlim"):
        V.count("limit:" + ("0" if call[1] == "0" else "small" if int(call[1]) < 4 else "large"))
        if impl != model:
            full = _full.get(sx_str(call[2:])) if op == "fbinlim" else None
            desc = {"limit": call[1], "observed": sx_str(impl), "expected": sx_str(model),
                    "unrestricted_result_of_the_implementation": sx_str(full) if full is not None else None}
            # confirmed against the implementation's own unrestricted result when available
            conf = True
            if full is not None and is_bdd(full):
                n = len(bdd_nodes(full))
                want = ["S", full] if n <= int(call[1]) and int(call[1]) > 0 else "N"
                conf = impl != want
                desc["expected_from_impl_unrestricted"] = sx_str(want)
            V.violations.append(violation(PID, st, "limited operator disagrees: Some(r) exactly when |r| <= limit, r identical to the unrestricted result",
                                          oracle=desc, confirmed=conf, relation="Option<Bdd> exact"))
            return
        mb = unwrap_bdd(model)
        if mb is not None and len(bdd_nodes(mb)) >= 3:
            V.nontrivial.add(key_of(call))
        return
    if op in ("dry", "drybin"):
        # relation: flag exact; None iff the implementation's own unlimited count exceeds the limit;
        # count >= decision nodes of the result (the exact count is recorded, not compared)
        if model == "PANIC" or impl == "PANIC":
            if model != impl:
                V.violations.append(violation(PID, st, "dry run panic behaviour differs", confirmed=(impl == "PANIC"), relation="panic iff model panics"))
            return
        key = sx_str(call[2:])
        if op == "dry" and call[1] == "100000000":
            if impl != "N":
                _dinf[key] = int(impl[1][2])
            if model != "N":
                _minf[key] = (model[1][1], int(model[1][2]))
        own = _dinf.get(key) if op == "dry" else None
        want_none = (own > int(call[1])) if own is not None else (model == "N")
        if (impl == "N") != want_none:
            V.violations.append(violation(PID, st, "dry run returns None exactly when the task count exceeds the limit",
                                          oracle={"limit": call[1], "observed": sx_str(impl), "model": sx_str(model),
                                                  "own_unlimited_count": own}, confirmed=True, relation="None iff count > limit"))
            return
        if impl == "N":
            return
        iflag, icount = impl[1][1], int(impl[1][2])
        if model != "N":
            mflag, mcount = model[1][1], int(model[1][2])
        elif key in _minf:
            mflag, mcount = _minf[key]
        else:
            V.skipped += 1
            return
        full = _fullmodel.get(key) if op == "dry" else None
        if iflag != mflag:
            V.violations.append(violation(PID, st, "dry run non-emptiness flag differs from !result.is_false()",
                                          oracle={"observed_flag": iflag, "expected_flag": mflag,
                                                  "unrestricted_result": sx_str(full) if full is not None else None}, confirmed=True, relation="flag exact"))
            return
        if full is not None and is_bdd(full):
            dec = max(0, len(bdd_nodes(full)) - 2)
            if icount < dec:
                V.violations.append(violation(PID, st, "dry run task count is below the number of decision nodes of the result",
                                              oracle={"count": icount, "decision_nodes": dec, "unrestricted_result": sx_str(full)}, confirmed=True,
                                              relation="count >= decision nodes"))
                return
        if icount != mcount:
            V.count("count_differs_from_model")
        if mcount >= 2:
            V.nontrivial.add(key_of(call))
