"""C18 — valuation types and comparators obey their equality/ordering contracts."""
from common import *
from props.base import *

PID = "C18"
CROSSCHECK = False
RULE = ("partial valuations are passed as construction HISTORIES (start: empty/default/From<BddValuation>/from_values; steps: set_value, unset_value, "
        "IndexMut) so the library's own padding is what is compared: every set/unset history of length <=4 (quick) / <=5 (thorough) over variables "
        "0..2 plus the padding variable 6 is hashed and observed (to_values, cardinality, last_fixed_variable, is_empty, get_value/Index/has_value, "
        "TryFrom, round trips); every ordered pair of the distinct stored vectors reached (121), each time through freshly drawn histories, is "
        "compared with ==, != and extends; every total valuation of <=3 variables x every stored vector for BddValuation::extends; every total "
        "valuation of <=6 variables for the conversions (From, TryFrom, to_values, Bdd::from, mk_conjunctive_clause); random mixed histories over "
        "variables 0..9 and (rarely) 65535; comparators on all ordered pairs of a pool of Bdds with mixed variable counts (constants, literals, "
        "random functions, non-canonical valid variants, the same function over different counts) together with exact_cardinality of each. "
        "relation: booleans, orderings, Option/Result shapes, value lists and the recorded Hasher stream equal the model's exactly, and equal the "
        "independent oracle on the underlying finite maps (==: same map; extends: inclusion of maps; hash: canonical encoding of the map, checked "
        "injective over all maps seen; conversions: round trips; cmp_size/cmp_structural/cmp_cardinality(_strict)/cmp_implies vs. Python on raw arrays "
        "and truth tables; cmp_cardinality also vs. the implementation's own exact_cardinality); order laws (reflexive, antisymmetric, transitive, "
        "total; Equal <-> identical arrays for cmp_structural) on all pairs and triples of the pool. Total valuations (BddValuation): random histories "
        "all_false/all_true/new then set/clear/flip_value/set_value/IndexMut over 0..300 variables incl. indices beyond the vector (panic), read "
        "back with value()/Index/vector()/num_vars() against the model (Model/Alias.v val_run) and a Python list simulation. TryFrom<BddPartialValuation> depends on the "
        "stored length (a padded valuation is rejected): compared with the model exactly, Ok results checked against the map. "
        "non-trivial = some fixed variable in an operand (pairs: two different histories) / both Bdds >=3 nodes; distinct by sha256 of the step")

OPS_SMALL = [["S", str(x), c] for x in (0, 1, 2) for c in "TF"] + [["U", str(x)] for x in (0, 1, 2, 6)] + [["S", "6", "T"]]


# ----------------------------------------------------------------------------- generation helpers
def sim_raw(hist):
    """stored vector under the padding behaviour the generator EXPECTS (used only to choose representatives; never to judge)"""
    start, ops = hist[1], hist[2:]
    cells = []

    def put(x, c):
        while len(cells) <= x:
            cells.append(None)
        cells[x] = c
    if isinstance(start, list) and start[0] == "V":
        cells = [ch == "1" for ch in start[1][1:]]
    elif isinstance(start, list) and start[0] == "F":
        for p in start[1][1:]:
            put(int(p[1]), p[2] == "T")
    for o in ops:
        if o[0] == "S":
            put(int(o[1]), o[2] == "T")
        elif o[0] == "U":
            put(int(o[1]), None)
        else:
            put(int(o[1]), None if o[2] == "N" else o[2][1] == "T")
    return tuple(cells)


def fmap(hist):
    """the finite map var -> bool denoted by a history (independent of any padding)"""
    start, ops = hist[1], hist[2:]
    d = {}
    if isinstance(start, list) and start[0] == "V":
        d = {i: ch == "1" for i, ch in enumerate(start[1][1:])}
    elif isinstance(start, list) and start[0] == "F":
        for p in start[1][1:]:
            d[int(p[1])] = p[2] == "T"
    for o in ops:
        if o[0] == "S":
            d[int(o[1])] = o[2] == "T"
        elif o[0] == "U":
            d.pop(int(o[1]), None)
        elif o[2] == "N":
            d.pop(int(o[1]), None)
        else:
            d[int(o[1])] = o[2][1] == "T"
    return d


def rand_hist(rng, maxvar=9, maxlen=8):
    k = rng.random()
    if k < 0.5:
        start = rng.choice(["E", "D"])
    elif k < 0.75:
        start = ["V", "v" + "".join(rng.choice("01") for _ in range(rng.randrange(0, 6)))]
    else:
        start = ["F", ["L"] + [["P", str(rng.randrange(0, maxvar + 1)), rng.choice("TF")] for _ in range(rng.randrange(0, 5))]]
    ops = []
    for _ in range(rng.randrange(0, maxlen + 1)):
        x = str(rng.randrange(0, maxvar + 1))
        r = rng.random()
        if r < 0.45:
            ops.append(["S", x, rng.choice("TF")])
        elif r < 0.75:
            ops.append(["U", x])
        elif r < 0.87:
            ops.append(["I", x, "N"])
        else:
            ops.append(["I", x, ["S", rng.choice("TF")]])
    return ["H", start] + ops


def pool_of(rng, n):
    pool = []
    for nv in (0, 1, 2, 3):
        pool.append([(nv, 0, 0)])
        pool.append([(nv, 0, 0), (nv, 1, 1)])
    for nv in (1, 2, 3):
        x = rng.randrange(nv)
        pool.append([(nv, 0, 0), (nv, 1, 1), (x, 0, 1)])
        pool.append([(nv, 0, 0), (nv, 1, 1), (x, 1, 0)])
    def uniq_valid():
        out = []
        for b in pool:
            if b not in out and is_wf(b):
                out.append(b)
        return out
    while len(uniq_valid()) < n:
        nv = rng.choice([2, 3, 3, 4, 4, 5])
        b = random_bdd(rng, nv)
        k = rng.random()
        pool.append(b)
        if k < 0.25 and len(b) >= 3:
            pool.append(noncanonical_variant(rng, b))          # same function, different array
        elif k < 0.45:
            sup = sorted({v for v, _, _ in b[2:]})
            if not sup or sup[-1] + 1 < nv + 1:
                pool.append([(nv + 1, 0, 0)] + ([(nv + 1, 1, 1)] if len(b) > 1 else []) + b[2:])   # same nodes, one more variable
        elif k < 0.6:
            tt = raw_tt(b)
            i = rng.randrange(len(tt))
            t2 = list(tt)
            t2[i] = True
            pool.append(bdd_from_tt(nv, list(range(nv)), t2))  # a superset: implication holds
    return uniq_valid()[:n]


def programs(rng, tier):
    P = Prog()
    quick = tier == "quick"
    L = 4 if quick else 5
    # ---- all set/unset histories
    hists = [["H", "E"]]
    layer = [["H", "E"]]
    for _ in range(L):
        layer = [h + [o] for h in layer for o in OPS_SMALL]
        hists += layer
    by_raw = {}
    for h in hists:
        by_raw.setdefault(sim_raw(h), []).append(h)
    single_ops = ["pv_to_values", "pv_card", "pv_last", "pv_is_empty", "pv_to_val", "pv_val_pv", "pv_values_pv", "pv_raw"]
    for h in hists:
        P.add(["pv_hash", h])
        P.add([rng.choice(single_ops), h])
        if rng.random() < 0.5:
            P.add([rng.choice(["pv_get", "pv_index", "pv_has"]), h, str(rng.choice([0, 1, 2, 3, 6, 7]))])
    raws = sorted(by_raw, key=lambda r: (len(r), [(-1 if c is None else int(c)) for c in r]))
    for ra in raws:
        for rb in raws:
            ha, hb = rng.choice(by_raw[ra]), rng.choice(by_raw[rb])
            P.add(["pv_eq", ha, hb])
            P.add(["pv_extends", ha, hb])
            if rng.random() < 0.15:
                P.add(["pv_ne", ha, hb])
    # every observer on one representative of every stored vector, every probe variable
    for ra in raws:
        h = rng.choice(by_raw[ra])
        for op in single_ops:
            P.add([op, h])
        for x in (0, 1, 2, 3, 6, 7):
            P.add(["pv_get", h, str(x)])
            P.add(["pv_index", h, str(x)])
            P.add(["pv_has", h, str(x)])
    # ---- BddValuation::extends
    for n in range(0, 4):
        for bits in itertools.product("01", repeat=n):
            v = "v" + "".join(bits)
            for ra in raws:
                P.add(["val_extends", v, rng.choice(by_raw[ra])])
    for _ in range(300 if quick else 6000):
        n = rng.randrange(0, 9)
        P.add(["val_extends", "v" + "".join(rng.choice("01") for _ in range(n)), rand_hist(rng)])
    # ---- conversions of total valuations
    for n in range(0, 7):
        for bits in itertools.product("01", repeat=n):
            v = "v" + "".join(bits)
            for op in ("val_to_pv", "val_to_values", "val_pv_val", "val_values_pv", "val_bdd_via_pv", "of_valuation"):
                P.add([op, v])
            P.add(["pv_to_val", ["H", ["V", v]]])
            P.add(["pv_val_pv", ["H", ["V", v]]])
            if n:
                x = rng.randrange(n)
                P.add(["pv_to_val", ["H", ["V", v], ["U", str(x)]]])
                P.add(["pv_to_val", ["H", ["V", v], ["U", str(x)], ["S", str(x), rng.choice("TF")]]])
                P.add(["pv_to_val", ["H", ["V", v], ["U", str(n + 1)]]])
                P.add(["pv_val_pv", ["H", ["V", v], ["I", str(x), ["S", rng.choice("TF")]]]])
    # ---- random mixed histories
    for _ in range(1500 if quick else 40000):
        ha = rand_hist(rng)
        k = rng.random()
        if k < 0.3:
            hb = rand_hist(rng)
        elif k < 0.6:
            # the same map through another history (shuffled from_values, extra padding)
            items = list(fmap(ha).items())
            rng.shuffle(items)
            hb = ["H", ["F", ["L"] + [["P", str(x), "T" if c else "F"] for x, c in items]]]
            if rng.random() < 0.5:
                hb.append(["U", str(rng.randrange(0, 12))])
        else:
            # a sub-map / a one-cell modification
            hb = list(ha)
            x = str(rng.randrange(0, 10))
            hb.append(rng.choice([["U", x], ["S", x, "T"], ["S", x, "F"]]))
        if rng.random() < 0.5:
            ha, hb = hb, ha
        P.add([rng.choice(["pv_eq", "pv_eq", "pv_extends", "pv_extends", "pv_ne"]), ha, hb])
        P.add(["pv_hash", ha])
        P.add([rng.choice(single_ops), hb])
    # the largest variable id (a 65536-cell vector): a handful only
    big = [["H", "E", ["S", "65535", "T"]], ["H", "E", ["S", "65535", "F"]], ["H", "E", ["U", "65535"]],
           ["H", "E", ["S", "65535", "T"], ["U", "65535"]], ["H", "E", ["S", "1", "T"]], ["H", "E"], ["H", "E", ["S", "65534", "T"]]]
    for ha in big:
        for hb in big:
            P.add(["pv_eq", ha, hb])
            P.add(["pv_extends", ha, hb])
        P.add(["pv_hash", ha])
        P.add(["pv_to_val", ha])
        P.add(["pv_last", ha])
        P.add(["pv_card", ha])
    # ---- comparators
    pool = pool_of(rng, 30 if quick else 64)
    # counts with more than 53 significant bits: conjunctions of disjoint small clauses over ~70 variables, the same
    # clause sizes interleaved differently in the variable order (equal exact counts, differently shaped diagrams)
    for _ in range(40 if quick else 600):
        nv = rng.choice([60, 72, 80])
        sizes = [rng.choice([2, 3, 4]) for _ in range(nv // 3)]
        while sum(sizes) > nv - 1:
            sizes.pop()

        def build(order):
            szs = list(sizes)
            if order:
                rng.shuffle(szs)          # contiguous groups in a different order: same exact count, different shape
            groups, i = [], 0
            for sz in szs:
                groups.append(list(range(i, i + sz)))
                i += sz
            nodes = [(nv, 0, 0), (nv, 1, 1)]
            nxt = 1
            for g in reversed(groups):    # (x1 | x2 | ...) & rest : node x_k: high -> rest, low -> x_{k+1}; last low -> 0
                low = 0
                for x in reversed(g):
                    nodes.append((x, low, nxt))
                    low = len(nodes) - 1
                nxt = low
            return nodes
        a = build(False)
        b = build(True)
        if a is None or b is None or len(a) > 400 or len(b) > 400 or not is_canonical(a)[0] or not is_canonical(b)[0]:
            continue
        for op in ("cmp_cardinality", "cmp_cardinality_strict"):
            P.add([op, bdd_sx(a), bdd_sx(b)])
            P.add([op, bdd_sx(b), bdd_sx(a)])
        # ... and a pair whose counts differ by one valuation only (equal as doubles): a vs a minus one satisfying valuation
        one = "v" + "".join("1" for _ in range(nv))
        P.add_prog([["a", "id", bdd_sx(a)], ["w", "of_valuation", one], ["a2", "named", "and_not", "$a", "$w"],
                    ["c1", "cmp_cardinality", "$a", "$a2"], ["c2", "cmp_cardinality_strict", "$a2", "$a"]])
    # ---- total valuations: all_false / all_true / new followed by in-place mutators, then read back
    for _ in range(400 if quick else 6000):
        n = rng.choice([0, 1, 2, 3, 5, 8, 8, 17, 64, 300])
        start = rng.choice([["AF", str(n)], ["AT", str(n)], ["N", "v" + "".join(rng.choice("01") for _ in range(n))]])
        ops = []
        for _ in range(rng.choice([0, 1, 2, 3, 5, 9])):
            x = rng.randrange(n) if n and rng.random() < 0.93 else n + rng.choice([0, 1, 7])
            k = rng.choice("SCFFVI")
            ops.append([k, str(x)] + ([rng.choice("TF")] if k in "VI" else []))
        x = rng.randrange(n) if n and rng.random() < 0.9 else n + rng.choice([0, 3])
        P.add(["val_hist", start, ["L"] + ops, str(x)])
    for a in pool:
        P.add(["exact_card", bdd_sx(a)])
    for a in pool:
        for b in pool:
            for op in ("cmp_size", "cmp_structural", "cmp_cardinality", "cmp_cardinality_strict", "cmp_implies"):
                P.add([op, bdd_sx(a), bdd_sx(b)])
    # cmp_implies on the operand families that expose task-count blow-ups (shared with C05)
    from props import C05 as _c05
    return P.progs + _c05.cmp_implies_programs(rng, tier)


# ----------------------------------------------------------------------------- independent oracle
def enc_hash(d):
    out = b""
    for x in sorted(d):
        out += b"\xfe" + int(x).to_bytes(8, "little") + b"\xfe" + (b"\x01" if d[x] else b"\x00")
    return "h:" + out.hex()


def lits_sx(items):
    return ["L"] + [["P", str(x), "T" if c else "F"] for x, c in items]


def optb(c):
    return "N" if c is None else ["S", "T" if c else "F"]


def B(b):
    return "T" if b else "F"


def cmp3(x, y):
    return "LT" if x < y else "GT" if x > y else "EQ"


def sim_val_hist(call):
    """BddValuation histories: all_false/all_true/new, then set/clear/flip_value/set_value/IndexMut; an index beyond the
    vector panics; the value read back at x (PANIC beyond the vector) and num_vars (`len as u16`)"""
    st = call[1]
    if st[0] == "AF":
        v = [False] * int(st[1])
    elif st[0] == "AT":
        v = [True] * int(st[1])
    else:
        v = [ch == "1" for ch in st[1][1:]]
    for o in call[2][1:]:
        x = int(o[1])
        if x >= len(v):
            return "PANIC"
        v[x] = {"S": True, "C": False, "F": not v[x]}[o[0]] if o[0] in "SCF" else (o[2] == "T")
    x = int(call[3])
    return ["P", "v" + "".join("1" if c else "0" for c in v), B(v[x]) if x < len(v) else "PANIC", str(len(v) % 65536)]


def expected(call):
    """the value the property demands, computed on finite maps / raw arrays; None = no complete oracle (compare with the model only)"""
    op = call[0]
    if op == "val_hist":
        return sim_val_hist(call)
    if op in ("pv_eq", "pv_ne"):
        e = fmap(call[1]) == fmap(call[2])
        return B(e if op == "pv_eq" else not e)
    if op == "pv_extends":
        a, b = fmap(call[1]), fmap(call[2])
        return B(all(x in a and a[x] == c for x, c in b.items()))
    if op == "val_extends":
        v = [ch == "1" for ch in call[1][1:]]
        b = fmap(call[2])
        return B(all(v[x] == c for x, c in b.items() if x < len(v)))
    if op == "pv_hash":
        return enc_hash(fmap(call[1]))
    if op in ("pv_get", "pv_index"):
        return optb(fmap(call[1]).get(int(call[2])))
    if op == "pv_has":
        return B(int(call[2]) in fmap(call[1]))
    if op == "pv_to_values":
        return lits_sx(sorted(fmap(call[1]).items()))
    if op == "pv_card":
        return str(len(fmap(call[1])))
    if op == "pv_last":
        d = fmap(call[1])
        return ["S", str(max(d))] if d else "N"
    if op == "pv_is_empty":
        return B(not fmap(call[1]))
    if op == "pv_values_pv":
        return ["P", "T", lits_sx(sorted(fmap(call[1]).items()))]
    if op == "val_to_pv" or op == "val_to_values":
        return lits_sx(list(enumerate(ch == "1" for ch in call[1][1:])))
    if op == "val_pv_val":
        return ["OK", call[1]]
    if op == "val_values_pv":
        return "T"
    if op == "cmp_size":
        return cmp3(len(bdd_nodes(call[1])), len(bdd_nodes(call[2])))
    if op == "cmp_structural":
        a, b = bdd_nodes(call[1]), bdd_nodes(call[2])
        return "LT" if a < b else "GT" if a > b else "EQ"
    if op in ("cmp_cardinality", "cmp_cardinality_strict"):
        a, b = bdd_nodes(call[1]), bdd_nodes(call[2])
        ca, cb = raw_count(a), raw_count(b)
        if ca is None or cb is None:
            return None
        if op == "cmp_cardinality":
            return cmp3(ca, cb)
        return ["S", cmp3(ca, cb)] if a[0][0] == b[0][0] else "N"
    if op == "cmp_implies":
        a, b = bdd_nodes(call[1]), bdd_nodes(call[2])
        if a[0][0] != b[0][0]:
            return "N"
        le, ge = raw_implies(a, b), raw_implies(b, a)      # memoised product walk over the raw arrays: any variable count
        return ["S", "EQ"] if le and ge else ["S", "LT"] if le else ["S", "GT"] if ge else "N"
    if op == "exact_card":
        c = raw_count(bdd_nodes(call[1]))
        return None if c is None else str(c)
    return None


def check_partial(call, impl):
    """operations without a complete map-level oracle: a description of the failure or None"""
    op = call[0]
    if op == "pv_to_val":
        d = fmap(call[1])
        if isinstance(impl, list) and impl[0] == "OK":
            v = [ch == "1" for ch in impl[1][1:]]
            if d != dict(enumerate(v)):
                return {"problem": "Ok(valuation) does not carry exactly the fixed values", "map": str(sorted(d.items())), "valuation": impl[1]}
        elif impl != "ERR":
            return {"problem": "unexpected result shape"}
        return None
    if op == "pv_val_pv":
        d = fmap(call[1])
        if isinstance(impl, list) and impl[0] == "OK":
            if impl[1] != "T" or impl[2] != lits_sx(sorted(d.items())):
                return {"problem": "partial -> total -> partial is not the identity", "map": str(sorted(d.items())), "observed": sx_str(impl)}
        elif impl != "ERR":
            return {"problem": "unexpected result shape"}
        return None
    if op in ("of_valuation", "val_bdd_via_pv"):
        v = [ch == "1" for ch in call[1][1:]]
        rb = unwrap_bdd(impl)
        if rb is None:
            return {"problem": "no diagram returned", "observed": sx_str(impl)}
        nodes = bdd_nodes(rb)
        if not is_wf(nodes) or nodes[0][0] != len(v):
            return {"problem": "the diagram of a total valuation is invalid or over another variable count", "observed": sx_str(impl)}
        if len(v) <= 12:
            cands = (val_of_index(i, len(v)) for i in range(1 << len(v)))
        else:   # too many valuations to enumerate: the valuation itself, every single-bit flip, all-false / all-true
            cands = [list(v)] + [[(not c) if k == j else c for k, c in enumerate(v)] for j in range(len(v))] + [[False] * len(v), [True] * len(v)]
        for w in cands:
            if raw_eval(nodes, w) != (w == v):
                return {"valuation": vbits(w), "expected": w == v, "observed": raw_eval(nodes, w)}
        return None
    return None


_hashes = {}      # frozen map -> stream
_streams = {}     # stream -> frozen map
_cmp = {}         # (op, a, b) -> result
_cards = {}       # a -> exact_card (implementation)
_pool = set()


def judge(st, V):
    cid, call, impl, model, aux = st
    op = call[0]
    V.evaluations += 1
    V.count("op:" + op)
    if impl == "SKIP" or not operands_wf(call):
        V.skipped += 1
        return
    machinery_guard(st)
    sample(V, st)
    want = expected(call)
    hist_args = [x for x in call[1:] if isinstance(x, list) and x and x[0] == "H"]
    if op == "exact_card":
        _cards[sx_str(call[1])] = impl
        if want is not None and impl != want:
            V.count("exact_card_differs_from_truth_table(C09)")
        return
    if op == "pv_raw":
        V.count("padding:" + ("yes" if impl.endswith("-") else "no"))
        if impl != model:
            V.count("stored-vector-differs-from-model(not part of the property)")
        return
    if want is not None:
        if impl != want:
            V.violations.append(violation(PID, st, "the result contradicts the property on the underlying finite maps / raw arrays",
                                          oracle={"expected": sx_str(want)[:400], "observed": sx_str(impl)[:400]}, confirmed=True,
                                          relation="exact vs. independent oracle"))
            return
    else:
        bad = check_partial(call, impl)
        if bad is not None:
            V.violations.append(violation(PID, st, "conversion is not an inverse / result is malformed", oracle=bad, confirmed=True,
                                          relation="round trip (independent oracle)"))
            return
    if impl != model:
        if op in ("pv_to_val", "pv_val_pv") and model == "ERR" and isinstance(impl, list) and impl[0] == "OK":
            # TryFrom<BddPartialValuation> looks at the STORED length: the model (like the pinned code) keeps trailing unset cells
            # and rejects; an implementation that trims them converts successfully.  The property does not fix the padding — it
            # demands that a successful conversion is an inverse, which the independent oracle above has just confirmed.
            V.count("try_from:accepted-where-the-model-keeps-padding")
            return
        V.violations.append(violation(PID, st, "implementation and model disagree", oracle={"expected_by_oracle": sx_str(want)[:300] if want is not None else None},
                                      confirmed=False, relation="exact"))
        return
    if op == "pv_hash":
        key = frozenset(fmap(call[1]).items())
        _hashes.setdefault(key, set()).add(impl)
        _streams.setdefault(impl, set()).add(key)
    if op == "pv_to_val":
        d = fmap(call[1])
        if impl == "ERR" and d and sorted(d) == list(range(len(d))):
            V.count("try_from:rejected-because-of-padding")
    if op.startswith("cmp_"):
        a, b = sx_str(call[1]), sx_str(call[2])
        _cmp[(op, a, b)] = impl
        _pool.add(a)
        _pool.add(b)
        if len(bdd_nodes(call[1])) >= 3 and len(bdd_nodes(call[2])) >= 3:
            V.nontrivial.add(key_of(call))
        return
    if hist_args:
        maps = [fmap(h) for h in hist_args]
        V.count("hist_len:%d" % max(len(h) - 2 for h in hist_args))
        if any(maps) and (len(hist_args) == 1 or hist_args[0] != hist_args[1]):
            V.nontrivial.add(key_of(call))
    elif op.startswith("val_") or op == "of_valuation":
        if len(call[1]) > 1:
            V.nontrivial.add(key_of(call))


REV = {"LT": "GT", "GT": "LT", "EQ": "EQ"}


def finalize(steps, V):
    def report(reason, desc):
        st = ("0", ["order-law"], "-", "-", "-")
        V.violations.append(violation(PID, st, reason, oracle=desc, confirmed=True, relation="order/equality law over the pool"))

    # equal maps hash equally, different maps differently
    for key, ss in _hashes.items():
        if len(ss) > 1:
            report("equal partial valuations produced different Hasher streams", {"map": str(sorted(key)), "streams": sorted(ss)})
    for s, keys in _streams.items():
        if len(keys) > 1:
            V.notes.append("hash stream shared by different maps (allowed for a hash, recorded): %s" % s)
    V.count("distinct_maps_hashed", len(_hashes))
    pool = sorted(_pool)

    def unw(r):
        if r == "N" or r is None:
            return None
        return r[1] if isinstance(r, list) else r

    for op in ("cmp_size", "cmp_structural", "cmp_cardinality", "cmp_cardinality_strict", "cmp_implies"):
        tab = {(a, b): unw(r) for (o, a, b), r in _cmp.items() if o == op}
        if not tab:
            continue
        total = op in ("cmp_size", "cmp_structural", "cmp_cardinality")
        for (a, b), r in tab.items():
            if total and r is None:
                report(op + " is not total", {"a": a, "b": b})
            rba = tab.get((b, a))
            if (b, a) in tab and ((r is None) != (rba is None) or (r is not None and REV[r] != rba)):
                report(op + "(a,b) is not the reverse of " + op + "(b,a)", {"a": a, "b": b, "ab": r, "ba": rba})
            if a == b and r != "EQ":
                report(op + " is not reflexive", {"a": a})
            if op == "cmp_structural" and r == "EQ" and a != b:
                report("cmp_structural returns Equal for different arrays", {"a": a, "b": b})
            if op == "cmp_cardinality" and a in _cards and b in _cards:
                w = cmp3(int(_cards[a]), int(_cards[b]))
                if r != w:
                    report("cmp_cardinality does not order by the implementation's own exact_cardinality", {"a": a, "b": b, "observed": r, "expected": w})
            if op == "cmp_cardinality_strict":
                same = bdd_nodes(sx_parse(a))[0][0] == bdd_nodes(sx_parse(b))[0][0]
                if (r is None) == same:
                    report("cmp_cardinality_strict must return None exactly for different variable counts", {"a": a, "b": b, "observed": r})
        le = lambda r: r in ("LT", "EQ")
        ntr = 0
        below = {}            # b -> [(c, r(b,c))] for every judged pair with b <= c
        for (b, c), r in tab.items():
            if le(r):
                below.setdefault(b, []).append((c, r))
        for (a, b), rab in sorted(tab.items()):
            if not le(rab):
                continue
            for c, rbc in below.get(b, ()):
                if (a, c) not in tab:
                    continue          # the pair was not part of this run (only complete triples are judged)
                rac = tab[(a, c)]
                ntr += 1
                if not le(rac) or (rac == "EQ") != (rab == "EQ" and rbc == "EQ"):
                    report(op + " is not transitive", {"a": a, "b": b, "c": c, "ab": rab, "bc": rbc, "ac": rac})
        V.count("triples_checked:" + op, ntr)
