"""C01 — logical operators compute the pointwise Boolean function of their operands."""
import itertools

from common import *
from props.base import *

PID = "C01"
RULE = ("operands: every function of <=2 variables (all ordered pairs x all 16 connectives in lazy, fully eager and random "
        "consistent partial table form), random functions over 3..9 variables with skipped levels, valid non-canonical "
        "variants; ternary: random triples x random ternary connectives (256 possible) in lazy/eager form; not/ite/named. "
        "LARGE operands (model side: the proved-equal fast engine, Proofs/ApplyFast.v): a random function of 20 variables "
        "(>70,000 nodes, canonical array built bottom-up from a random truth table) as right operand, a small non-constant "
        "left operand over 1..3 of the same variables, named and/or/xor (thorough: all six named, bin and fbin with flips). "
        "MEDIUM operands: pairs of random functions of 10..13 variables (250..1400 nodes), named/bin. "
        "LARGE ternary operands (model side: the proved-equal fast ternary engine, Model/Apply3Fast.v, Proofs/Apply3Fast.v): "
        "ite/tern with one operand a random function of 20 variables (>70,000 nodes) in EACH of the three positions and small "
        "functions of 2..3 of the same variables in the others, random ternary connectives that depend on all three arguments "
        "(thorough: two large operands as well); medium ternary triples (random functions of 10..11 variables). "
        "relation: canon(impl result) = model result (semantic equality at any variable count); for results above 400 "
        "nodes, where the list-based canonicaliser is not evaluated, exact array equality with the (proved canonical) model "
        "result; failing-input oracle at that size: raw evaluation of operands and result on 20,000 random valuations. "
        "non-trivial = no constant operand and the result has >=3 nodes; distinct by sha256 of the step")
EXHAUSTIVE = {"quick": False, "thorough": False}
NAMED = {"and": (False, False, False, True), "or": (False, True, True, True), "imp": (True, True, False, True),
         "iff": (True, False, False, True), "xor": (False, True, True, False), "and_not": (False, False, True, False)}


# ----------------------------------------------------------------------------- large operands
# (big_bdd_from_tt / big_random_bdd live in gen/common.py)
def small_left(rng, nv):
    """small non-constant function over 1..3 of the nv variables"""
    while True:
        k = rng.randint(1, 3)
        variables = sorted(rng.sample(range(nv), k))
        a = bdd_from_tt(nv, variables, [rng.random() < 0.5 for _ in range(1 << k)])
        if len(a) >= 3:
            return a


BIG_NV = 20
BIG_MIN_NODES = 70000


def large_cases(rng, tier):
    cases = []
    nrights = 1 if tier == "quick" else 3
    for _ in range(nrights):
        b = big_random_bdd(rng, BIG_NV)
        assert len(b) > BIG_MIN_NODES and is_canonical(b)[0], "large-operand generator is broken"
        bs = bdd_sx(b)
        if tier == "quick":
            names = ["xor", "and"]
        else:
            names = list(NAMED)
        for name in names:
            cases.append(["named", name, bdd_sx(small_left(rng, BIG_NV)), bs])
        if tier == "thorough":
            conns = list(itertools.product([False, True], repeat=4))
            cases.append(["bin", partial_table(rng, rng.choice(conns)), bdd_sx(small_left(rng, BIG_NV)), bs])
            cases.append(["fbin", partial_table(rng, rng.choice(conns)), optvar(rng.randrange(BIG_NV)), optvar(rng.randrange(BIG_NV)),
                          optvar(rng.randrange(BIG_NV)), bdd_sx(small_left(rng, BIG_NV)), bs])
            # large operand on the left as well
            cases.append(["named", rng.choice(["or", "xor", "iff"]), bs, bdd_sx(small_left(rng, BIG_NV))])
    return cases


def conn3_depends_on_all(conn):
    dep = lambda k: any(conn[i] != conn[i ^ (4 >> k)] for i in range(8))
    return dep(0) and dep(1) and dep(2)


def random_conn3(rng):
    while True:
        conn = tuple(rng.random() < 0.5 for _ in range(8))
        if conn3_depends_on_all(conn):
            return conn


def large_ternary_cases(rng, tier):
    """one operand above 65,536 nodes in each position of ite / tern (the other two small): the memo table of the ternary
    loop is keyed by the pointer TRIPLE"""
    cases = []
    nv = BIG_NV
    for r in range(1 if tier == "quick" else 3):
        b = big_random_bdd(rng, nv)
        assert len(b) > BIG_MIN_NODES
        bs = bdd_sx(b)
        sm = lambda: bdd_sx(small_fn_tt(rng, nv)[0])
        # position b (then), position c of a random connective, position a (condition)
        cases.append(["ite", sm(), bs, sm()])
        cases.append(["tern", partial_table3(rng, random_conn3(rng)), sm(), sm(), bs])
        cases.append(["ite", bs, sm(), sm()])
        if tier == "thorough":
            cases.append(["tern", partial_table3(rng, random_conn3(rng)), sm(), bs, sm()])
            cases.append(["tern", partial_table3(rng, random_conn3(rng)), bs, sm(), sm()])
            cases.append(["ite", sm(), sm(), bs])
            b2 = bdd_sx(big_random_bdd(rng, nv))
            cases.append(["ite", sm(), bs, b2])
            cases.append(["tern", partial_table3(rng, random_conn3(rng)), bs, sm(), b2])
    # an operand above 2^20 nodes (pointers need 21 bits): X == Y over two blocks of 19 variables (1,572,863 nodes) in the
    # third position, a lone switch variable between the blocks in the second, a constant / literal in the first; the
    # connective (a & b) ^ c in lazy form, so that every task runs down to the terminals of all three operands
    n = 19
    eqb, nv3 = bdd_sx(block_equality_bdd(n)), 2 * n + 1
    switch = bdd_sx([(nv3, 0, 0), (nv3, 1, 1), (n, 0, 1)])
    first = [bdd_sx([(nv3, 0, 0), (nv3, 1, 1)]), bdd_sx([(nv3, 0, 0), (nv3, 1, 1), (0, 0, 1)]), bdd_sx([(nv3, 0, 0), (nv3, 1, 1), (0, 1, 0)])]
    and_xor = tuple(bool((a & b) ^ c) for a in (0, 1) for b in (0, 1) for c in (0, 1))
    for a in (first[:1] if tier == "quick" else first):
        cases.append(["tern", partial_table3(rng, and_xor, eagerness=0.0), a, switch, eqb])
    # medium triples: fast engine in the normal run, reference engine in the engine cross-check
    for _ in range(2 if tier == "quick" else 20):
        mv = rng.choice([10, 11])
        x, y, z = (bdd_sx(big_random_bdd(rng, mv)) for _ in range(3))
        if rng.random() < 0.5:
            cases.append(["ite", x, y, z])
        else:
            cases.append(["tern", partial_table3(rng, random_conn3(rng)), x, y, z])
    return cases


def medium_cases(rng, tier):
    """both operands random functions of 10..13 variables (roughly 250..1400 nodes): served by the fast engine in
    the normal run and small enough for the reference engine in the engine cross-check"""
    cases = []
    conns = list(itertools.product([False, True], repeat=4))
    for i in range(6 if tier == "quick" else 60):
        nv = rng.choice([10, 11, 12, 13])
        a, b = big_random_bdd(rng, nv), big_random_bdd(rng, nv)
        k = i % 3
        if k == 0:
            cases.append(["named", rng.choice(list(NAMED)), bdd_sx(a), bdd_sx(b)])
        elif k == 1:
            cases.append(["bin", partial_table(rng, rng.choice(conns)), bdd_sx(a), bdd_sx(b)])
        else:
            cases.append(["named", rng.choice(list(NAMED)), bdd_sx(a), bdd_sx(small_left(rng, nv))])
    return cases


def programs(rng, tier):
    progs = []
    n = 0

    def add(case):
        nonlocal n
        n += 1
        progs.append([[str(n)] + case])

    for name in NAMED:
        add(["optable", name])
    conns = list(itertools.product([False, True], repeat=4))
    # exhaustive small scope
    for nv in (0, 1, 2):
        fs = all_functions(nv)
        for a in fs:
            for b in fs:
                for conn in (conns if tier == "thorough" or nv < 2 else rng.sample(conns, 6)):
                    for eager in ((0.0, 1.0, None) if tier == "thorough" else (rng.choice([0.0, 1.0, None]),)):
                        add(["bin", partial_table(rng, conn, eager), bdd_sx(a), bdd_sx(b)])
        for a in fs:
            add(["not", bdd_sx(a)])
    if tier == "thorough":
        fs3 = all_functions(3)
        for _ in range(60000):
            a, b = rng.choice(fs3), rng.choice(fs3)
            add(["bin", partial_table(rng, rng.choice(conns)), bdd_sx(a), bdd_sx(b)])
    nrand = 2500 if tier == "quick" else 60000
    for i in range(nrand):
        nv = rng.choice([3, 3, 4, 4, 5, 6, 7, 9])
        a, b, c = (random_bdd(rng, nv) for _ in range(3))
        if rng.random() < 0.25:
            a = noncanonical_variant(rng, a)
        if rng.random() < 0.25:
            b = noncanonical_variant(rng, b)
        # the SAME operand in two or three positions (the harness hands identical operands out as one object, so that
        # reference-identity shortcuts such as ite(f, g, f) are exercised)
        al = rng.random()
        if al < 0.08:
            b = a
        elif al < 0.14:
            c = a
        elif al < 0.20:
            c = b
        elif al < 0.23:
            b = c = a
        k = rng.random()
        if k < 0.35:
            add(["bin", partial_table(rng, rng.choice(conns)), bdd_sx(a), bdd_sx(b)])
        elif k < 0.55:
            add(["named", rng.choice(list(NAMED)), bdd_sx(a), bdd_sx(b)])
        elif k < 0.65:
            add(["not", bdd_sx(a)])
        elif k < 0.75:
            add(["ite", bdd_sx(a), bdd_sx(b), bdd_sx(c)])
        else:
            conn3 = tuple(rng.random() < 0.5 for _ in range(8))
            add(["tern", partial_table3(rng, conn3), bdd_sx(a), bdd_sx(b), bdd_sx(c)])
    # every aliasing pattern of if_then_else / ternary_op on small operands
    for _ in range(60 if tier == "quick" else 1500):
        nv = rng.choice([2, 3, 4, 5])
        f, g = random_bdd(rng, nv), random_bdd(rng, nv)
        for x, y, z in ((f, g, f), (f, f, g), (f, g, g), (f, f, f), (g, f, g)):
            add(["ite", bdd_sx(x), bdd_sx(y), bdd_sx(z)])
        x, y, z = rng.choice(((f, g, f), (f, f, g), (f, g, g), (f, f, f)))
        add(["tern", partial_table3(rng, tuple(rng.random() < 0.5 for _ in range(8))), bdd_sx(x), bdd_sx(y), bdd_sx(z)])
        add(["named", rng.choice(list(NAMED)), bdd_sx(f), bdd_sx(f)])
    # if_then_else whose operands are related by negation (ite(a, b, not b) = a <=> b, ite(a, not a, c), ite(not b, b, c) ...), the
    # negation computed by the library in the same program, operands of 16..700 nodes
    for _ in range(40 if tier == "quick" else 1000):
        nv = rng.choice([5, 6, 7, 8, 10])
        bx = big_random_bdd(rng, nv) if nv <= 8 else random_bdd(rng, nv, max_support=7)
        ax = random_bdd(rng, nv, max_support=min(nv, 6))
        pat = rng.choice([("a", "b", "nb"), ("a", "nb", "b"), ("b", "nb", "a"), ("nb", "b", "a"), ("b", "a", "nb"), ("nb", "a", "b")])
        progs.append([["a", "id", bdd_sx(ax)], ["b", "id", bdd_sx(bx)], ["nb", "not", "$b"], ["r", "ite"] + ["$" + x for x in pat]])
    # ternary_op over operands that store IDENTICAL nodes at identical indices but denote different functions (f, not f and f
    # with its terminals swapped below one node), with random tables (one in three has equal values on FFF and TTT)
    for _ in range(60 if tier == "quick" else 1500):
        nv = rng.choice([3, 4, 5, 6])
        f = random_bdd(rng, nv, max_support=min(nv, 5))
        if len(f) < 4:
            continue
        conn3 = [rng.random() < 0.5 for _ in range(8)]
        if rng.random() < 0.4:
            conn3[7] = conn3[0]
        tab = partial_table3(rng, tuple(conn3))
        pats = rng.choice([("f", "nf", "f"), ("f", "nf", "nf"), ("nf", "f", "f"), ("f", "f", "nf"), ("f", "nf", "g"), ("g", "f", "nf")])
        progs.append([["f", "id", bdd_sx(f)], ["nf", "not", "$f"], ["g", "id", bdd_sx(random_bdd(rng, nv))],
                      ["r", "tern", tab] + ["$" + x for x in pats]])
    # an operation AFTER a user closure panicked inside binary_op on the same thread (caught): it must be unaffected
    for _ in range(60 if tier == "quick" else 2000):
        nv = rng.choice([3, 4, 5, 6])
        x, y, a, b = (random_bdd(rng, nv) for _ in range(4))
        inner = rng.choice([["named", rng.choice(list(NAMED)), bdd_sx(a), bdd_sx(b)],
                            ["bin", partial_table(rng, rng.choice(conns)), bdd_sx(a), bdd_sx(b)],
                            ["ite", bdd_sx(a), bdd_sx(b), bdd_sx(x)], ["not", bdd_sx(a)]])
        add(["after_panic", str(rng.choice([0, 1, 2, 3, 5, 8, 13])), partial_table(rng, rng.choice(conns), 0.0), bdd_sx(x), bdd_sx(y), inner])
    # variable-count mismatch must panic in both
    for _ in range(20):
        a, b = random_bdd(rng, 3), random_bdd(rng, 4)
        add(["named", "and", bdd_sx(a), bdd_sx(b)])
    # large operands last (the vm_compute cross-check samples the first small binary steps)
    for case in medium_cases(rng, tier) + large_cases(rng, tier) + large_ternary_cases(rng, tier):
        add(case)
    return progs


def conn_and_operands(call):
    """(connective as 4 bools indexed 2*l+r, function applied to the operand valuations) for the binary ops"""
    if call[0] == "named":
        return NAMED[call[1]], call[2], call[3], (None, None, None)
    if call[0] == "bin":
        return conn_of_table(call[1]), call[2], call[3], (None, None, None)
    if call[0] == "fbin":
        fl = tuple(None if x == "N" else int(x[1]) for x in call[2:5])
        return conn_of_table(call[1]), call[5], call[6], fl
    return None


def oracle_sampled(call, impl, samples=20000):
    """independent oracle for operands over more than 10 variables: raw evaluation of the operand arrays and of
    the result array on random valuations (never the model, never the library)"""
    import random as _random
    conn, xa, xb, (fa, fb, fo) = conn_and_operands(call)
    a, b = bdd_nodes(xa), bdd_nodes(xb)
    nv = a[0][0]
    if impl == "PANIC":
        return True, "operator panicked on valid operands over the same variable count"
    rb = unwrap_bdd(impl)
    if rb is None:
        return True, "result is not a Bdd"
    r = bdd_nodes(rb)
    rr = _random.Random(int(key_of(call), 16))

    def fl(val, x):
        if x is None:
            return val
        val = list(val)
        val[x] = not val[x]
        return val

    for i in range(samples):
        val = [rr.random() < 0.5 for _ in range(nv)]
        try:
            got = raw_eval(r, val)
        except (EvalDiverges, IndexError) as e:
            return True, "result array cannot be evaluated: %s" % e
        base = fl(val, fo)
        exp = conn[2 * int(raw_eval(a, fl(base, fa))) + int(raw_eval(b, fl(base, fb)))]
        if got != exp:
            return True, {"valuation": vbits(val), "expected": exp, "observed": got, "valuations_tried": i + 1}
    return False, "no failing valuation among %d random valuations" % samples


def expected_tt(call):
    """independent oracle: truth table the result must have (None when not applicable)"""
    op = call[0]
    if op == "bin":
        conn = conn_of_table(call[1])
        a, b = bdd_nodes(call[2]), bdd_nodes(call[3])
        if a[0][0] != b[0][0] or a[0][0] > 10:
            return None
        ta, tb = raw_tt(a), raw_tt(b)
        return tuple(conn[2 * int(x) + int(y)] for x, y in zip(ta, tb))
    if op == "named":
        conn = NAMED[call[1]]
        a, b = bdd_nodes(call[2]), bdd_nodes(call[3])
        if a[0][0] != b[0][0] or a[0][0] > 10:
            return None
        return tuple(conn[2 * int(x) + int(y)] for x, y in zip(raw_tt(a), raw_tt(b)))
    if op == "not":
        a = bdd_nodes(call[1])
        if a[0][0] > 10:
            return None
        return tuple(not x for x in raw_tt(a))
    if op == "ite":
        a, b, c = (bdd_nodes(x) for x in call[1:4])
        if len({a[0][0], b[0][0], c[0][0]}) != 1 or a[0][0] > 10:
            return None
        return tuple((y if x else z) for x, y, z in zip(raw_tt(a), raw_tt(b), raw_tt(c)))
    if op == "tern":
        conn = conn3_of_table(call[1])
        a, b, c = (bdd_nodes(x) for x in call[2:5])
        if len({a[0][0], b[0][0], c[0][0]}) != 1 or a[0][0] > 10:
            return None
        return tuple(conn[4 * int(x) + 2 * int(y) + int(z)] for x, y, z in zip(raw_tt(a), raw_tt(b), raw_tt(c)))
    return None


def oracle(call, impl):
    """returns (confirmed, description)"""
    co = conn_and_operands(call)
    if co is not None:
        na, nb = bdd_nodes(co[1]), bdd_nodes(co[2])
        if na[0][0] == nb[0][0] and na[0][0] > 10:
            return oracle_sampled(call, impl)
    if call[0] in ("ite", "tern"):
        ops3 = [bdd_nodes(x) for x in call[1:] if is_bdd(x)]
        if len({o[0][0] for o in ops3}) == 1 and ops3[0][0][0] > 10:
            # more than 10 variables: raw evaluation of operands and result on 3000 random valuations (props/oracle.py)
            from props import oracle as generic
            return generic.check(call, impl)
    exp = expected_tt(call)
    if exp is None:
        # mismatch in variable counts: the property does not cover the call (panic expected)
        return (impl != "PANIC", "operands over different variable counts: the call must be rejected") if impl != "PANIC" else (False, None)
    if impl == "PANIC":
        return True, "operator panicked on valid operands over the same variable count"
    rb = unwrap_bdd(impl)
    if rb is None:
        return True, "result is not a Bdd"
    nodes = bdd_nodes(rb)
    try:
        got = raw_tt(nodes, len(exp).bit_length() - 1)
    except (EvalDiverges, IndexError) as e:
        return True, "result array cannot be evaluated: %s" % e
    if got != exp:
        i = next(k for k in range(len(exp)) if got[k] != exp[k])
        nv = len(exp).bit_length() - 1
        return True, {"valuation": vbits(val_of_index(i, nv)), "expected": exp[i], "observed": got[i]}
    return False, None


def judge(st, V):
    cid, call, impl, model, aux = st
    if call[0] == "after_panic":
        # judged as the inner operation (the unwound call before it must leave no trace)
        V.count("after_panic")
        call = call[5]
        st = (cid, call, impl, model, aux)
    V.evaluations += 1
    V.count("op:" + call[0])
    if impl == "SKIP" or not operands_wf(call):
        V.skipped += 1
        return
    machinery_guard(st)
    for x in call[1:]:
        if is_bdd(x):
            V.count("nv:%d" % bdd_nodes(x)[0][0])
            break
    if any(is_bdd(x) and len(x) > 3 * 65536 for x in call[1:]):
        V.count("large-operand(>65536 nodes):" + call[0])
    sample(V, st)
    if call[0] == "optable":
        if impl != model:
            V.violations.append(violation(PID, st, "built-in operator table differs from the proved-consistent table",
                                          oracle={"impl_table": impl, "model_table": model}, confirmed=True, relation="exact (finite domain, exhaustive)"))
        else:
            V.nontrivial.add(key_of(call))
        return
    ok = semantic_agree(impl, model, aux)
    if not ok:
        confirmed, desc = oracle(call, impl)
        bigres = isinstance(aux, list) and aux and aux[0] == "BIG"
        V.violations.append(violation(PID, st, "implementation result array differs from the (canonical) model result" if bigres
                                      else "canon(impl result) differs from the model result", oracle=desc, confirmed=confirmed,
                                      relation="impl = model (exact; result above 400 nodes)" if bigres else "canon(impl) = model"))
        return
    rb = unwrap_bdd(impl)
    bdds = [bdd_nodes(x) for x in call[1:] if is_bdd(x)]
    if rb is not None and all(len(b) >= 3 for b in bdds) and len(bdd_nodes(rb)) >= 3:
        V.nontrivial.add(key_of(call))
