"""C01 — logical operators compute the pointwise Boolean function of their operands."""
import itertools

from common import *
from props.base import *

PID = "C01"
RULE = ("operands: every function of <=2 variables (all ordered pairs x all 16 connectives in lazy, fully eager and random "
        "consistent partial table form), random functions over 3..9 variables with skipped levels, valid non-canonical "
        "variants; ternary: random triples x random ternary connectives (256 possible) in lazy/eager form; not/ite/named. "
        "relation: canon(impl result) = model result (semantic equality at any variable count). "
        "non-trivial = no constant operand and the result has >=3 nodes; distinct by sha256 of the step")
EXHAUSTIVE = {"quick": False, "thorough": False}
NAMED = {"and": (False, False, False, True), "or": (False, True, True, True), "imp": (True, True, False, True),
         "iff": (True, False, False, True), "xor": (False, True, True, False), "and_not": (False, False, True, False)}


def programs(rng, tier):
    progs = []
    n = 0

    def add(case):
        nonlocal n
        n += 1
        progs.append([[str(n)] + case])

    for name in NAMED:
        add(["optable", name])
    conns = list(itertools.product([False, True], repeat=4))
    # exhaustive small scope
    for nv in (0, 1, 2):
        fs = all_functions(nv)
        for a in fs:
            for b in fs:
                for conn in (conns if tier == "thorough" or nv < 2 else rng.sample(conns, 6)):
                    for eager in ((0.0, 1.0, None) if tier == "thorough" else (rng.choice([0.0, 1.0, None]),)):
                        add(["bin", partial_table(rng, conn, eager), bdd_sx(a), bdd_sx(b)])
        for a in fs:
            add(["not", bdd_sx(a)])
    if tier == "thorough":
        fs3 = all_functions(3)
        for _ in range(60000):
            a, b = rng.choice(fs3), rng.choice(fs3)
            add(["bin", partial_table(rng, rng.choice(conns)), bdd_sx(a), bdd_sx(b)])
    nrand = 2500 if tier == "quick" else 60000
    for i in range(nrand):
        nv = rng.choice([3, 3, 4, 4, 5, 6, 7, 9])
        a, b, c = (random_bdd(rng, nv) for _ in range(3))
        if rng.random() < 0.25:
            a = noncanonical_variant(rng, a)
        if rng.random() < 0.25:
            b = noncanonical_variant(rng, b)
        k = rng.random()
        if k < 0.35:
            add(["bin", partial_table(rng, rng.choice(conns)), bdd_sx(a), bdd_sx(b)])
        elif k < 0.55:
            add(["named", rng.choice(list(NAMED)), bdd_sx(a), bdd_sx(b)])
        elif k < 0.65:
            add(["not", bdd_sx(a)])
        elif k < 0.75:
            add(["ite", bdd_sx(a), bdd_sx(b), bdd_sx(c)])
        else:
            conn3 = tuple(rng.random() < 0.5 for _ in range(8))
            add(["tern", partial_table3(rng, conn3), bdd_sx(a), bdd_sx(b), bdd_sx(c)])
    # variable-count mismatch must panic in both
    for _ in range(20):
        a, b = random_bdd(rng, 3), random_bdd(rng, 4)
        add(["named", "and", bdd_sx(a), bdd_sx(b)])
    return progs


def expected_tt(call):
    """independent oracle: truth table the result must have (None when not applicable)"""
    op = call[0]
    if op == "bin":
        conn = conn_of_table(call[1])
        a, b = bdd_nodes(call[2]), bdd_nodes(call[3])
        if a[0][0] != b[0][0] or a[0][0] > 10:
            return None
        ta, tb = raw_tt(a), raw_tt(b)
        return tuple(conn[2 * int(x) + int(y)] for x, y in zip(ta, tb))
    if op == "named":
        conn = NAMED[call[1]]
        a, b = bdd_nodes(call[2]), bdd_nodes(call[3])
        if a[0][0] != b[0][0] or a[0][0] > 10:
            return None
        return tuple(conn[2 * int(x) + int(y)] for x, y in zip(raw_tt(a), raw_tt(b)))
    if op == "not":
        a = bdd_nodes(call[1])
        if a[0][0] > 10:
            return None
        return tuple(not x for x in raw_tt(a))
    if op == "ite":
        a, b, c = (bdd_nodes(x) for x in call[1:4])
        if len({a[0][0], b[0][0], c[0][0]}) != 1 or a[0][0] > 10:
            return None
        return tuple((y if x else z) for x, y, z in zip(raw_tt(a), raw_tt(b), raw_tt(c)))
    if op == "tern":
        conn = conn3_of_table(call[1])
        a, b, c = (bdd_nodes(x) for x in call[2:5])
        if len({a[0][0], b[0][0], c[0][0]}) != 1 or a[0][0] > 10:
            return None
        return tuple(conn[4 * int(x) + 2 * int(y) + int(z)] for x, y, z in zip(raw_tt(a), raw_tt(b), raw_tt(c)))
    return None


def oracle(call, impl):
    """returns (confirmed, description)"""
    exp = expected_tt(call)
    if exp is None:
        # mismatch in variable counts: the property does not cover the call (panic expected)
        return (impl != "PANIC", "operands over different variable counts: the call must be rejected") if impl != "PANIC" else (False, None)
    if impl == "PANIC":
        return True, "operator panicked on valid operands over the same variable count"
    rb = unwrap_bdd(impl)
    if rb is None:
        return True, "result is not a Bdd"
    nodes = bdd_nodes(rb)
    try:
        got = raw_tt(nodes, len(exp).bit_length() - 1)
    except (EvalDiverges, IndexError) as e:
        return True, "result array cannot be evaluated: %s" % e
    if got != exp:
        i = next(k for k in range(len(exp)) if got[k] != exp[k])
        nv = len(exp).bit_length() - 1
        return True, {"valuation": vbits(val_of_index(i, nv)), "expected": exp[i], "observed": got[i]}
    return False, None


def judge(st, V):
    cid, call, impl, model, aux = st
    V.evaluations += 1
    V.count("op:" + call[0])
    if impl == "SKIP" or not operands_wf(call):
        V.skipped += 1
        return
    machinery_guard(st)
    for x in call[1:]:
        if is_bdd(x):
            V.count("nv:%d" % bdd_nodes(x)[0][0])
            break
    sample(V, st)
    if call[0] == "optable":
        if impl != model:
            V.violations.append(violation(PID, st, "built-in operator table differs from the proved-consistent table",
                                          oracle={"impl_table": impl, "model_table": model}, confirmed=True, relation="exact (finite domain, exhaustive)"))
        else:
            V.nontrivial.add(key_of(call))
        return
    ok = semantic_agree(impl, model, aux)
    if not ok:
        confirmed, desc = oracle(call, impl)
        V.violations.append(violation(PID, st, "canon(impl result) differs from the model result", oracle=desc, confirmed=confirmed,
                                      relation="canon(impl) = model"))
        return
    rb = unwrap_bdd(impl)
    bdds = [bdd_nodes(x) for x in call[1:] if is_bdd(x)]
    if rb is not None and all(len(b) >= 3 for b in bdds) and len(bdd_nodes(rb)) >= 3:
        V.nontrivial.add(key_of(call))
