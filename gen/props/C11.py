"""C11 — witness and clause selectors return real, extremal members."""
from common import *
from props.base import *

PID = "C11"
RULE = ("sat_witness, first/last_valuation, most_positive/most_negative_valuation, first/last/most_fixed/most_free/necessary_clause, "
        "is_clause, is_valuation on EVERY function of <=3 variables (quick) / of <=4 variables (thorough: all 65,536), each also embedded "
        "into 4..9 variables on a random variable subset (level gaps, variables above the root), plus random canonical functions over "
        "5..10 variables, plus non-REDUCED diagrams of the benign shape (redundant tests over non-false children, children before parents, "
        "everything reachable; is_clause not judged there); random_valuation/random_clause with every RNG script of length <= nvars on the <=3-variable functions and sampled "
        "scripts (incl. exhausted ones) elsewhere. Every step is judged twice: (1) against an independent Python oracle over the raw node "
        "array (enumerated satisfying set / enumerated root-to-1 paths): None iff contradiction, min/max of the satisfying set, maximal "
        "count of true/false variables and least such, path membership, max/min number of literals, divergence rule for first/last clause, "
        "literals shared by all satisfying valuations, single cube / single valuation; (2) exact equality with the Coq model's result. "
        "Selectors whose result the property determines uniquely must equal the model; for sat_witness, random_*, most_fixed/most_free "
        "(ties) a result that satisfies the property but differs from the model is counted (differs_from_model), not flagged. "
        "non-trivial = operand with >=3 nodes (a decision node exists) and distinct (operation, operand, script)")
EXHAUSTIVE = {"quick": False, "thorough": False}

DET = ["sat_witness", "first_valuation", "last_valuation", "most_positive_valuation", "most_negative_valuation",
       "first_clause", "last_clause", "most_fixed_clause", "most_free_clause", "necessary_clause", "is_clause", "is_valuation"]
UNIQUE = {"first_valuation", "last_valuation", "most_positive_valuation", "most_negative_valuation", "first_clause", "last_clause",
          "necessary_clause", "is_clause", "is_valuation"}


SAMPLE_OPS = ("most_positive_valuation", "last_clause", "most_free_clause", "necessary_clause", "random_valuation", "random_clause")


def all_scripts(maxlen):
    out = []
    for k in range(maxlen + 1):
        out += ["v" + "".join(s) for s in itertools.product("01", repeat=k)]
    return out


def rand_script(rng, nv):
    k = rng.randrange(0, nv + 2)
    return "v" + "".join(rng.choice("01") for _ in range(k))


def family(b, scripts_v, scripts_c):
    bs = bdd_sx(b)
    prog = []
    for op in DET:
        prog.append([str(len(prog)), op, bs])
    for sc in scripts_v:
        prog.append([str(len(prog)), "random_valuation", bs, sc])
    for sc in scripts_c:
        prog.append([str(len(prog)), "random_clause", bs, sc])
    return prog


def embed(rng, k, tt, lo, hi):
    nv = rng.randint(max(lo, k), hi)
    variables = sorted(rng.sample(range(nv), k))
    return bdd_from_tt(nv, variables, tt)


def programs(rng, tier):
    progs = []
    quick = tier == "quick"
    # exhaustive small scopes
    for nv in (0, 1, 2, 3):
        scr = all_scripts(nv)
        for bits in itertools.product([False, True], repeat=1 << nv):
            b = bdd_from_tt(nv, list(range(nv)), list(bits))
            progs.append(family(b, scr, scr))
            # the same function embedded with gaps
            for _ in range(1 if quick else 6):
                e = embed(rng, nv, list(bits), nv + 1, 9)
                env = e[0][0]
                progs.append(family(e, [rand_script(rng, env) for _ in range(4)], [rand_script(rng, env) for _ in range(4)]))
    if not quick:
        for bits in itertools.product([False, True], repeat=16):
            b = bdd_from_tt(4, [0, 1, 2, 3], list(bits))
            progs.append(family(b, [rand_script(rng, 4) for _ in range(3)], [rand_script(rng, 4) for _ in range(3)]))
        for _ in range(12000):
            bits = [rng.random() < 0.5 for _ in range(16)]
            e = embed(rng, 4, bits, 5, 10)
            env = e[0][0]
            progs.append(family(e, [rand_script(rng, env) for _ in range(3)], [rand_script(rng, env) for _ in range(3)]))
    else:
        for _ in range(300):
            bits = [rng.random() < rng.choice([0.2, 0.5, 0.8]) for _ in range(16)]
            b = bdd_from_tt(4, [0, 1, 2, 3], bits)
            progs.append(family(b, [rand_script(rng, 4) for _ in range(3)], [rand_script(rng, 4) for _ in range(3)]))
    # random larger functions
    for _ in range(350 if quick else 15000):
        nv = rng.randint(5, 10)
        b = random_bdd(rng, nv, max_support=min(nv, rng.choice([3, 5, 6, 7])))
        ns = 3 if quick else 4
        progs.append(family(b, [rand_script(rng, nv) for _ in range(ns)], [rand_script(rng, nv) for _ in range(ns)]))
    # valid NON-REDUCED diagrams of the benign shape (redundant tests over non-false children; children stored before parents,
    # root last, everything reachable), as from_nodes / the readers accept them
    for _ in range(250 if quick else 8000):
        nv = rng.randint(2, 8)
        b = redundant_topo_variant(rng, random_bdd(rng, nv, max_support=min(nv, 5)), k=rng.randint(1, 3))
        progs.append(family(b, [rand_script(rng, nv) for _ in range(2)], [rand_script(rng, nv) for _ in range(2)]))
    # cubes and single valuations over many variables (is_clause / is_valuation / necessary_clause positives)
    for _ in range(60 if quick else 2000):
        nv = rng.randint(1, 10)
        cells = [rng.choice([None, False, True]) if rng.random() < 0.7 else rng.choice([False, True]) for _ in range(nv)]
        if rng.random() < 0.3:
            cells = [rng.choice([False, True]) for _ in range(nv)]
        vs = [i for i, c in enumerate(cells) if c is not None]
        b = bdd_from_fn(nv, vs, lambda a, cells=cells: all(a[i] == cells[i] for i in a))
        progs.append(family(b, [rand_script(rng, nv)], [rand_script(rng, nv)]))
    return progs


def benign_nonreduced(nodes):
    """valid, children before parents, root last and everything reachable from it, no decision node with both children 0"""
    if not is_wf(nodes) or len(nodes) < 3:
        return False
    n = len(nodes)
    for i in range(2, n):
        v, l, h = nodes[i]
        if l >= i or h >= i or (l == 0 and h == 0):
            return False
    reach = {n - 1}
    for i in range(n - 1, 1, -1):
        if i in reach:
            reach.add(nodes[i][1])
            reach.add(nodes[i][2])
    return all(i in reach for i in range(2, n))


# ----------------------------------------------------------------------------- independent oracle
_memo = {}


def facts(nodes):
    """everything the oracle needs about one raw node array, computed without model or library"""
    key = tuple(nodes)
    f = _memo.get(key)
    if f is not None:
        return f
    if len(_memo) > 64:
        _memo.clear()
    nv = nodes[0][0]
    tt = raw_tt(nodes)
    sat = [tuple(val_of_index(i, nv)) for i, t in enumerate(tt) if t]
    paths = []

    def dfs(p, acc):
        if p == 1:
            paths.append(tuple(acc))
            return
        if p == 0:
            return
        v, l, h = nodes[p]
        dfs(l, acc + [(v, False)])
        dfs(h, acc + [(v, True)])

    dfs(len(nodes) - 1, [])
    shared = {}
    if sat:
        for x in range(nv):
            vals = {s[x] for s in sat}
            if len(vals) == 1:
                shared[x] = vals.pop()
    f = {"nv": nv, "sat": sat, "satset": set(sat), "paths": paths, "shared": shared}
    _memo[key] = f
    return f


def pv_str(cells):
    """canonical rendering p01-: cells = dict var->bool"""
    n = max(cells) + 1 if cells else 0
    return "p" + "".join("-" if i not in cells else ("1" if cells[i] else "0") for i in range(n))


def val_of(a):
    return tuple(c == "1" for c in a[1:])


def extremal_path(paths, want_true):
    """the path that takes branch `want_true` wherever it diverges from any other path (None if there is none)"""
    for P in paths:
        ok = True
        for Q in paths:
            if Q is P:
                continue
            k = 0
            while k < len(P) and k < len(Q) and P[k] == Q[k]:
                k += 1
            if k >= len(P) or k >= len(Q) or P[k][0] != Q[k][0] or P[k][1] != want_true:
                ok = False
                break
        if ok:
            return P
    return None


def oracle(op, nodes, impl):
    """returns (holds, expected-description).  holds: does the implementation's answer satisfy the property on this operand"""
    F = facts(nodes)
    nv, sat, paths = F["nv"], F["sat"], F["paths"]
    if op == "is_clause":
        cube = bool(sat) and len(sat) == 1 << (nv - len(F["shared"]))
        want = "T" if cube else "F"
        return impl == want, want
    if op == "is_valuation":
        want = "T" if len(sat) == 1 else "F"
        return impl == want, want
    if not sat:
        return impl == "N", "N"
    if not (isinstance(impl, list) and len(impl) == 2 and impl[0] == "S"):
        return False, "Some(_)"
    r = impl[1]
    if op in ("sat_witness", "random_valuation"):
        return (len(r) == nv + 1 and val_of(r) in F["satset"]), "any of the %d satisfying valuations" % len(sat)
    if op == "first_valuation":
        want = vbits(min(sat))
        return r == want, want
    if op == "last_valuation":
        want = vbits(max(sat))
        return r == want, want
    if op == "most_positive_valuation":
        m = max(sum(s) for s in sat)
        want = vbits(min(s for s in sat if sum(s) == m))
        return r == want, want
    if op == "most_negative_valuation":
        m = max(nv - sum(s) for s in sat)
        want = vbits(min(s for s in sat if nv - sum(s) == m))
        return r == want, want
    pstrs = {pv_str(dict(P)): P for P in paths}
    if op == "random_clause":
        return r in pstrs, "any of the %d paths" % len(paths)
    if op == "most_fixed_clause":
        m = max(len(P) for P in paths)
        return (r in pstrs and len(pstrs[r]) == m), "a path with %d literals" % m
    if op == "most_free_clause":
        m = min(len(P) for P in paths)
        return (r in pstrs and len(pstrs[r]) == m), "a path with %d literals" % m
    if op in ("first_clause", "last_clause"):
        P = extremal_path(paths, op == "last_clause")
        want = pv_str(dict(P)) if P is not None else "?"
        return r == want, want
    if op == "necessary_clause":
        want = pv_str(F["shared"])
        return r == want, want
    raise RuntimeError("oracle: unknown operation " + op)


def judge(st, V):
    cid, call, impl, model, aux = st
    op = call[0]
    V.evaluations += 1
    V.count("op:" + op)
    nodes = bdd_nodes(call[1])
    if impl == "SKIP" or not operands_wf(call):
        V.skipped += 1
        return
    canon, _ = is_canonical(nodes)
    if not canon:
        # The property quantifies over Bdd values, which the library keeps canonical (C02); the selectors rely on that
        # (on arbitrary valid arrays they panic, answer wrongly or — random_clause on a diagram with a non-terminal false node —
        # do not return: recorded in DESIGN.md as outside the quantifier).  One non-canonical shape is judged all the same,
        # because the pinned selectors do meet the property on it and defects confined to it would otherwise go unseen:
        # non-REDUCED diagrams whose only irregularity is redundant tests over non-false children (`benign_nonreduced`).
        # `is_clause` is structural and answers false for a cube with a redundant test: not judged there.
        if not benign_nonreduced(nodes) or op == "is_clause":
            V.skipped += 1
            return
        V.count("operand:non-reduced(benign)")
    machinery_guard(st)
    V.count("nv:%d" % nodes[0][0])
    V.count("size:%s" % ("1-2" if len(nodes) < 3 else "3-6" if len(nodes) < 7 else "7-20" if len(nodes) < 21 else "21+"))
    V.count("outcome:" + (impl if isinstance(impl, str) else impl[0]))
    if op in SAMPLE_OPS and len(nodes) >= 6 and nodes[0][0] >= 4 and not any(x["step"].startswith("(" + op + " ") for x in V.samples):
        V.samples.append({"step": sx_str(call)[:600], "impl": sx_str(impl)[:300], "model": sx_str(model)[:300]})
    holds, want = oracle(op, nodes, impl)
    if not holds:
        V.violations.append(violation(PID, st, "%s: the returned value is not the member the property demands" % op,
                                      oracle={"operand": sx_str(call[1]), "truth_table": tt_str(raw_tt(nodes)), "expected": want,
                                              "observed": sx_str(impl), "script": call[2] if len(call) > 2 else None},
                                      confirmed=True, relation="independent oracle over the raw array"))
        return
    if impl != model:
        if op in UNIQUE or model in ("PANIC",):
            # the property pins the value, the implementation has it, the model does not: the model is not faithful,
            # so the theorems do not transfer to the code
            V.violations.append(violation(PID, st, "%s: implementation satisfies the property but the Coq model returns something else" % op,
                                          oracle={"expected": want, "observed": sx_str(impl), "model": sx_str(model)}, confirmed=False,
                                          relation="exact equality with the model"))
            return
        V.count("differs_from_model:" + op)
    if len(nodes) >= 3:
        V.nontrivial.add(key_of(call))


# ----------------------------------------------------------------------------- extraction cross-check
_cross = {"cases": 0, "agree": 0}


def _coq_bdd(x):
    return "[" + "; ".join("mkNode %d %d %d" % nd for nd in bdd_nodes(x)) + "]"


def _coq_bits(a):
    return "[" + "; ".join("true" if c == "1" else "false" for c in a[1:]) + "]"


def _codes_of_model(model):
    """the model driver's answer as the code list printed by the Coq side"""
    if model == "PANIC":
        return [7]
    if model == "FUEL":
        return [6]
    if model in ("T", "F"):
        return [8, 1 if model == "T" else 0]
    if model == "N":
        return [9]
    body = model[1][1:]
    return [8] + [{"0": 0, "1": 1, "-": 2}[c] for c in body]


def finalize(steps, V):
    """re-evaluates a sample of steps with vm_compute inside coqc (kernel evaluation of the Coq model) and compares
    with the answers of the extracted OCaml model"""
    import re
    import tempfile
    seen = {}
    for st in steps:
        cid, call, impl, model, aux = st
        if len(bdd_nodes(call[1])) >= 4 and isinstance(model, (str, list)) and seen.get(call[0], 0) < 3:
            seen[call[0]] = seen.get(call[0], 0) + 1
            seen.setdefault("_", []).append(st)
    sample_steps = seen.get("_", [])
    if not sample_steps:
        return
    lines = ["From Coq Require Import List NArith. Import ListNotations.",
             "From BddVerif Require Import Model.Bdd Model.Apply Model.Ops Model.Select.", "Open Scope N_scope.",
             "Definition sv (o : outcome (option (list bool))) : list N := match o with Ok None => [9] | Ok (Some l) => 8 :: map (fun c : bool => if c then 1 else 0) l | Panic => [7] | OutOfFuel => [6] end.",
             "Definition sp (o : outcome (option pval)) : list N := match o with Ok None => [9] | Ok (Some l) => 8 :: map (fun c => match c with None => 2 | Some true => 1 | Some false => 0 end) l | Panic => [7] | OutOfFuel => [6] end.",
             "Definition sb (o : outcome bool) : list N := match o with Ok c => [8; if c then 1 else 0] | Panic => [7] | OutOfFuel => [6] end."]
    for (cid, call, impl, model, aux) in sample_steps:
        op = call[0]
        show = "sb" if op in ("is_clause", "is_valuation") else "sp" if op.endswith("clause") else "sv"
        arg = _coq_bdd(call[1]) + ((" " + _coq_bits(call[2])) if len(call) > 2 else "")
        lines.append("Eval vm_compute in %s (%s %s)." % (show, op, arg))
    with tempfile.TemporaryDirectory() as d:
        path = os.path.join(d, "c11cases.v")
        open(path, "w").write("\n".join(lines) + "\n")
        rc, out, err = run_cmd(["timeout", "600", "coqc", "-noglob", "-Q", COQ_DIR, "BddVerif", path], cwd=d, timeout=700)
    if rc != 0:
        raise RuntimeError("C11 vm_compute cross-check failed to compile: " + (out + err)[-2000:])
    vals = re.findall(r"=\s*\[(.*?)\]\s*:\s*list N", out.replace("%N", ""), flags=re.S)
    if len(vals) != len(sample_steps):
        raise RuntimeError("C11 vm_compute cross-check: %d answers for %d cases" % (len(vals), len(sample_steps)))
    agree = 0
    for (cid, call, impl, model, aux), v in zip(sample_steps, vals):
        got = [int(x) for x in re.findall(r"\d+", v)]
        want = _codes_of_model(model)
        if call[0].endswith("clause"):
            while got and got[-1] == 2:
                got.pop()   # the driver prints clauses canonically (trailing unset cells dropped)
        if got == want:
            agree += 1
    _cross["cases"], _cross["agree"] = len(sample_steps), agree
    if agree != len(sample_steps):
        raise RuntimeError("extracted model disagrees with vm_compute on %d of %d sampled C11 steps" % (len(sample_steps) - agree, len(sample_steps)))


def extra(V):
    return {"vm_compute_crosscheck": dict(_cross)}
