"""C03 — quantification and nested apply equal operate-then-project."""
from common import *
from props.base import *

PID = "C03"
RULE = ("exists/for_all/var_exists/var_for_all/binary_op_with_exists/binary_op_with_for_all/binary_op_nested: every function pair of <=2 "
        "variables x every variable subset (as a list in random order with random repetitions), random operands over 3..8 variables with "
        "skipped levels and non-canonical operands, random outer tables (all 16 connectives), random trigger predicates with inner or/and "
        "(lazy and eager table forms). relation: canon(impl)=canon(model) where the model is operate-then-project-one-variable-at-a-time. "
        "non-trivial = non-constant operands, at least one quantified variable in the operand's support... (counted: result >=1 node, operands >=3 nodes, "
        "non-empty variable list)")


def dup_perm(rng, xs):
    xs = list(xs)
    extra = [rng.choice(xs) for _ in range(rng.randrange(0, 3))] if xs else []
    out = xs + extra
    rng.shuffle(out)
    return out


def subsets(n):
    for mask in range(1 << n):
        yield [i for i in range(n) if mask >> i & 1]


def programs(rng, tier):
    P = Prog()
    OR_T = lambda: partial_table(rng, (False, True, True, True))
    AND_T = lambda: partial_table(rng, (False, False, False, True))
    for nv in (1, 2, 3):
        fs = all_functions(nv)
        if nv == 3 and tier == "quick":
            fs = rng.sample(fs, 24)
        for a in fs:
            for xs in subsets(nv):
                vs = ["L"] + [str(x) for x in dup_perm(rng, xs)]
                P.add([rng.choice(["exists", "for_all"]), bdd_sx(a), vs])
            for x in range(nv):
                P.add([rng.choice(["var_exists", "var_for_all"]), bdd_sx(a), str(x)])
        pairs = [(a, b) for a in fs for b in fs]
        if len(pairs) > 300 and tier == "quick":
            pairs = rng.sample(pairs, 300)
        for a, b in pairs:
            xs = rng.choice(list(subsets(nv)))
            vs = ["L"] + [str(x) for x in dup_perm(rng, xs)]
            P.add([rng.choice(["bin_exists", "bin_for_all"]), partial_table(rng, rng.choice(CONNS)), bdd_sx(a), bdd_sx(b), vs])
    nrand = 1500 if tier == "quick" else 40000
    for _ in range(nrand):
        nv = rng.choice([3, 4, 4, 5, 6, 8])
        a, b = rand_operand(rng, nv), rand_operand(rng, nv)
        xs = [x for x in range(nv) if rng.random() < 0.4]
        vs = ["L"] + [str(x) for x in dup_perm(rng, xs)]
        k = rng.random()
        if k < 0.2:
            P.add([rng.choice(["exists", "for_all"]), bdd_sx(a), vs])
        elif k < 0.3:
            P.add([rng.choice(["var_exists", "var_for_all"]), bdd_sx(a), str(rng.randrange(nv))])
        elif k < 0.65:
            P.add([rng.choice(["bin_exists", "bin_for_all"]), partial_table(rng, rng.choice(CONNS)), bdd_sx(a), bdd_sx(b), vs])
        else:
            trig = "v" + "".join(rng.choice("01") for _ in range(rng.choice([nv, nv, max(0, nv - 2), nv + 2])))
            inner = OR_T() if rng.random() < 0.5 else AND_T()
            P.add(["nested", partial_table(rng, rng.choice(CONNS)), inner, bdd_sx(a), bdd_sx(b), trig])
    # iterated var_exists equals exists (array equality through the API)
    for _ in range(150 if tier == "quick" else 3000):
        nv = rng.choice([3, 4, 5])
        a = rand_operand(rng, nv, 0.0)
        xs = rng.sample(range(nv), rng.randrange(1, nv + 1))
        prog = [["a", "id", bdd_sx(a)], ["all", "exists", "$a", ["L"] + [str(x) for x in xs]]]
        prev = "a"
        for i, x in enumerate(xs):
            prog.append(["s%d" % i, "var_exists", "$" + prev, str(x)])
            prev = "s%d" % i
        prog.append(["same", "eq", "$all", "$" + prev])
        P.add_prog(prog)
    return P.progs


def judge(st, V):
    cid, call, impl, model, aux = st
    if call[0] == "id":
        return
    if call[0] == "eq":
        V.evaluations += 1
        if impl == "SKIP":
            V.skipped += 1
        elif impl != "T":
            V.violations.append(violation(PID, st, "exists over a list differs from iterated var_exists", confirmed=True,
                                          oracle={"exists": sx_str(call[1]), "iterated": sx_str(call[2])}, relation="== of arrays"))
        return
    judge_semantic(PID, st, V, min_result_nodes=1)
    k = key_of(call)
    if k in V.nontrivial:
        # needs a non-empty quantified set
        lst = [x for x in call[1:] if isinstance(x, list) and x and x[0] == "L"]
        if lst and len(lst[0]) == 1:
            V.nontrivial.discard(k)
        if call[0] == "nested" and "1" not in call[5]:
            V.nontrivial.discard(k)
