"""C03 — quantification and nested apply equal operate-then-project."""
from common import *
from props.base import *

PID = "C03"
RULE = ("exists/for_all/var_exists/var_for_all (and the deprecated aliases project/var_project)/binary_op_with_exists/binary_op_with_for_all/binary_op_nested: every function pair of <=2 "
        "variables x every variable subset (as a list in random order with random repetitions), random operands over 3..8 variables with "
        "skipped levels and non-canonical operands, few-node operands over 65..2000 variables with support and quantified variables beyond "
        "variable 63 / 255, random outer tables (all 16 connectives), random trigger predicates with inner or/and "
        "(lazy and eager table forms). relation: canon(impl)=canon(model) where the model is operate-then-project-one-variable-at-a-time. "
        "non-trivial = non-constant operands, at least one quantified variable in the operand's support... (counted: result >=1 node, operands >=3 nodes, "
        "non-empty variable list). "
        "LARGE operands (model side: the proved-equal fast nested apply, Model/NestedFast.v, Proofs/NestedFast.v): exists/for_all of a random "
        "function of 20 variables (>70,000 nodes; the result store and the inner-engine tasks exceed 65,536) over two variables of the lower "
        "levels; bin_exists/bin_for_all of a small function of 2..3 of the same variables and the large one (large operand on the right; "
        "thorough: also on the left, a middle variable, nested with a trigger vector and inner or/and); exists/for_all x_k of "
        "f = (if x0 then G else if x1 then A else B) over 22 variables, k = 1, G random and independent of x1 (>100,000 nodes, left unchanged by "
        "the projection), A and B random functions of five odd resp. even variables: the inner engine runs on fresh store pointers above "
        "65,536, one side descending at a time; medium operands "
        "over 10..11 variables. "
        "Results above 400 nodes are compared as arrays with the (proved canonical) model result; failing-input oracle there: raw evaluation "
        "of the operands over all assignments of the quantified variables, on 3000 random valuations")


def dup_perm(rng, xs):
    xs = list(xs)
    extra = [rng.choice(xs) for _ in range(rng.randrange(0, 3))] if xs else []
    out = xs + extra
    rng.shuffle(out)
    return out


def partial_conn(rng):
    """consistent partial table of a connective that depends on both arguments"""
    conns = [c for c in CONNS if (c[0], c[1]) != (c[2], c[3]) and (c[0], c[2]) != (c[1], c[3])]
    return partial_table(rng, rng.choice(conns))


def split_operand(rng, nv=22):
    """f = if x0 then G else (if x1 then A else B) over nv variables, to be projected on x1: G is a random function of the
    variables 2..nv-1 (about 107,000 nodes for nv = 22; independent of x1, so the projection leaves it unchanged and the
    result store is above 65,536 nodes when the x0 = 0 half is processed), A and B are random functions of five variables
    each, drawn from the odd resp. even variables (interleaved supports: the inner engine, combining B with A, pairs ADJACENT
    fresh store pointers above 65,536 with the same partner, one side descending at a time).  Returns (array of f, 1)."""
    mask = tt_mask(nv)
    v0, v1 = tt_var(nv, 0), tt_var(nv, 1)
    r = big_random_tt(rng, nv)
    c0 = r & ~v1 & mask
    g = c0 | (c0 >> (1 << (nv - 2)))           # independent of x1
    odd = sorted(rng.sample([x for x in range(2, nv) if x % 2 == 1], 5))
    even = sorted(rng.sample([x for x in range(2, nv) if x % 2 == 0], 5))
    if rng.random() < 0.5:
        odd, even = even, odd
    a = tt_of_small(nv, odd, [rng.random() < 0.5 for _ in range(32)])
    b = tt_of_small(nv, even, [rng.random() < 0.5 for _ in range(32)])
    f = (v0 & g) | (~v0 & mask & ((v1 & a) | (~v1 & mask & b)))
    return big_bdd_from_tt(nv, tt_to_bytes(nv, f)), 1


def subsets(n):
    for mask in range(1 << n):
        yield [i for i in range(n) if mask >> i & 1]


def programs(rng, tier):
    P = Prog()
    progs_seq = []
    OR_T = lambda: partial_table(rng, (False, True, True, True))
    AND_T = lambda: partial_table(rng, (False, False, False, True))
    for nv in (1, 2, 3):
        fs = all_functions(nv)
        if nv == 3 and tier == "quick":
            fs = rng.sample(fs, 24)
        for a in fs:
            for xs in subsets(nv):
                vs = ["L"] + [str(x) for x in dup_perm(rng, xs)]
                P.add([rng.choice(["exists", "for_all"]), bdd_sx(a), vs])
            for x in range(nv):
                P.add([rng.choice(["var_exists", "var_for_all"]), bdd_sx(a), str(x)])
            # the deprecated aliases project / var_project (= exists / var_exists)
            P.add(["project", bdd_sx(a), ["L"] + [str(x) for x in dup_perm(rng, rng.choice(list(subsets(nv))))]])
            P.add(["var_project", bdd_sx(a), str(rng.randrange(nv))])
        pairs = [(a, b) for a in fs for b in fs]
        if len(pairs) > 300 and tier == "quick":
            pairs = rng.sample(pairs, 300)
        for a, b in pairs:
            xs = rng.choice(list(subsets(nv)))
            vs = ["L"] + [str(x) for x in dup_perm(rng, xs)]
            P.add([rng.choice(["bin_exists", "bin_for_all"]), partial_table(rng, rng.choice(CONNS)), bdd_sx(a), bdd_sx(b), vs])
    nrand = 1500 if tier == "quick" else 40000
    for _ in range(nrand):
        nv = rng.choice([3, 4, 4, 5, 6, 8])
        a, b = rand_operand(rng, nv), rand_operand(rng, nv)
        xs = [x for x in range(nv) if rng.random() < 0.4]
        vs = ["L"] + [str(x) for x in dup_perm(rng, xs)]
        k = rng.random()
        if k < 0.2:
            P.add([rng.choice(["exists", "for_all", "project"]), bdd_sx(a), vs])
        elif k < 0.3:
            P.add([rng.choice(["var_exists", "var_for_all", "var_project"]), bdd_sx(a), str(rng.randrange(nv))])
        elif k < 0.65:
            P.add([rng.choice(["bin_exists", "bin_for_all"]), partial_table(rng, rng.choice(CONNS)), bdd_sx(a), bdd_sx(b), vs])
        else:
            trig = "v" + "".join(rng.choice("01") for _ in range(rng.choice([nv, nv, max(0, nv - 2), nv + 2])))
            inner = OR_T() if rng.random() < 0.5 else AND_T()
            P.add(["nested", partial_table(rng, rng.choice(CONNS)), inner, bdd_sx(a), bdd_sx(b), trig])
    # many variables: few-node functions over 65..2000 variables whose support reaches beyond variable 63 / 255 (a variable
    # set kept as a 64-bit mask or an 8-bit index would lose them), quantifying supported and unsupported variables of both kinds
    for _ in range(150 if tier == "quick" else 4000):
        nv = rng.choice([65, 66, 70, 100, 128, 129, 200, 257, 300, 1000, 2000])
        k = rng.randrange(2, 6)
        sup = sorted(set(rng.sample(range(nv), k)) | {rng.randrange(64, nv)})
        a = bdd_from_tt(nv, sup, [rng.random() < 0.5 for _ in range(1 << len(sup))])
        sup_b = sorted(set(rng.sample(sup, rng.randrange(1, len(sup) + 1))) | ({rng.randrange(nv)} if rng.random() < 0.5 else set()))[:5]
        b = bdd_from_tt(nv, sup_b, [rng.random() < 0.5 for _ in range(1 << len(sup_b))])
        qs = [x for x in sup if rng.random() < 0.5] + [rng.randrange(nv) for _ in range(rng.randrange(0, 3))]
        if rng.random() < 0.6:
            qs.append(max(sup))
        vs = ["L"] + [str(x) for x in dup_perm(rng, sorted(set(qs)))]
        kk = rng.random()
        if kk < 0.3:
            P.add([rng.choice(["exists", "for_all", "project"]), bdd_sx(a), vs])
        elif kk < 0.4:
            P.add([rng.choice(["var_exists", "var_for_all", "var_project"]), bdd_sx(a), str(rng.choice(sup))])
        elif kk < 0.8:
            P.add([rng.choice(["bin_exists", "bin_for_all"]), partial_table(rng, rng.choice(CONNS)), bdd_sx(a), bdd_sx(b), vs])
        else:
            trig = "v" + "".join("1" if (x in qs) else "0" for x in range(nv))
            P.add(["nested", partial_table(rng, rng.choice(CONNS)), OR_T() if rng.random() < 0.5 else AND_T(), bdd_sx(a), bdd_sx(b), trig])
    # re-entrant use: the trigger closure of binary_op_nested itself runs quantifications (on a third operand) before answering
    for _ in range(60 if tier == "quick" else 1500):
        nv = rng.choice([4, 5, 6, 8])
        a, b, side = rand_operand(rng, nv, 0.0), rand_operand(rng, nv, 0.0), random_bdd(rng, nv, max_support=min(nv, 6))
        trig = "v" + "".join("1" if (x < nv // 2 or rng.random() < 0.3) else "0" for x in range(nv))
        P.add(["nested_re", partial_table(rng, rng.choice(CONNS)), OR_T() if rng.random() < 0.5 else AND_T(), bdd_sx(a), bdd_sx(b), trig, bdd_sx(side)])
    # long quantifier lists that form ONE contiguous block of 16..40 variables (in order, reversed or shuffled), the supported
    # variables sitting at the first and at the LAST position of the block
    for _ in range(40 if tier == "quick" else 1200):
        nv = rng.choice([17, 20, 24, 33, 40, 64])
        width = rng.randrange(16, min(nv, 40) + 1)
        lo = rng.randrange(0, nv - width + 1)
        block = list(range(lo, lo + width))
        sup = sorted({block[0], block[-1]} | set(rng.sample(range(nv), rng.randrange(1, 3))))
        a = bdd_from_tt(nv, sup, [rng.random() < 0.5 for _ in range(1 << len(sup))])
        supb = sorted(set(rng.sample(sup, rng.randrange(1, len(sup) + 1))))
        b = bdd_from_tt(nv, supb, [rng.random() < 0.5 for _ in range(1 << len(supb))])
        order = rng.random()
        vsl = block if order < 0.5 else block[::-1] if order < 0.7 else rng.sample(block, len(block))
        vs = ["L"] + [str(x) for x in vsl]
        kk = rng.random()
        if kk < 0.5:
            P.add([rng.choice(["exists", "for_all", "project"]), bdd_sx(a), vs])
        else:
            P.add([rng.choice(["bin_exists", "bin_for_all"]), partial_table(rng, rng.choice(CONNS)), bdd_sx(a), bdd_sx(b), vs])
    # thousands of variables with decision variables CONGRUENT modulo 256 / 1024 / 4096 / 32768 (a per-variable table indexed by
    # the variable modulo a power of two confuses them): exactly one of each congruent pair is quantified
    for _ in range(60 if tier == "quick" else 1500):
        m = rng.choice([256, 1024, 4096, 4096, 32768])
        nv = rng.choice([2 * m + 10, 3 * m + 5, min(65000, 5 * m + 77)])
        base = rng.randrange(0, min(m, 50))
        pair = [base, base + m * rng.randrange(1, (nv - 1 - base) // m + 1)]
        others = rng.sample(range(nv), rng.randrange(0, 3))
        sup = sorted(set(pair + others))
        a = bdd_from_tt(nv, sup, [rng.random() < 0.5 for _ in range(1 << len(sup))])
        supb = sorted(set(rng.sample(sup, rng.randrange(1, len(sup) + 1))))
        b = bdd_from_tt(nv, supb, [rng.random() < 0.5 for _ in range(1 << len(supb))])
        q = [rng.choice(pair)] + ([rng.choice(others)] if others and rng.random() < 0.4 else [])
        vs = ["L"] + [str(x) for x in dup_perm(rng, q)]
        kk = rng.random()
        if kk < 0.4:
            P.add([rng.choice(["exists", "for_all"]), bdd_sx(a), vs])
        elif kk < 0.5:
            P.add([rng.choice(["var_exists", "var_for_all"]), bdd_sx(a), str(q[0])])
        else:
            P.add([rng.choice(["bin_exists", "bin_for_all"]), partial_table(rng, rng.choice(CONNS)), bdd_sx(a), bdd_sx(b), vs])
    # large operands: outer/inner task caches keyed by pointer pairs, store above 65,536 nodes
    BIG_NV = 20
    for r in range(1 if tier == "quick" else 3):
        big = big_random_bdd(rng, BIG_NV)
        assert len(big) > 70000
        bs = bdd_sx(big)
        low = lambda k: ["L"] + [str(x) for x in dup_perm(rng, rng.sample(range(14, BIG_NV), k))]
        P.add([rng.choice(["exists", "for_all"]) if tier == "thorough" else "exists", bs, low(2)])
        small = small_fn_tt(rng, BIG_NV)[0]
        sv = sorted({n[0] for n in small[2:]})
        P.add([rng.choice(["bin_exists", "bin_for_all"]) if tier == "thorough" else "bin_exists",
               partial_conn(rng),
               bdd_sx(small), bs, ["L", str(rng.choice(sv)), str(rng.randrange(15, BIG_NV))]])
        # inner engine on store pointers above 65,536 with skipped levels
        f, k = split_operand(rng)
        assert len(f) > 70000 and is_canonical(f)[0]
        P.add([rng.choice(["exists", "for_all"]), bdd_sx(f), ["L", str(k)]])
        if tier == "thorough":
            P.add(["for_all", bs, low(1)])
            P.add(["exists", bs, ["L", str(rng.randrange(8, 14))]])
            P.add(["bin_for_all", partial_conn(rng), bs, bdd_sx(small), ["L", str(rng.choice(sv)), str(rng.randrange(15, BIG_NV))]])
            trig = "v" + "".join("1" if (x in sv[:1] or x == 17) else "0" for x in range(BIG_NV))
            P.add(["nested", partial_conn(rng), OR_T() if rng.random() < 0.5 else AND_T(), bdd_sx(small), bs, trig])
    for _ in range(3 if tier == "quick" else 30):
        mv = rng.choice([10, 11])
        x, y = big_random_bdd(rng, mv), big_random_bdd(rng, mv)
        vs = ["L"] + [str(v) for v in dup_perm(rng, rng.sample(range(mv), 2))]
        k = rng.randrange(3)
        if k == 0:
            P.add([rng.choice(["exists", "for_all"]), bdd_sx(x), vs])
        elif k == 1:
            P.add([rng.choice(["bin_exists", "bin_for_all"]), partial_conn(rng), bdd_sx(x), bdd_sx(y), vs])
        else:
            trig = "v" + "".join("1" if str(v) in vs else "0" for v in range(mv))
            P.add(["nested", partial_conn(rng), OR_T() if rng.random() < 0.5 else AND_T(), bdd_sx(x), bdd_sx(y), trig])
    # a quantifier / nested operator right AFTER a call that gave up early on the same thread (size-limited operator answering
    # None, dry run over its limit, cmp_implies on incomparable operands): one program = one thread
    for _ in range(120 if tier == "quick" else 3000):
        nv = rng.choice([3, 4, 5, 6])
        a, b, c = (rand_operand(rng, nv, 0.0) for _ in range(3))
        xs = [x for x in range(nv) if rng.random() < 0.5] or [0]
        vs = ["L"] + [str(x) for x in xs]
        first = rng.choice([["binlim", str(rng.choice([0, 1, 2])), partial_table(rng, rng.choice(CONNS)), "$a", "$b"],
                            ["drybin", str(rng.choice([0, 1])), partial_table(rng, rng.choice(CONNS)), "$a", "$b"],
                            ["cmp_implies", "$a", "$b"], ["cmp_implies", "$b", "$a"]])
        second = rng.choice([["exists", "$c", vs], ["for_all", "$c", vs], ["bin_exists", partial_table(rng, rng.choice(CONNS)), "$a", "$c", vs],
                             ["nested", partial_table(rng, rng.choice(CONNS)), OR_T() if rng.random() < 0.5 else AND_T(), "$b", "$c",
                              "v" + "".join("1" if x in xs else "0" for x in range(nv))]])
        progs_seq.append([["a", "id", bdd_sx(a)], ["b", "id", bdd_sx(b)], ["c", "id", bdd_sx(c)], ["g"] + first, ["q"] + second])
    # iterated var_exists equals exists (array equality through the API)
    for _ in range(150 if tier == "quick" else 3000):
        nv = rng.choice([3, 4, 5])
        a = rand_operand(rng, nv, 0.0)
        xs = rng.sample(range(nv), rng.randrange(1, nv + 1))
        prog = [["a", "id", bdd_sx(a)], ["all", "exists", "$a", ["L"] + [str(x) for x in xs]]]
        prev = "a"
        for i, x in enumerate(xs):
            prog.append(["s%d" % i, "var_exists", "$" + prev, str(x)])
            prev = "s%d" % i
        prog.append(["same", "eq", "$all", "$" + prev])
        P.add_prog(prog)
    # list storms: several projections of ONE operand inside one program (one worker thread) over lists that a cheap fingerprint
    # cannot tell apart — same length, smallest and largest entry and sum (one entry moved up and another down), the same entries
    # in another order, one entry repeated in place of another: a variable set remembered from the previous call under such a
    # key projects the wrong variables
    storms = []
    for _ in range(150 if tier == "quick" else 3000):
        nv = rng.choice([5, 6, 7, 8])
        a = rand_operand(rng, nv, 0.0)
        b = rand_operand(rng, nv, 0.0)
        xs = sorted(rng.sample(range(nv), rng.randrange(3, nv)))
        lists = [list(xs)]
        for _k in range(rng.choice([1, 2, 3])):
            ys = list(lists[-1])
            kind = rng.choice(["shift", "shift", "dup", "perm"])
            if kind == "shift" and len(ys) >= 4:
                i, j = sorted(rng.sample(range(1, len(ys) - 1), 2))
                ys[i], ys[j] = max(ys[0], ys[i] - 1), min(ys[-1], ys[j] + 1)      # same length, ends and (mostly) sum
            elif kind == "dup" and len(ys) >= 3:
                i = rng.randrange(1, len(ys) - 1)
                ys[i] = ys[i - 1] if rng.random() < 0.5 else ys[i + 1]
            else:
                rng.shuffle(ys)
            lists.append(ys)
        prog = [["a", "id", bdd_sx(a)], ["b", "id", bdd_sx(b)]]
        for i, ys in enumerate(lists):
            vs = ["L"] + [str(y) for y in ys]
            prog.append(["q%d" % i] + rng.choice([["exists", "$a", vs], ["for_all", "$a", vs], ["exists", "$a", vs],
                                                  ["bin_exists", partial_table(rng, rng.choice(CONNS)), "$a", "$b", vs],
                                                  ["bin_for_all", partial_table(rng, rng.choice(CONNS)), "$a", "$b", vs]]))
        storms.append(prog)
    progs_seq.extend(storms)
    return P.progs + progs_seq


def judge(st, V):
    cid, call, impl, model, aux = st
    if call[0] in ("id", "binlim", "drybin", "cmp_implies"):
        return          # the calls that give up early in the sequence programs: judged by C05 / C18, here only their after-effects
    if call[0] == "eq":
        V.evaluations += 1
        if impl == "SKIP":
            V.skipped += 1
        elif impl != "T":
            V.violations.append(violation(PID, st, "exists over a list differs from iterated var_exists", confirmed=True,
                                          oracle={"exists": sx_str(call[1]), "iterated": sx_str(call[2])}, relation="== of arrays"))
        return
    judge_semantic(PID, st, V, min_result_nodes=1)
    if any(is_bdd(x) and len(x) > 3 * 65536 for x in call[1:]):
        V.count("large-operand(>65536 nodes):" + call[0])
    k = key_of(call)
    if k in V.nontrivial:
        # needs a non-empty quantified set
        lst = [x for x in call[1:] if isinstance(x, list) and x and x[0] == "L"]
        if lst and len(lst[0]) == 1:
            V.nontrivial.discard(k)
        if call[0] == "nested" and "1" not in call[5]:
            V.nontrivial.discard(k)
