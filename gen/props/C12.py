"""C12 — text, binary and node-list serialisation round-trips under any I/O chunking."""
from common import *
from props.base import *
from props.serial_oracle import *

PID = "C12"
CROSSCHECK = False
RULE = ("every Bdd b is written (to_bytes/to_string, computed by the library) and read back through a scripted stream "
        "(read_bytes_sched / read_string_sched), and written through a scripted writer (write_bytes_sched / write_string_sched); "
        "schedules: ALL compositions of the 10-byte stream of a one-node Bdd into chunks 1..10; for every function of <=2 variables "
        "(+ sampled 3-variable ones, the empty array and raw arrays with 16/32-bit extreme fields): uniform chunk sizes 1..11, every "
        "two-way split position, random compositions into chunks 1..11 with interruptions, and a failure (rotating ErrorKind incl. "
        "unexpected_eof, interrupted) injected at EVERY event index of a base schedule; random diagrams over 4..10 variables incl. "
        "non-canonical ones, few-node diagrams over up to 65535 variables, and chains of >65,536 nodes with random schedules; text with "
        "ASCII whitespace inserted around separators; the panicking forms from_bytes/from_string on the library's own output (and on "
        "corrupted output: model = read + expect); to_nodes/from_nodes on valid diagrams. relation: exact equality of the outcome "
        "(OK bdd / ERR / PANIC, or (OK|ERR, bytes accepted)) with the Coq model AND with an independent Python re-implementation of the "
        "formats and of the stream semantics. non-trivial = operand/stream of >=3 nodes and (for scheduled ops) >=2 schedule events; "
        "distinct by (op, operands, schedule)")
EXHAUSTIVE = {"quick": False, "thorough": False}


def raw_extreme(rng, n):
    """arbitrary node triples (not a valid diagram) with fields at the u16/u32 extremes: serialisation must not care"""
    vals16 = [0, 1, 255, 256, 257, 65534, 65535]
    vals32 = [0, 1, 255, 256, 65535, 65536, 65537, 16777215, 16777216, 4294967294, 4294967295]
    return [(rng.choice(vals16), rng.choice(vals32), rng.choice(vals32)) for _ in range(n)]


def chain(rng, n, nv=65535):
    """valid, non-reduced diagram of n nodes: a chain whose low links jump to random earlier nodes of larger variable"""
    nodes = [(nv, 0, 0), (nv, 1, 1)]
    for i in range(n - 2):
        v = nv - 1 - (i % nv)
        if i >= nv:       # variables wrap around: no longer ordered, still a legal input for the serialiser
            nodes.append((v, rng.randrange(len(nodes)), len(nodes) - 1))
        else:
            nodes.append((v, rng.choice([0, 1, len(nodes) - 1, rng.randrange(len(nodes))]), len(nodes) - 1 if i else 1))
    return nodes


def gap_bdd(rng):
    nv = rng.choice([256, 257, 300, 1000, 5000, 65535])
    k = rng.randint(1, 6)
    vs = sorted(rng.sample(range(nv), k))
    return bdd_from_fn(nv, vs, lambda a: sum(a.values()) % 2 == 1 or a[vs[0]])


def inject(rng, events, i, kind):
    return events[:i] + [("E", kind)] + events[i:]


def ws_variant(rng, text):
    """insert ASCII whitespace before / after separators and at both ends"""
    out = []
    for ch in text.decode("ascii"):
        if ch in "|," and rng.random() < 0.5:
            out.append("".join(rng.choice(ASCII_WS) for _ in range(rng.randint(1, 3))))
        out.append(ch)
        if ch in "|," and rng.random() < 0.5:
            out.append("".join(rng.choice(ASCII_WS) for _ in range(rng.randint(1, 3))))
    return "".join(out).encode("ascii")


def family(rng, b, tier, rich):
    """one program: the library's own to_bytes/to_string output read back under many schedules, and scripted writes"""
    prog = [["a", "id", bdd_sx(b)], ["y", "to_bytes", "$a"], ["s", "to_string", "$a"]]
    nb, nt = 10 * len(b), len(py_to_text(b))
    cnt = [0]

    def add(op, first, ev):
        cnt[0] += 1
        prog.append(["c%d" % cnt[0], op, first, sched_sx(ev)])

    def both_r(evb, evt):
        add("read_bytes_sched", "$y", evb)
        add("read_string_sched", "$s", evt)

    def both_w(evb, evt):
        add("write_bytes_sched", "$a", evb)
        add("write_string_sched", "$a", evt)

    both_r([], [])
    both_w([], [])
    # the panicking forms Bdd::from_bytes / Bdd::from_string (read + expect) on the library's own output
    prog.append(["fb", "from_bytes", "$y"])
    prog.append(["fs", "from_string", "$s"])
    if rich:
        for c in range(1, 12):
            both_r([("C", c)] * (nb // c + 1), [("C", c)] * (nt // c + 1))
            both_w([("C", c)] * (nb // c + 1), [("C", c)] * (nt // c + 1))
        for p in range(0, nb + 1):
            add("read_bytes_sched", "$y", [("C", p)] if rng.random() < 0.5 else [("C", p), ("I",), ("C", nb - p)])
            add("write_bytes_sched", "$a", [("C", p)] if rng.random() < 0.5 else [("C", p), ("I",), ("C", nb - p)])
        for p in range(0, nt + 1):
            add("read_string_sched", "$s", [("C", p)] if rng.random() < 0.5 else [("C", p), ("C", nt - p), ("I",)])
            add("write_string_sched", "$a", [("C", p)])
    nr = (6 if tier == "quick" else 30) if rich else 3
    for _ in range(nr):
        both_r(random_clean_schedule(rng, nb, cover=rng.random() < 0.7), random_clean_schedule(rng, nt, cover=rng.random() < 0.7))
        both_w(random_clean_schedule(rng, nb, cover=rng.random() < 0.7), random_clean_schedule(rng, nt, cover=rng.random() < 0.7))
    # a failure at every event index of a base schedule
    ninj = 2 if rich else 1
    kinds = KINDS + ["interrupted"]
    for j in range(ninj):
        mc = rng.choice([1, 3, 7, 11])
        for op, first, total in (("read_bytes_sched", "$y", nb), ("read_string_sched", "$s", nt),
                                 ("write_bytes_sched", "$a", nb), ("write_string_sched", "$a", nt)):
            base = random_clean_schedule(rng, total + rng.choice([0, 0, 5]), maxchunk=mc)
            idxs = range(len(base) + 1)
            if not rich and len(base) > 12:
                idxs = sorted(rng.sample(range(len(base) + 1), 12))
            for i in idxs:
                add(op, first, inject(rng, base, i, kinds[(i + j) % len(kinds)]))
    # the panicking forms on corrupted output (a truncated stream, a stray character)
    raw_b, raw_t = py_to_bytes(b), py_to_text(b)
    if raw_b:
        cnt[0] += 1
        prog.append(["c%d" % cnt[0], "from_bytes", hexs(raw_b[:rng.randrange(len(raw_b))])])
    if raw_t:
        k = rng.randrange(len(raw_t))
        bad = raw_t[:k] + rng.choice([b"x", b"-", b"|", b",", b" ", b"99999999999"]) + raw_t[k + rng.choice([0, 1]):]
        cnt[0] += 1
        prog.append(["c%d" % cnt[0], "from_string", hexs(bad)])
    # non-ASCII White_Space characters (2- and 3-byte UTF-8) around separators, delivered in chunks of 1..3 bytes so that read
    # boundaries fall inside the characters
    UWS = ["\u00a0", "\u0085", "\u1680", "\u2003", "\u2028", "\u205f", "\u3000", " ", "\t"]
    for _ in range(2 if rich else 1):
        out = []
        for ch in py_to_text(b).decode("ascii"):
            if ch in "|," and rng.random() < 0.5:
                out.append(rng.choice(UWS))
            out.append(ch)
            if ch in "|," and rng.random() < 0.4:
                out.append(rng.choice(UWS))
        txt = "".join(out).encode("utf-8")
        cnt[0] += 1
        prog.append(["c%d" % cnt[0], "read_string_sched", hexs(txt), sched_sx(random_clean_schedule(rng, len(txt), cover=True, maxchunk=rng.choice([1, 2, 3])))])
        cnt[0] += 1
        prog.append(["c%d" % cnt[0], "read_string_sched", hexs(txt), sched_sx([])])
    # whitespace around separators
    for _ in range(3 if rich else 1):
        txt = ws_variant(rng, py_to_text(b))
        cnt[0] += 1
        prog.append(["c%d" % cnt[0], "read_string_sched", hexs(txt), sched_sx(random_clean_schedule(rng, len(txt), cover=False))])
    return prog


def programs(rng, tier):
    progs = []
    # exhaustive: all compositions of the one-node stream
    one = [(3, 0, 0)]
    prog = [["a", "id", bdd_sx(one)], ["y", "to_bytes", "$a"]]
    for i, comp in enumerate(compositions(10, 10)):
        ev = [("C", k) for k in comp]
        prog.append(["r%d" % i, "read_bytes_sched", "$y", sched_sx(ev)])
        prog.append(["w%d" % i, "write_bytes_sched", "$a", sched_sx(ev)])
    progs.append(prog)
    small = [[]] + all_functions(0) + all_functions(1) + all_functions(2)
    f3 = all_functions(3)
    small += rng.sample(f3, 6 if tier == "quick" else 60)
    small += [raw_extreme(rng, n) for n in (1, 2, 3, 4)]
    for b in small:
        progs.append(family(rng, b, tier, rich=True))
    for _ in range(40 if tier == "quick" else 600):
        k = rng.random()
        if k < 0.5:
            b = rand_operand(rng, rng.choice([4, 5, 6, 8, 10]), 0.3)
        elif k < 0.8:
            b = gap_bdd(rng)
        else:
            b = raw_extreme(rng, rng.randint(1, 12))
        progs.append(family(rng, b, tier, rich=False))
    # node lists
    P = Prog()
    for _ in range(150 if tier == "quick" else 3000):
        k = rng.random()
        b = rand_operand(rng, rng.choice([0, 1, 2, 3, 5, 8]), 0.4) if k < 0.7 else gap_bdd(rng) if k < 0.9 else chain(rng, rng.randint(3, 400), nv=rng.choice([500, 65535]))
        P.add_prog([["a", "to_nodes", bdd_sx(b)], ["b", "from_nodes", "$a"]])
    progs += P.progs
    # node counts at and around powers of two and multiples of 512 (a writer or reader that batches nodes meets a batch that is
    # exactly full), plain and through schedules with LONG runs of interruptions (9, 10, 20, 100 in a row, also inside a record)
    for n in ([256, 511, 512, 513, 1024, 1536] if tier == "quick" else [64, 128, 255, 256, 257, 511, 512, 513, 1023, 1024, 1025, 1536, 2048, 4096, 8192]):
        b = chain(rng, n, nv=rng.choice([2000, 65535]))
        nb, nt = 10 * n, len(py_to_text(b))

        def bursty(total, maxchunk):
            ev = random_clean_schedule(rng, total, maxchunk=maxchunk)
            for _ in range(3):
                i = rng.randrange(len(ev) + 1)
                ev = ev[:i] + [("I",)] * rng.choice([8, 9, 10, 20, 100]) + ev[i:]
            return ev
        progs.append([["a", "id", bdd_sx(b)], ["y", "to_bytes", "$a"], ["s", "to_string", "$a"], ["fb", "from_bytes", "$y"], ["fs", "from_string", "$s"],
                      ["r0", "read_bytes_sched", "$y", sched_sx([])],
                      ["r1", "read_bytes_sched", "$y", sched_sx(bursty(nb, 7))],
                      ["r2", "read_string_sched", "$s", sched_sx(bursty(nt, 13))],
                      ["w0", "write_bytes_sched", "$a", sched_sx([])],
                      ["w1", "write_bytes_sched", "$a", sched_sx(bursty(nb, 4096))],
                      ["w2", "write_string_sched", "$a", sched_sx(bursty(nt, 64))]])
    # long streams: > 65,536 nodes (3-byte pointers), 16-bit variables
    for n in ([65600, 70001] if tier == "quick" else [65537, 65600, 70001, 90000, 131073]):
        b = chain(rng, n)
        nb, nt = 10 * n, len(py_to_text(b))
        prog = [["a", "id", bdd_sx(b)], ["y", "to_bytes", "$a"], ["s", "to_string", "$a"],
                ["r1", "read_bytes_sched", "$y", sched_sx(random_clean_schedule(rng, nb))],
                ["r2", "read_string_sched", "$s", sched_sx(random_clean_schedule(rng, nt, maxchunk=40))],
                ["w1", "write_bytes_sched", "$a", sched_sx(random_clean_schedule(rng, nb))],
                ["w2", "write_string_sched", "$a", sched_sx(random_clean_schedule(rng, nt, maxchunk=40))]]
        base = random_clean_schedule(rng, nb, maxchunk=4000)
        i = rng.randrange(len(base))
        prog.append(["r3", "read_bytes_sched", "$y", sched_sx(inject(rng, base, i, "other"))])
        prog.append(["w3", "write_bytes_sched", "$a", sched_sx(inject(rng, base, i, "broken_pipe"))])
        progs.append(prog)
    return progs


def size_class(n):
    return "0-2" if n < 3 else "3-6" if n < 7 else "7-20" if n < 21 else "21-1000" if n <= 1000 else "1001-65536" if n <= 65536 else ">65536"


def judge(st, V):
    cid, call, impl, model, aux = st
    op = call[0]
    if op == "id":
        return
    V.evaluations += 1
    V.count("op:" + op)
    if impl == "SKIP":
        V.skipped += 1
        return
    machinery_guard(st)
    sample(V, st)
    events = None
    if op == "to_bytes":
        b = bdd_nodes(call[1])
        want = hexs(py_to_bytes(b))
        nn = len(b)
    elif op == "to_string":
        b = bdd_nodes(call[1])
        want = hexs(py_to_text(b))
        nn = len(b)
    elif op == "read_bytes_sched":
        data, events = unhex(call[1]), sched_of_sx(call[2])
        want = expect_read_bytes(data, events)
        nn = len(data) // 10
    elif op == "read_string_sched":
        data, events = unhex(call[1]), sched_of_sx(call[2])
        want = expect_read_text(data, events)
        nn = data.count(b"|") - 1
    elif op == "write_bytes_sched":
        b, events = bdd_nodes(call[1]), sched_of_sx(call[2])
        want = expect_write(py_to_bytes(b), events)
        nn = len(b)
    elif op == "write_string_sched":
        b, events = bdd_nodes(call[1]), sched_of_sx(call[2])
        want = expect_write(py_to_text(b), events)
        nn = len(b)
    elif op in ("from_bytes", "from_string"):
        data = unhex(call[1])
        r = expect_read_bytes(data, []) if op == "from_bytes" else expect_read_text(data, [])
        want = r[1] if isinstance(r, list) and r[0] == "OK" else "PANIC"   # Err => expect() panics
        nn = len(data) // 10 if op == "from_bytes" else data.count(b"|") - 1
    elif op == "to_nodes":
        b = bdd_nodes(call[1])
        want = bdd_sx(b)
        nn = len(b)
    elif op == "from_nodes":
        b = bdd_nodes(call[1])
        want = expect_from_nodes(b)
        nn = len(b)
    else:
        raise RuntimeError("C12: unexpected operation " + op)
    V.count("nodes:" + size_class(nn))
    if events is not None:
        fails = [e for e in events if e[0] == "E"]
        V.count("schedule:" + ("empty" if not events else "with-failure" if fails else "clean"))
        for e in fails:
            V.count("kind:" + e[1])
        if any(e[0] == "C" and e[1] == 1 for e in events):
            V.count("schedule:has-1-byte-chunk")
    V.count("outcome:" + (impl if isinstance(impl, str) and not impl.startswith("h:") else "bytes" if isinstance(impl, str) else
                          impl[0] if impl[0] != "P" else "write-" + impl[1]))
    if impl != model or impl != want:
        V.violations.append(violation(
            PID, st, "serialisation outcome differs from the %s" % ("Coq model" if impl != model else "independent format/stream oracle"),
            oracle={"expected_by_python_oracle": sx_str(want)[:2000], "observed": sx_str(impl)[:2000]},
            confirmed=(impl != want), relation="exact outcome"))
        return
    if nn >= 3 and (events is None or len(events) >= 2):
        V.nontrivial.add(key_of(call))


_steps = []


def finalize(steps, V):
    _steps.extend(steps)


def extra(V):
    n, agree = vm_crosscheck_serial(_steps)
    return {"vm_compute_crosscheck_serial": {"cases": n, "agree": agree}}
