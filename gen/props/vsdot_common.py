"""Shared by C16/C20: re-validation of the EXTRACTED model against kernel evaluation (vm_compute inside coqc) on a
sample of variable-set / dot steps.  The generic cross-check of framework.py only knows the binary operators."""
import os
import re
import shutil
import tempfile

from common import *


def coq_bytes(b):
    return "[" + "; ".join(str(c) for c in b) + "]"


def coq_names(names):
    return "[" + "; ".join(coq_bytes(n) for n in names) + "]"


def coq_bdd(x):
    return "[" + "; ".join("mkNode %d %d %d" % nd for nd in bdd_nodes(x)) + "]"


def coq_spec(spec):
    if spec[0] == "anon":
        return "(new_anonymous %s)" % spec[1]
    names = [unhex(x) for x in spec[1][1:]]
    return "(%s %s)" % ("vs_new" if spec[0] == "new" else "vs_from", coq_names(names))


def term_of(call):
    """a Coq term of type `outcome (list N)` / `outcome (option N)` / ... and a decoder of the printed value into the
    transcript form of the model result; None when the step is not covered"""
    op = call[0]
    if op in ("dot", "dot_write"):
        names = [unhex(x) for x in call[2][1:]]
        if sum(len(n) for n in names) > 200 or len(bdd_nodes(call[1])) > 30:
            return None
        return "dot_of_names %s %s %s" % (coq_bdd(call[1]), coq_names(names), "true" if call[3] == "T" else "false"), "bytes"
    if op == "vs_var_by_name" and (call[1][0] == "anon" and int(call[1][1]) <= 300 or call[1][0] != "anon" and len(call[1][1]) <= 41):
        return "bind %s (fun vs => Ok (match var_by_name vs %s with Some x => [x] | None => [] end))" % (coq_spec(call[1]), coq_bytes(unhex(call[2]))), "optn"
    if op == "vs_name_of" and (call[1][0] == "anon" and int(call[1][1]) <= 300 or call[1][0] != "anon" and len(call[1][1]) <= 41):
        return "bind %s (fun vs => name_of vs %s)" % (coq_spec(call[1]), call[2]), "bytes"
    return None


def decode(kind, printed):
    """printed: the text between '=' and ':' of an Eval answer"""
    p = printed.strip()
    if p.startswith("Panic"):
        return "PANIC"
    if not p.startswith("Ok"):
        return "?" + p[:40]
    nums = [int(x) for x in re.findall(r"\d+", p[2:])]
    if kind == "bytes":
        return hexs(bytes(nums))
    if kind == "optn":
        return ["S", str(nums[0])] if nums else "N"
    return "?"


def vm_crosscheck(steps, limit=30):
    sample = []
    seen_ops = {}
    for st in steps:
        t = term_of(st[1])
        if t is None or isinstance(st[3], str) and st[3].startswith(("UNMODELLED", "BAD", "FUEL")):
            continue
        k = st[1][0]
        if seen_ops.get(k, 0) >= limit // 2:
            continue
        seen_ops[k] = seen_ops.get(k, 0) + 1
        sample.append((st, t))
        if len(sample) >= limit:
            break
    if not sample:
        return 0, 0
    lines = ["From Coq Require Import List NArith. Import ListNotations.",
             "From BddVerif Require Import Model.All.", "Open Scope N_scope."]
    for (st, (term, kind)) in sample:
        lines.append("Eval vm_compute in (%s)." % term)
    d = tempfile.mkdtemp(prefix="vmx-", dir=os.path.join(VERIF, ".work"))
    try:
        path = os.path.join(d, "cases.v")
        open(path, "w").write("\n".join(lines) + "\n")
        rc, out, err = run_cmd(["timeout", "600", "coqc", "-noglob", "-Q", COQ_DIR, "BddVerif", path], cwd=d, timeout=700)
        if rc != 0:
            raise RuntimeError("vm_compute cross-check failed to compile: " + (out + err)[-2000:])
        vals = re.findall(r"=\s*(.*?)\s*:\s*outcome", out, flags=re.S)
        if len(vals) != len(sample):
            raise RuntimeError("vm_compute cross-check: %d answers for %d cases" % (len(vals), len(sample)))
        agree = 0
        for (st, (term, kind)), v in zip(sample, vals):
            if decode(kind, v) == st[3]:
                agree += 1
        return len(sample), agree
    finally:
        shutil.rmtree(d, ignore_errors=True)
