"""Judging helpers shared by the property modules."""
import hashlib

from common import *
import framework as fw

MACHINERY = ("UNMODELLED", "BAD", "FUEL", "STACK", "NOTWF")


def machinery_guard(st):
    cid, call, impl, model, aux = st
    if isinstance(model, str) and model.startswith(MACHINERY):
        raise RuntimeError("model side cannot evaluate step %s: %s -> %s" % (cid, sx_str(call)[:300], model))


def key_of(call):
    return hashlib.sha256(sx_str(call).encode()).hexdigest()[:16]


def violation(pid, st, reason, oracle=None, confirmed=False, relation=None):
    cid, call, impl, model, aux = st
    return {
        "property": pid,
        "key": key_of(call),
        "program": [sx_str(["1"] + call)],
        "step": sx_str(call),
        "implementation_result": sx_str(impl),
        "model_result": sx_str(model),
        "model_view_of_impl_result": sx_str(aux),
        "reason": reason,
        "oracle": oracle,
        "confirmed": confirmed,
        "correspondence_relation": relation,
    }


def operands_wf(call):
    """every Bdd operand of the call is a valid diagram (independent Python check)"""
    for x in call[1:]:
        if is_bdd(x) and not is_wf(bdd_nodes(x)):
            return False
    return True


def sample(V, st, every=1):
    if len(V.samples) < 6:
        cid, call, impl, model, aux = st
        V.samples.append({"step": sx_str(call)[:600], "impl": sx_str(impl)[:300], "model": sx_str(model)[:300]})


def semantic_agree(impl, model, aux):
    """canon(impl) = model, where canon is the proved canonicaliser evaluated by the model driver;
    None/PANIC/ERR shapes must coincide."""
    ib = unwrap_bdd(impl)
    mb = unwrap_bdd(model)
    if ib is None or mb is None:
        return impl == model
    # same wrapper
    if (isinstance(impl, list) and impl[0] in ("S", "OK")) != (isinstance(model, list) and model[0] in ("S", "OK")):
        return False
    return isinstance(aux, list) and aux[0] == "T" and aux[2] == aux[3]


def exact_agree(impl, model):
    return impl == model
