"""Judging helpers shared by the property modules."""
import hashlib

from common import *
import framework as fw

MACHINERY = ("UNMODELLED", "BAD", "FUEL", "STACK", "NOTWF")


def machinery_guard(st):
    cid, call, impl, model, aux = st
    if isinstance(model, str) and model.startswith(MACHINERY):
        raise RuntimeError("model side cannot evaluate step %s: %s -> %s" % (cid, sx_str(call)[:300], model))


def key_of(call):
    return hashlib.sha256(sx_str(call).encode()).hexdigest()[:16]


def violation(pid, st, reason, oracle=None, confirmed=False, relation=None):
    cid, call, impl, model, aux = st
    return {
        "property": pid,
        "key": key_of(call),
        "program": [sx_str(["1"] + call)],
        "step": sx_str(call),
        "implementation_result": sx_str(impl),
        "model_result": sx_str(model),
        "model_view_of_impl_result": sx_str(aux),
        "reason": reason,
        "oracle": oracle,
        "confirmed": confirmed,
        "correspondence_relation": relation,
    }


def operands_wf(call):
    """every Bdd operand of the call is a valid diagram (independent Python check)"""
    for x in call[1:]:
        if is_bdd(x) and not is_wf(bdd_nodes(x)):
            return False
    return True


def sample(V, st, every=1):
    if len(V.samples) < 6:
        cid, call, impl, model, aux = st
        V.samples.append({"step": sx_str(call)[:600], "impl": sx_str(impl)[:300], "model": sx_str(model)[:300]})


def semantic_agree(impl, model, aux):
    """canon(impl) = model, where canon is the proved canonicaliser evaluated by the model driver;
    None/PANIC/ERR shapes must coincide."""
    ib = unwrap_bdd(impl)
    mb = unwrap_bdd(model)
    if ib is None or mb is None:
        return impl == model
    # same wrapper
    if (isinstance(impl, list) and impl[0] in ("S", "OK")) != (isinstance(model, list) and model[0] in ("S", "OK")):
        return False
    if isinstance(aux, list) and aux and aux[0] == "BIG":
        # result too large for the driver's list-based canonicaliser: exact array equality with the model's
        # (proved canonical) result
        return impl == model
    return isinstance(aux, list) and aux[0] == "T" and aux[2] == aux[3]


def exact_agree(impl, model):
    return impl == model


def judge_semantic(pid, st, V, relation="canon(impl result) = canon(model result)", min_result_nodes=3):
    """generic judge for Bdd-valued operations under the semantic relation"""
    from props import oracle
    cid, call, impl, model, aux = st
    V.evaluations += 1
    V.count("op:" + call[0])
    if impl == "SKIP" or not operands_wf(call):
        V.skipped += 1
        return
    machinery_guard(st)
    for x in call[1:]:
        if is_bdd(x):
            V.count("nv:%d" % bdd_nodes(x)[0][0])
            V.count("size:%s" % ("1-2" if len(bdd_nodes(x)) < 3 else "3-6" if len(bdd_nodes(x)) < 7 else "7-20" if len(bdd_nodes(x)) < 21 else "21+"))
            break
    V.count("outcome:" + (impl if isinstance(impl, str) else impl[0]))
    sample(V, st)
    if not semantic_agree(impl, model, aux):
        confirmed, desc = oracle.check(call, impl)
        V.violations.append(violation(pid, st, "implementation and model disagree: " + relation, oracle=desc, confirmed=confirmed, relation=relation))
        return
    rb = unwrap_bdd(impl)
    bdds = [bdd_nodes(x) for x in call[1:] if is_bdd(x)]
    if rb is not None and all(len(b) >= 3 for b in bdds) and len(bdd_nodes(rb)) >= min_result_nodes:
        V.nontrivial.add(key_of(call))


class Prog:
    """collects single-step programs"""
    def __init__(self):
        self.progs = []
        self.n = 0

    def add(self, case):
        self.n += 1
        self.progs.append([[str(self.n)] + case])

    def add_prog(self, cases):
        self.progs.append(cases)


def rand_operand(rng, nv, noncanon=0.2, max_support=None):
    b = random_bdd(rng, nv, max_support=max_support)
    if rng.random() < noncanon:
        b = noncanonical_variant(rng, b)
    return b


def rand_optvar(rng, nv, pnone=0.4):
    if nv == 0 or rng.random() < pnone:
        return None
    return rng.randrange(nv)


CONNS = list(itertools.product([False, True], repeat=4))


def gap_operand(rng, nv=None, k=None):
    """few-node function over a LARGE variable count with arbitrary gaps between decision levels"""
    if nv is None:
        nv = rng.choice([40, 257, 300, 513, 1000, 2000])
    if k is None:
        k = rng.randrange(1, 5)
    variables = sorted(rng.sample(range(nv), k))
    if rng.random() < 0.5 and nv > 300:
        # variables congruent modulo 256, adjacent, first and last
        base = rng.randrange(0, 40)
        variables = sorted({base, base + 256, min(nv - 1, base + 1), nv - 1, 0} & set(range(nv)))[:5]
    if rng.random() < 0.3 and nv > 300:
        # same-shaped sub-diagrams on variables that agree modulo 256 (or modulo 2^k): ite(x_a, g(x_b), g(x_c))
        b = rng.randrange(1, 40)
        c = b + 256 * rng.randrange(1, max(2, (nv - 1 - b) // 256 + 1))
        c = min(c, nv - 1)
        a = rng.randrange(0, b)
        neg = rng.random() < 0.5
        variables = sorted({a, b, c})
        fn = lambda asg: (asg[b] != neg) if asg[a] else (asg[c] != neg)
        return nv, variables, bdd_from_fn(nv, variables, fn)
    tt = [rng.random() < 0.5 for _ in range(1 << len(variables))]
    return nv, variables, bdd_from_tt(nv, variables, tt)


def gap_pair(rng):
    nv, va, a = gap_operand(rng)
    _, vb, b = gap_operand(rng, nv=nv)
    return nv, sorted(set(va) | set(vb)), a, b
