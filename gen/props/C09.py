"""C09 — model counts and support sets are exact."""
from fractions import Fraction

from common import *
from props.base import *

PID = "C09"
RULE = ("exact_card / clause_card / card / support / size_per_var on: every function of <=3 variables; random functions over 4..12 support "
        "variables embedded with arbitrary level gaps into variable counts {0,1,5,63,64,65,200,1023,1024,1025,2000,5000} (<=200 nodes); "
        "single-valuation chains, long conjunctions/disjunctions over up to 5000 variables; valid non-canonical variants (duplicates, redundant "
        "tests, permuted order, unreachable nodes, non-canonical diagrams of the empty set incl. root variables >= 1024); HEAVY SHARING over 60..90 "
        "variables: and / or / xor / at-least-k combinations of and-/or-groups (2..4 literals, random polarities, disjoint contiguous variable "
        "groups with random gaps), parities, their negations and valid non-canonical variants (up to 3^30 root-to-1 paths on <=400 nodes: only a "
        "per-node cache counts them), plus or/and/not of two such diagrams computed by the library, with the additive identities; the generator "
        "asserts the closed-form count of each formula against the array counters. relations: counts are "
        "compared as decimal strings with the model (exact) and with an independent count (popcount of the truth table over the support x "
        "2^(nv-|support|) when |support|<=12, else two raw-array counters that must agree: bottom-up DP and memoised recursion from the root); card: the f64 bit pattern is decoded to NaN/inf/exact integer and must equal "
        "the model's binary64 value exactly, and independently satisfy |card - exact| <= exact*((1+2^-53)^d - 1), d = decision nodes, with +inf "
        "only when exact*(1+2^-53)^d reaches the overflow threshold; support/size_per_var equal the model's sorted lists, the raw-array recount, "
        "and for canonical inputs with |support|<=10 the set of variables on which the truth table depends. identities on the implementation's "
        "own numbers: |a or b|+|a and b| = |a|+|b|, |not a| = 2^nv-|a| at every variable count, clause_card = len(sat_clauses) = raw-array path count "
        "(canonical operands only: the path iterator deliberately panics on non-reduced diagrams). a sample of the model's answers is "
        "re-evaluated with vm_compute. non-trivial = operand "
        "with >=1 decision node; distinct = distinct (operation, operand) texts")
NVS = [0, 1, 5, 63, 64, 65, 200, 1023, 1024, 1025, 2000, 5000]
OPS = ["exact_card", "clause_card", "card", "support", "size_per_var"]


# ----------------------------------------------------------------------------- input construction
def chain(nv, lits):
    """canonical array of the conjunction of literals [(var, value)] (library layout of mk_partial_valuation)"""
    nodes = [(nv, 0, 0), (nv, 1, 1)]
    for x, c in sorted(lits, reverse=True):
        root = len(nodes) - 1
        nodes.append((x, 0, root) if c else (x, root, 0))
    return nodes


def dchain(nv, lits):
    """canonical array of the disjunction of literals"""
    if not lits:
        return [(nv, 0, 0)]
    nodes = [(nv, 0, 0), (nv, 1, 1)]
    shadow = 0
    for x, c in sorted(lits, reverse=True):
        nodes.append((x, shadow, 1) if c else (x, 1, shadow))
        shadow = len(nodes) - 1
    return nodes


def empty_variant(rng, nodes):
    """valid NON-canonical diagram of the empty set with the shape of `nodes`: every link to the true terminal is cut"""
    if len(nodes) < 3:
        return list(nodes)
    return list(nodes[:2]) + [(v, 0 if l == 1 else l, 0 if h == 1 else h) for (v, l, h) in nodes[2:]]


def sparse_function(rng, nv, k):
    """function over k support variables (random positions among 0..nv-1 => arbitrary gaps), at most ~200 nodes"""
    variables = sorted(rng.sample(range(nv), k))
    for _ in range(20):
        if k <= 7:
            p = rng.choice([0.1, 0.3, 0.5, 0.7, 0.9])
            tt = [rng.random() < p for _ in range(1 << k)]
        else:
            # union of a few random cubes, possibly complemented
            ncubes = rng.randint(1, 6)
            cubes = []
            for _ in range(ncubes):
                cubes.append([rng.choice([None, None, False, True]) for _ in range(k)])
            neg = rng.random() < 0.4
            tt = []
            for i in range(1 << k):
                bits = [(i >> (k - 1 - j)) & 1 == 1 for j in range(k)]
                val = any(all(c is None or c == b for c, b in zip(cube, bits)) for cube in cubes)
                tt.append(val != neg)
        b = bdd_from_tt(nv, variables, tt)
        if len(b) <= 200:
            return b
    return bdd_from_tt(nv, variables[:4], [rng.random() < 0.5 for _ in range(16)])


# ----------------------------------------------------------------------------- diagrams with heavy sharing (60..90 variables)
class Builder:
    """hash-consing construction of a reduced ordered diagram; finish() lays it out in the library's order"""
    def __init__(self, nv):
        self.nv = nv
        self.nodes = [(nv, 0, 0), (nv, 1, 1)]
        self.uniq = {}

    def mk(self, v, l, h):
        if l == h:
            return l
        k = (v, l, h)
        if k not in self.uniq:
            self.uniq[k] = len(self.nodes)
            self.nodes.append(k)
        return self.uniq[k]

    def group(self, kind, lits, T, F):
        """entry of the and-/or-chain over lits (sorted by variable) that continues at T when the group holds, at F otherwise"""
        cur = None
        for x, pos in reversed(lits):
            if kind == "or":
                cont, out = (F if cur is None else cur), T      # literal false: next literal (or F); literal true: T
                l, h = (cont, out) if pos else (out, cont)
            else:
                cont, out = (T if cur is None else cur), F      # literal true: next literal (or T); literal false: F
                l, h = (out, cont) if pos else (cont, out)
            cur = self.mk(x, l, h)
        return cur

    def finish(self, root):
        return canonical_layout(self.nodes, root)


def canonical_layout(nodes, root):
    """re-index the nodes reachable from root in DFS post-order, high child first, root last (the library's layout)"""
    nv = nodes[0][0]
    if root == 0:
        return [(nv, 0, 0)]
    out = [(nv, 0, 0), (nv, 1, 1)]
    idx = {0: 0, 1: 1}
    stack = [(root, 0)]
    while stack:
        p, stage = stack.pop()
        if p in idx:
            continue
        v, l, h = nodes[p]
        if stage == 0:
            stack.append((p, 1))
            stack.append((l, 0))
            stack.append((h, 0))      # on top: visited first
        else:
            idx[p] = len(out)
            out.append((v, idx[l], idx[h]))
    return out


def negate_raw(nodes):
    """the diagram of the negation: terminal links swapped (same shape, same layout)"""
    if len(nodes) == 1:
        return [nodes[0], (nodes[0][0], 1, 1)]
    if len(nodes) == 2:
        return [nodes[0]]
    sw = {0: 1, 1: 0}
    return list(nodes[:2]) + [(v, sw.get(l, l), sw.get(h, h)) for (v, l, h) in nodes[2:]]


def shared_formula(rng, nv=None, outer=None):
    """(nv, outer, k, groups): outer in and/or/xor/atleast over and-/or-groups of literals on disjoint contiguous variable ranges"""
    nv = nv or rng.randint(60, 90)
    outer = outer or rng.choice(["and", "and", "or", "or", "xor", "atleast", "parity"])
    groups, x = [], rng.choice([0, 0, 1, 2])
    inner = rng.choice(["or", "and", "mixed"]) if outer in ("xor", "atleast") else {"and": "or", "or": "and", "parity": "or"}[outer]
    while True:
        sz = 1 if outer == "parity" else rng.choice([2, 3, 3, 4])
        if x + sz > nv:
            break
        kind = rng.choice(["or", "and"]) if inner == "mixed" else inner
        groups.append((kind, [(x + j, rng.random() < 0.7) for j in range(sz)]))
        x += sz + (rng.choice([0, 0, 0, 1, 2]) if rng.random() < 0.5 else 0)      # level gaps between groups
    if outer == "atleast":
        groups = groups[:rng.randint(8, 16)]
    k = rng.randint(2, 4) if outer == "atleast" else 0
    return nv, ("xor" if outer == "parity" else outer), k, groups


def shared_build(f):
    nv, outer, k, groups = f
    B = Builder(nv)
    memo = {}

    def go(i, state):
        if outer == "atleast" and state >= k:
            return 1
        if i == len(groups):
            return 1 if outer == "and" or (outer == "xor" and state) else 0      # or: no group held; atleast: fewer than k held
        if (i, state) not in memo:
            kind, lits = groups[i]
            if outer == "and":
                T, F = go(i + 1, 0), 0
            elif outer == "or":
                T, F = 1, go(i + 1, 0)
            elif outer == "xor":
                T, F = go(i + 1, 1 - state), go(i + 1, state)
            else:
                T, F = go(i + 1, state + 1), go(i + 1, state)
            memo[(i, state)] = B.group(kind, lits, T, F)
        return memo[(i, state)]
    return B.finish(go(0, 0))


def shared_closed_form(f):
    """the number of models of the formula, from the formula alone (disjoint groups are independent)"""
    nv, outer, k, groups = f
    used = sum(len(l) for _, l in groups)
    sat = [((1 << len(l)) - 1 if kind == "or" else 1, 1 << len(l)) for kind, l in groups]     # (satisfying, all) per group
    if outer in ("and", "or"):
        prod = 1
        for t, a in sat:
            prod *= t if outer == "and" else a - t
        total = prod if outer == "and" else (1 << used) - prod
    elif outer == "xor":
        even, odd = 1, 0
        for t, a in sat:
            even, odd = even * (a - t) + odd * t, odd * (a - t) + even * t
        total = odd
    else:
        dist = [1] + [0] * len(sat)       # dist[c] = assignments making exactly c groups true
        for t, a in sat:
            dist = [dist[c] * (a - t) + (dist[c - 1] * t if c else 0) for c in range(len(dist))]
        total = sum(dist[k:])
    return total << (nv - used)


def shared_diagram(rng, nv=None, outer=None, max_nodes=400):
    """a canonical diagram with heavy sharing and its closed-form count (generator sanity: both array counters agree with it)"""
    for _ in range(50):
        f = shared_formula(rng, nv, outer)
        b = shared_build(f)
        if 3 <= len(b) <= max_nodes:
            want = shared_closed_form(f)
            assert is_canonical(b)[0], "generator: shared diagram is not canonical"
            assert raw_count(b) == want == dp_counts(b)[0], "generator: closed form and array counters disagree"
            return b
    raise RuntimeError("generator: no shared diagram within %d nodes" % max_nodes)


def shared_programs(rng, P, progs, quick):
    n1 = 70 if quick else 2500
    pool = {}
    for i in range(n1):
        b = shared_diagram(rng)
        r = rng.random()
        if r < 0.3:
            b = negate_raw(b)
        v = rng.random()
        if v < 0.15:
            b = noncanonical_variant(rng, b)
        elif v < 0.2:
            b = empty_variant(rng, b)
        family(P, b)
        pool.setdefault(b[0][0], []).append(b)
    # or / and / not of two such diagrams over the same variables, computed by the library; identities on its own numbers
    for _ in range(10 if quick else 400):
        nv = rng.randint(60, 90)
        a = shared_diagram(rng, nv=nv, max_nodes=100 if quick else 160)
        b = shared_diagram(rng, nv=nv, max_nodes=100 if quick else 160)
        if rng.random() < 0.3:
            a = negate_raw(a)
        if rng.random() < 0.3:
            b = negate_raw(b)
        prog = identity_prog(a, b)
        prog += [["fo", "card", "$n"], ["ko", "clause_card", "$o"], ["kn", "clause_card", "$n"], ["kna", "clause_card", "$na"]]
        progs.append(prog)


def family(P, b, with_clauses=False):
    for op in OPS:
        P.add([op, bdd_sx(b)])
    # the path iterator deliberately panics on non-reduced diagrams ("The BDD is not canonical."): canonical inputs only
    if with_clauses and is_canonical(b)[0]:
        P.add(["sat_clauses", bdd_sx(b)])


def identity_prog(a, b):
    return [["a", "id", bdd_sx(a)], ["b", "id", bdd_sx(b)], ["o", "named", "or", "$a", "$b"], ["n", "named", "and", "$a", "$b"],
            ["na", "not", "$a"], ["ca", "exact_card", "$a"], ["cb", "exact_card", "$b"], ["co", "exact_card", "$o"],
            ["cn", "exact_card", "$n"], ["cna", "exact_card", "$na"], ["fa", "card", "$o"], ["fna", "card", "$na"]]


def programs(rng, tier):
    quick = tier == "quick"
    P = Prog()
    progs = []
    # (1) exhaustive small scope, all operations; identities on (sampled) pairs first (they feed the vm_compute cross-check)
    small = {nv: all_functions(nv) for nv in (0, 1, 2, 3)}
    for nv in (0, 1, 2):
        for a in small[nv]:
            for b in small[nv]:
                progs.append(identity_prog(a, b))
    pairs3 = [(a, b) for a in small[3] for b in small[3]]
    for a, b in (rng.sample(pairs3, 150) if quick else rng.sample(pairs3, 6000)):
        progs.append(identity_prog(a, b))
    for nv in (0, 1, 2, 3):
        for a in small[nv]:
            family(P, a, with_clauses=True)
            if len(a) >= 3:
                family(P, noncanonical_variant(rng, a))
                family(P, empty_variant(rng, a))
    # the same small functions embedded at large variable counts (shifted / spread variables)
    for nv in NVS:
        if nv < 3:
            continue
        for _ in range(6 if quick else 60):
            a = rng.choice(small[3])
            vs = sorted(rng.sample(range(nv), 3))
            b = bdd_from_tt(nv, vs, list(raw_tt(a)))
            family(P, b, with_clauses=True)
    # conjunctions of k two-path blocks (x_{2i} xor x_{2i+1}): 2^k paths (and 2^k models) in 3k+2 nodes, for k around 64 and 128
    for k in ([63, 64, 65, 127, 128, 129, 200] if quick else [31, 32, 33, 63, 64, 65, 100, 127, 128, 129, 130, 200, 256, 300]):
        nv = 2 * k
        nodes = [(nv, 0, 0), (nv, 1, 1)]
        cur = 1
        for i in range(k - 1, -1, -1):
            nodes.append((2 * i + 1, cur, 0))          # x_{2i+1} = 0 continues
            n0 = len(nodes) - 1
            nodes.append((2 * i + 1, 0, cur))          # x_{2i+1} = 1 continues
            n1 = len(nodes) - 1
            nodes.append((2 * i, n1, n0))              # x_{2i} = 0 needs x_{2i+1} = 1
            cur = len(nodes) - 1
        family(P, nodes)             # no enumeration: 2^k paths
    # single edges skipping EXACTLY g levels for g around the exponent limits of binary64 (2^g is representable up to g = 1023):
    # x_i and all of x_{i+1+g} .. x_{last}: the count is 2^(i+g), finite as a double iff i + g <= 1023
    for g in [52, 53, 54, 62, 63, 64, 65, 1020, 1021, 1022, 1023, 1024, 1025, 1026, 2046, 2047, 2048]:
        for i in ((0,) if quick else (0, 1, 2)):
            for tail in ((1, 3) if quick else (1, 2, 3, 5)):
                nv = i + 1 + g + tail
                nodes = [(nv, 0, 0), (nv, 1, 1)]
                cur = 1
                for v in range(nv - 1, i + g, -1):
                    nodes.append((v, 0, cur))
                    cur = len(nodes) - 1
                pos = rng.random() < 0.5
                nodes.append((i, 0, cur) if pos else (i, cur, 0))
                family(P, nodes, with_clauses=True)
    # (2) random functions with skipped levels
    nrand = 400 if quick else 8000
    pool = {}
    for i in range(nrand):
        nv = rng.choice([x for x in NVS if x >= 5])
        k = rng.randint(4, min(12, nv))
        if quick and k > 10 and rng.random() < 0.5:
            k = rng.randint(4, 8)
        b = sparse_function(rng, nv, k)
        r = rng.random()
        if r < 0.25:
            b = noncanonical_variant(rng, b)
        elif r < 0.32:
            b = empty_variant(rng, b)
        family(P, b, with_clauses=(len(b) <= 40 and rng.random() < 0.3))
        pool.setdefault(nv, []).append(b)
    # (3) chains: single valuations, long conjunctions and disjunctions
    for nv in [x for x in NVS if x >= 1]:
        reps = 1 if (quick and nv >= 1023) else 2 if quick else 6
        for _ in range(reps):
            val = [(x, rng.random() < 0.5) for x in range(nv)]
            family(P, chain(nv, val))
            m = rng.randint(1, nv)
            sub = [(x, rng.random() < 0.5) for x in sorted(rng.sample(range(nv), m))]
            family(P, chain(nv, sub))
            family(P, dchain(nv, sub))
            few = [(x, rng.random() < 0.5) for x in sorted(rng.sample(range(nv), min(nv, rng.randint(1, 4))))]
            family(P, chain(nv, few))
            family(P, dchain(nv, few))
            pool.setdefault(nv, []).extend([chain(nv, few), dchain(nv, few), chain(nv, sub) if m <= 150 else chain(nv, sub[:150])])
        family(P, [(nv, 0, 0)])
        family(P, [(nv, 0, 0), (nv, 1, 1)])
        pool.setdefault(nv, []).extend([[(nv, 0, 0)], [(nv, 0, 0), (nv, 1, 1)]])
        # non-canonical diagrams of the empty set whose root tests a late variable
        for x in sorted({0, nv - 1, nv // 2, min(nv - 1, 1023), min(nv - 1, 1024), min(nv - 1, 1500)}):
            family(P, [(nv, 0, 0), (nv, 1, 1), (x, 0, 0)])
            if x + 1 < nv:
                family(P, [(nv, 0, 0), (nv, 1, 1), (nv - 1, 0, 0), (x, 2, 2)])
                family(P, [(nv, 0, 0), (nv, 1, 1), (nv - 1, 0, 1), (x, 2, 0), (x, 0, 0)])
    # (4) additive identities at every variable count on the implementation's own numbers
    nid = 120 if quick else 3000
    for _ in range(nid):
        nv = rng.choice(NVS)
        cands = pool.get(nv) or [[(nv, 0, 0)], [(nv, 0, 0), (nv, 1, 1)]]
        a, b = rng.choice(cands), rng.choice(cands)
        if len(a) * len(b) > 6000:
            continue
        progs.append(identity_prog(a, b))
    # (5) heavy sharing over 60..90 variables
    shared_programs(rng, P, progs, quick)
    # (6) universe storms: the SAME decision nodes under different variable counts (only the two terminal records differ), counted
    # one after the other inside one program (one worker thread): a count remembered from the previous call under a key that
    # leaves the terminals out is off by a power of two; every counting entry point, also after a change back
    for _ in range(60 if quick else 2000):
        nv = rng.choice([2, 3, 4, 5, 6])
        b = rand_operand(rng, nv, noncanon=0.0) if rng.random() < 0.7 else rng.choice(small[min(nv, 3)])
        if len(b) < 3:
            continue
        top = max(n[0] for n in b[2:]) + 1
        prog = []
        for k in range(rng.choice([2, 3, 4])):
            nv2 = top + rng.choice([0, 1, 2, 3, 5, 8, 60, 1000])
            b2 = [(nv2, 0, 0), (nv2, 1, 1)] + list(b[2:])
            for op in rng.sample(["exact_card", "exact_card", "card", "clause_card"], rng.choice([1, 2])):
                prog.append(["u%d" % len(prog), op, bdd_sx(b2)])
        progs.append(prog)
    return progs + P.progs


# ----------------------------------------------------------------------------- independent oracles (raw arrays only)
def eval_asg(nodes, asg):
    p = len(nodes) - 1
    steps = 0
    while p >= 2:
        v, l, h = nodes[p]
        p = h if asg.get(v, False) else l
        steps += 1
        if steps > len(nodes) + 2:
            raise EvalDiverges("walk does not terminate")
    return p == 1


def reachable_vars(nodes):
    seen, stack, vs = set(), [len(nodes) - 1], set()
    while stack:
        p = stack.pop()
        if p < 2 or p in seen:
            continue
        seen.add(p)
        vs.add(nodes[p][0])
        stack += [nodes[p][1], nodes[p][2]]
    return sorted(vs)


def support_table(nodes, limit=12):
    """(variables, truth table over them) for the function of the diagram, when few variables are tested"""
    vs = reachable_vars(nodes)
    if len(vs) > limit:
        return None
    k = len(vs)
    tt = []
    for i in range(1 << k):
        asg = {x: (i >> (k - 1 - j)) & 1 == 1 for j, x in enumerate(vs)}
        tt.append(eval_asg(nodes, asg))
    return vs, tt


def dp_counts(nodes):
    """(model count, path count) by a bottom-up pass over the raw array in increasing-variable-safe order"""
    nv = nodes[0][0]
    if len(nodes) == 1:
        return 0, 0
    memo_c = {0: 0, 1: 1}
    memo_p = {0: 0, 1: 1}
    order = sorted(range(2, len(nodes)), key=lambda p: -nodes[p][0])
    for p in order:
        v, l, h = nodes[p]
        memo_c[p] = (memo_c[l] << (nodes[l][0] - v - 1)) + (memo_c[h] << (nodes[h][0] - v - 1))
        memo_p[p] = memo_p[l] + memo_p[h]
    root = len(nodes) - 1
    return memo_c[root] << nodes[root][0], memo_p[root]


_ocache = {}


def oracle_count(nodes):
    """number of satisfying total valuations: from the truth table over the tested variables when there are few, else raw-array DP"""
    key = tuple(nodes)
    if key not in _ocache:
        if len(_ocache) > 4000:
            _ocache.clear()
        _ocache[key] = _oracle_count(nodes)
    return _ocache[key]


def _oracle_count(nodes):
    nv = nodes[0][0]
    st = support_table(nodes)
    if st is not None:
        vs, tt = st
        return "truth-table", sum(tt) << (nv - len(vs))
    dp, memo = dp_counts(nodes)[0], raw_count(nodes)
    if dp != memo:
        raise RuntimeError("C09 oracle: the two independent raw-array counters disagree on " + sx_str(bdd_sx(nodes))[:400])
    return "raw-array-dp+memoised-recursion", dp


def decode_f64(a):
    """'f:<16 hex>' -> 'NAN' | 'INF' | decimal string of the exact non-negative integer value | 'OTHER:<hex>'"""
    bits = int(a[2:], 16)
    sign, exp, man = bits >> 63, (bits >> 52) & 0x7FF, bits & ((1 << 52) - 1)
    if exp == 0x7FF:
        if man:
            return "NAN"
        return "INF" if sign == 0 else "OTHER:" + a[2:]
    if exp == 0:
        m, e = man, -1074
    else:
        m, e = man | (1 << 52), exp - 1075
    if m == 0:
        return "0" if sign == 0 else "OTHER:" + a[2:]   # -0.0 is not what the code computes
    if sign:
        return "OTHER:" + a[2:]
    if e >= 0:
        return str(m << e)
    if m & ((1 << -e) - 1):
        return "OTHER:" + a[2:]
    return str(m >> -e)


U = Fraction(1, 1 << 53)
OVERFLOW = (1 << 1024) - (1 << 970)     # values from here on round to +inf


def float_within_rounding(dec, exact, d):
    """the property's 'up to floating-point rounding': every decision node adds once (relative error <= 2^-53), scalings by powers of
    two are exact; +inf only when the (error-inflated) count is not representable"""
    if dec == "NAN" or dec.startswith("OTHER"):
        return False
    hi = Fraction(exact) * (1 + U) ** d
    lo = Fraction(exact) * (1 - U) ** d
    if dec == "INF":
        return hi >= OVERFLOW
    f = int(dec)
    if exact < (1 << 53) and f != exact:
        return False
    return lo <= f <= hi


# ----------------------------------------------------------------------------- judge
_cards = {}     # operand text -> implementation's exact_cardinality
_bins = {}      # (name, a text, b text) -> result text
_nots = {}      # a text -> result text
_idchecked = [0, 0]


def judge(st, V):
    cid, call, impl, model, aux = st
    op = call[0]
    if op in ("id", "mk_cc"):      # constructors of operands: not judged here (C10/C16)
        return
    V.evaluations += 1
    V.count("op:" + op)
    if impl == "SKIP" or not operands_wf(call):
        V.skipped += 1
        return
    if op == "named":
        if is_bdd(impl):
            _bins[(call[1], sx_str(call[2]), sx_str(call[3]))] = sx_str(impl)
        return
    if op == "not":
        if is_bdd(impl):
            _nots[sx_str(call[1])] = sx_str(impl)
        return
    nodes = bdd_nodes(call[1])
    nv = nodes[0][0]
    key = key_of(call)
    V.count("nv:%d" % nv)
    V.count("size:%s" % ("1-2" if len(nodes) < 3 else "3-6" if len(nodes) < 7 else "7-20" if len(nodes) < 21 else "21-200" if len(nodes) <= 200 else "201+"))
    if op == "sat_clauses":
        # identity on the implementation's own numbers: clause_card = number of clauses yielded (checked against the raw-array path count)
        want = dp_counts(nodes)[1]
        got = len(impl) - 1 if isinstance(impl, list) and impl and impl[0] == "L" else None
        if got != want:
            V.violations.append(violation(PID, st, "sat_clauses yields a number of clauses different from the number of root-to-1 paths",
                                          oracle={"paths": want, "yielded": got}, confirmed=True, relation="len(sat_clauses) = paths"))
        return
    machinery_guard(st)
    sample(V, st)
    canonical = is_canonical(nodes)[0]
    V.count("canonical" if canonical else "non-canonical")
    if op in ("exact_card", "clause_card", "card"):
        npaths = dp_counts(nodes)[1]
        V.count("paths:" + ("0" if npaths == 0 else "<=2^12" if npaths <= 1 << 12 else "<=2^20" if npaths <= 1 << 20 else
                            "<=2^32" if npaths <= 1 << 32 else ">2^32"))
    if op in ("exact_card", "clause_card"):
        if op == "exact_card":
            how, want = oracle_count(nodes)
            if isinstance(impl, str) and impl.isdigit():
                _cards[sx_str(call[1])] = impl
                check_identities(V)
        else:
            how, want = "raw-array-path-count", dp_counts(nodes)[1]
        if impl != str(want):
            V.violations.append(violation(PID, st, "%s differs from the independent count" % op,
                                          oracle={"method": how, "expected": str(want), "observed": sx_str(impl), "nv": nv}, confirmed=True,
                                          relation="decimal strings equal"))
        elif impl != model:
            V.violations.append(violation(PID, st, "%s differs from the model (the independent count agrees with the implementation)" % op,
                                          oracle={"method": how, "expected": str(want)}, confirmed=False, relation="decimal strings equal"))
        elif len(nodes) >= 3:
            V.nontrivial.add(key)
        return
    if op == "card":
        how, exact = oracle_count(nodes)
        dec = decode_f64(impl) if isinstance(impl, str) and impl.startswith("f:") else "OTHER:" + sx_str(impl)
        V.count("card:" + ("inf" if dec == "INF" else "nan" if dec == "NAN" else "other" if dec.startswith("OTHER") else
                           "zero" if dec == "0" else "exact<2^53" if int(dec) < (1 << 53) else "rounded" if int(dec) != exact else "exact>=2^53"))
        ok_prop = float_within_rounding(dec, exact, max(0, len(nodes) - 2))
        if not ok_prop:
            V.violations.append(violation(PID, st, "cardinality() is not the exact count up to floating-point rounding",
                                          oracle={"method": how, "exact_count": str(exact), "cardinality_bits": sx_str(impl), "decoded": dec[:80], "nv": nv},
                                          confirmed=True, relation="|card-exact| within accumulated rounding; inf only on overflow"))
        elif dec != model:
            V.violations.append(violation(PID, st, "cardinality() differs from the binary64 model (within the rounding bound of the exact count)",
                                          oracle={"decoded": dec[:80], "model": sx_str(model)[:80]}, confirmed=False, relation="binary64 value equal"))
        elif len(nodes) >= 3:
            V.nontrivial.add(key)
        return
    if op in ("support", "size_per_var"):
        per = {}
        for (v, l, h) in nodes[2:]:
            per[v] = per.get(v, 0) + 1
        if op == "support":
            want = ["L"] + [str(v) for v in sorted(per)]
        else:
            want = ["L"] + [["P", str(v), str(per[v])] for v in sorted(per)]
        bad = impl != want
        desc = {"expected": sx_str(want)[:400], "observed": sx_str(impl)[:400]}
        if not bad and canonical:
            st_ = support_table(nodes, limit=10)
            if st_ is not None:
                vs, tt = st_
                k = len(vs)
                dep = [x for j, x in enumerate(vs) if any(tt[i] != tt[i ^ (1 << (k - 1 - j))] for i in range(1 << k))]
                got = [int(x) for x in impl[1:]] if op == "support" else [int(p[1]) for p in impl[1:]]
                if got != dep:
                    bad = True
                    desc = {"variables_the_function_depends_on": dep, "observed": got}
                if op == "size_per_var" and sum(int(p[2]) for p in impl[1:]) != max(0, len(nodes) - 2):
                    bad = True
        if bad:
            V.violations.append(violation(PID, st, "%s is not exact" % op, oracle=desc, confirmed=True, relation="sorted lists equal"))
        elif impl != model:
            V.violations.append(violation(PID, st, "%s differs from the model" % op, oracle=desc, confirmed=False, relation="sorted lists equal"))
        elif len(nodes) >= 3:
            V.nontrivial.add(key)
        return
    raise RuntimeError("C09: unexpected operation " + op)


_done = set()
_nid = [0]


def check_identities(V):
    """additive identities on the implementation's own numbers (no reference count involved); called whenever a new
    exact_card arrives, each identity is evaluated once, as soon as all of its ingredients are known"""
    for (name, a, b), r_or in list(_bins.items()):
        if name != "or" or ("or", a, b) in _done:
            continue
        r_and = _bins.get(("and", a, b))
        if r_and is None or not all(x in _cards for x in (a, b, r_or, r_and)):
            continue
        _done.add(("or", a, b))
        ca, cb, co, cn = (int(_cards[x]) for x in (a, b, r_or, r_and))
        _nid[0] += 1
        if co + cn != ca + cb:
            stp = ("0", ["exact_card", sx_parse(r_or)], _cards[r_or], "-", "-")
            v = violation(PID, stp, "|a or b| + |a and b| != |a| + |b| on the implementation's own numbers",
                          oracle={"a": a[:300], "b": b[:300], "|a|": str(ca), "|b|": str(cb), "|a or b|": str(co), "|a and b|": str(cn)},
                          confirmed=True, relation="additive identity")
            v["program"] = [sx_str(c) for c in identity_prog(bdd_nodes(sx_parse(a)), bdd_nodes(sx_parse(b)))]
            V.violations.append(v)
    for a, r in list(_nots.items()):
        if ("not", a) in _done or a not in _cards or r not in _cards:
            continue
        _done.add(("not", a))
        nv = bdd_nodes(sx_parse(a))[0][0]
        _nid[0] += 1
        if int(_cards[r]) != (1 << nv) - int(_cards[a]):
            stp = ("0", ["exact_card", sx_parse(r)], _cards[r], "-", "-")
            v = violation(PID, stp, "|not a| != 2^nv - |a| on the implementation's own numbers",
                          oracle={"a": a[:300], "|a|": _cards[a], "|not a|": _cards[r], "nv": nv}, confirmed=True, relation="complement identity")
            v["program"] = [sx_str(c) for c in identity_prog(bdd_nodes(sx_parse(a)), bdd_nodes(sx_parse(a)))]
            V.violations.append(v)


def vm_crosscheck_counts(steps, limit=60):
    """validates the EXTRACTED counting functions against kernel evaluation: a sample of steps (every operation, several variable
    counts, small operands and diagrams with heavy sharing) is re-evaluated by coqc with vm_compute and compared with the extracted
    binary's answers: the function the driver runs (the memoised `_auto` twins of Model/CountFast.v) on every sampled step, and the
    un-memoised reference function of Model/Count.v as well wherever it is feasible (few paths)"""
    import re
    import tempfile
    fn = {"exact_card": "exact_cardinality", "clause_card": "exact_clause_cardinality", "card": "cardinality_f64",
          "support": "support_set", "size_per_var": "size_per_variable"}
    memoised = ("exact_card", "clause_card", "card")
    chosen, per = [], {}
    for st in steps:
        cid, call, impl, model, aux = st
        if call[0] not in fn or not is_bdd(call[1]) or isinstance(model, str) and model.startswith(MACHINERY):
            continue
        nodes = bdd_nodes(call[1])
        if not is_wf(nodes):
            continue
        shared = call[0] in memoised and len(nodes) >= 3 and dp_counts(nodes)[1] > 1 << 20
        k = (call[0], nodes[0][0] >= 1024, len(nodes) >= 3, shared)
        if len(nodes) > (400 if shared else 40) or per.get(k, 0) >= 4:
            continue
        per[k] = per.get(k, 0) + 1
        chosen.append((st, shared))
        if len(chosen) >= limit:
            break
    if not chosen:
        return 0, 0
    lines = ["From Coq Require Import List NArith. Import ListNotations.", "From BddVerif Require Import Model.Bdd Model.Count Model.CountFast.",
             "Open Scope N_scope."]
    evals = []        # index into chosen, one entry per Eval line
    for i, ((cid, call, impl, model, aux), shared) in enumerate(chosen):
        arr = "[%s]" % "; ".join("mkNode %d %d %d" % nd for nd in bdd_nodes(call[1]))
        if call[0] in memoised:
            lines.append("Eval vm_compute in (%s_auto %s)." % (fn[call[0]], arr))
            evals.append(i)
        if not shared:
            lines.append("Eval vm_compute in (%s %s)." % (fn[call[0]], arr))
            evals.append(i)
    with tempfile.TemporaryDirectory() as d:
        path = os.path.join(d, "cases.v")
        open(path, "w").write("\n".join(lines) + "\n")
        rc, out, err = run_cmd(["timeout", "600", "coqc", "-noglob", "-Q", COQ_DIR, "BddVerif", path], cwd=d, timeout=700)
    if rc != 0:
        raise RuntimeError("vm_compute cross-check of the counting model failed to compile: " + (out + err)[-2000:])
    vals = re.findall(r"=\s*(.*?)\n\s*:\s", out, flags=re.S)
    if len(vals) != len(evals):
        raise RuntimeError("vm_compute cross-check of the counting model: %d answers for %d evaluations" % (len(vals), len(evals)))
    good = [True] * len(chosen)
    for i, v in zip(evals, vals):
        model = chosen[i][0][3]
        got = re.findall(r"\d+|FInf|FNaN", v)
        want = [{"INF": "FInf", "NAN": "FNaN"}.get(t, t) for t in re.findall(r"\d+|INF|NAN", sx_str(model))]
        if got != want:
            good[i] = False
    _cross[2] = sum(1 for _, sh in chosen if sh)
    return len(chosen), sum(good)


_cross = [0, 0, 0]


def finalize(steps, V):
    V.count("identities_checked", _nid[0])
    V.notes.append("additive/complement identities checked on the implementation's own numbers: %d" % _nid[0])
    n, ok = vm_crosscheck_counts(steps)
    _cross[0], _cross[1] = n, ok
    if n != ok:
        raise RuntimeError("extracted counting model disagrees with vm_compute on %d of %d sampled steps" % (n - ok, n))


def extra(V):
    return {"vm_compute_crosscheck_counting_model": {"cases": _cross[0], "agree": _cross[1], "cases_with_more_than_2^20_paths": _cross[2]}}
