"""C16 — variable sets, literals and threshold constructors are faithful."""
from common import *
from props.base import *
from props import oracle

PID = "C16"
RULE = ("names: every name list of length <=3 over an 8-name alphabet (empty name, a name with a space, a two-byte UTF-8 name, a name with a forbidden "
        "character, x_0) built three ways (BddVariableSet::new, From<Vec<String>>, builder with every make_variable under its own catch_unwind), "
        "each followed by var_by_name of every alphabet name, name_of of every index 0..len+1, the var_by_name(name_of(v)) round trip, Display, "
        "mk_var_by_name/mk_not_var_by_name; every single-byte name 0x00..0x7f and each of the 11 forbidden characters at the start/middle/end of a name; "
        "random lists of up to 40 names with injected duplicates/forbidden characters; make_variables in batches; new_anonymous(n) for n in 0..12, "
        "100, 257, 1000 with lookups of x_i, x_0i, x_; the size limit: new_anonymous(65533/65534/65535), new() with 65534 names, new() with 65536 and 65541 names (length not "
        "fitting 16 bits; thorough: 65535, 65537, 70000 as well, and from() with 65534 / 65536 names) (thorough: new() with "
        "65533 names and 65535 make_variable calls on one builder). constructors: mk_true/mk_false for 0..8 and 65533 variables, mk_var/mk_not_var/mk_literal for every "
        "variable of 1..6 variables, Bdd::from(valuation) for every valuation of <=6 variables and random ones up to 16; thresholds: every subset "
        "of <=4 of 4..6 variables in random order, with and without repetitions, every k in 0..6, random subsets of 8 variables with k up to 9. "
        "relations: names/ids/Option/PANIC/Display exact; diagrams: canon(impl) = canon(model). Calls with a variable outside the set are outside the "
        "quantifier (recorded, not judged). non-trivial = name list with >=2 names / anonymous set with >=2 variables / literal / valuation of >=1 "
        "variable / threshold over a non-empty list")
EXHAUSTIVE = {"quick": False, "thorough": False}

FORBIDDEN = "!&|^=<>()?:"
ALPHABET = [b"a", b"b", b"", b"a b", "é".encode(), b"x_0", b"a^b", b"b"]  # the last one duplicates "b" on purpose (dedup below)


def hx(b):
    return hexs(b)


def names_sx(names):
    return ["L"] + [hx(n) for n in names]


def programs(rng, tier):
    P = Prog()
    alpha = []
    for n in ALPHABET:
        if n not in alpha:
            alpha.append(n)
    # ---- names: exhaustive small scope
    lists = [[]]
    for k in (1, 2, 3):
        lists += [list(t) for t in itertools.product(alpha, repeat=k)]
    if tier == "quick":
        lists = [l for l in lists if len(l) <= 2] + rng.sample([l for l in lists if len(l) == 3], 70)
    for names in lists:
        L = names_sx(names)
        for kind in ("new", "from"):
            spec = [kind, L]
            P.add(["vs_summary", spec])
            P.add(["vs_roundtrip", spec])
            P.add(["vs_assignment", spec])
            for q in (alpha if tier == "thorough" or len(names) <= 1 else rng.sample(alpha, 3)) + [b"zz"]:
                P.add(["vs_var_by_name", spec, hx(q)])
            for v in range(len(names) + 2):
                P.add(["vs_name_of", spec, str(v)])
            q = rng.choice(alpha)
            P.add([rng.choice(["vs_mk_var_by_name", "vs_mk_not_var_by_name"]), spec, hx(q)])
        P.add(["vs_steps", L])
    # ---- every single-byte name, forbidden characters in three positions
    for c in range(0x80):
        P.add(["vs_steps", names_sx([bytes([c])])])
    for ch in FORBIDDEN:
        for nm in (ch + "ab", "a" + ch + "b", "ab" + ch, "é" + ch, ch + ch):
            nm = nm.encode()
            P.add(["vs_summary", ["new", names_sx([b"p", nm])]])
            P.add(["vs_summary", ["from", names_sx([nm, b"p"])]])
            P.add(["vs_steps", names_sx([b"p", nm, b"q"])])
    # ---- random lists
    pool_chars = "abcxyz_019 .,;#'\"[]{}~@$%*+-/\\é中\U0001F600"
    for _ in range(150 if tier == "quick" else 3000):
        k = rng.randrange(0, 41)
        names = []
        for _ in range(k):
            r = rng.random()
            if names and r < 0.08:
                names.append(rng.choice(names))
            else:
                nm = "".join(rng.choice(pool_chars) for _ in range(rng.randrange(0, 5)))
                if r > 0.96:
                    pos = rng.randrange(0, len(nm) + 1)
                    nm = nm[:pos] + rng.choice(FORBIDDEN) + nm[pos:]
                names.append(nm.encode())
        L = names_sx(names)
        kind = rng.choice(["new", "from"])
        spec = [kind, L]
        P.add(["vs_summary", spec])
        P.add(["vs_steps", L])
        P.add(["vs_roundtrip", spec])
        P.add(["vs_assignment", spec])
        if len(names) >= 3:
            P.add(["vs_make3", names_sx(rng.sample(names, 3) if rng.random() < 0.8 else [names[0], names[1], names[0]])])
        if names:
            P.add(["vs_var_by_name", spec, hx(rng.choice(names))])
            P.add(["vs_var_by_name", spec, hx(rng.choice(names) + b"'")])
            P.add(["vs_name_of", spec, str(rng.randrange(0, len(names) + 2))])
            P.add([rng.choice(["vs_mk_var_by_name", "vs_mk_not_var_by_name"]), spec, hx(rng.choice(names))])
        # batches
        cuts = sorted(rng.randrange(0, len(names) + 1) for _ in range(rng.randrange(0, 4)))
        bs, prev = [], 0
        for c in cuts + [len(names)]:
            bs.append(names_sx(names[prev:c]))
            prev = c
        P.add(["vs_batches", ["L"] + bs])
    # ---- anonymous sets
    for n in list(range(0, 13)) + [100, 257, 1000]:
        spec = ["anon", str(n)]
        P.add(["vs_summary", spec])
        P.add(["vs_roundtrip", spec])
        for i in sorted({0, 1, 9, 10, 11, n - 1, n, n + 1, 99, 100, 256}):
            if i >= 0:
                P.add(["vs_var_by_name", spec, hx(b"x_%d" % i)])
        P.add(["vs_var_by_name", spec, hx(b"x_01")])
        P.add(["vs_var_by_name", spec, hx(b"x_")])
        P.add(["vs_var_by_name", spec, hx(b"x_+1")])
        for v in sorted({0, n - 1, n, n + 1} - {-1}):
            P.add(["vs_name_of", spec, str(v)])
        P.add(["vs_mk_var_by_name", spec, hx(b"x_%d" % max(0, n - 1))])
    # ---- size limit
    for n in (65533, 65534, 65535):
        spec = ["anon", str(n)]
        P.add(["vs_var_by_name", spec, hx(b"x_65532")])
        P.add(["vs_var_by_name", spec, hx(b"x_0")])
        P.add(["vs_var_by_name", spec, hx(b"x_65533")])
        P.add(["vs_name_of", spec, "65532"])
        P.add(["vs_name_of", spec, "65533"])
    P.add(["vs_summary", ["anon", "65533"]])
    digs = b"abcdefghijklmnopqrstuvwxyzABCDEFGHIJKLMNOPQRSTUVWXYZ0123456789_."

    def bigname(i):   # least significant digit first: most pairs of names differ in the first byte
        out = bytearray()
        while True:
            out.append(digs[i % 64])
            i //= 64
            if i == 0:
                return bytes(out)

    big = [bigname(i) for i in range(70000)]
    P.add(["vs_var_by_name", ["new", names_sx(big[:65534])], hx(big[1])])        # PANIC: too many
    # lists whose length does not fit 16 bits (a `len as u16` before the size check would accept them modulo 65,536)
    for n in ((65536, 65541) if tier == "quick" else (65535, 65536, 65537, 65541, 70000)):
        P.add(["vs_var_by_name", ["new", names_sx(big[:n])], hx(big[1])])
        P.add(["vs_summary", ["new", names_sx(big[:n])]])
    if tier == "thorough":   # the builder path (quadratic in the model's association lists: minutes per case)
        for n in (65534, 65536):
            P.add(["vs_var_by_name", ["from", names_sx(big[:n])], hx(big[1])])
    if tier == "thorough":
        P.add(["vs_var_by_name", ["new", names_sx(big[:65533])], hx(big[65532])])
        P.add(["vs_steps", names_sx(big[:65535])])                               # 65534 successes, then PANIC
    # ---- constants, literals, valuations
    for nv in list(range(0, 9)) + [65533]:
        P.add(["mk_true", str(nv)])
        P.add(["mk_false", str(nv)])
    for nv in range(1, 7):
        for x in range(nv + 1):
            P.add(["mk_var", str(nv), str(x)])
            P.add(["mk_not_var", str(nv), str(x)])
            P.add(["mk_literal", str(nv), str(x), "T"])
            P.add(["mk_literal", str(nv), str(x), "F"])
    for nv in range(0, 7):
        for bits in itertools.product("01", repeat=nv):
            P.add(["of_valuation", "v" + "".join(bits)])
    for _ in range(40 if tier == "quick" else 1000):
        nv = rng.randrange(7, 17)
        P.add(["of_valuation", "v" + "".join(rng.choice("01") for _ in range(nv))])
    # ---- thresholds
    for nv in (4, 5, 6):
        subsets = [s for r in range(0, 5) for s in itertools.combinations(range(nv), r)]
        if tier == "quick" and nv > 4:
            subsets = rng.sample(subsets, 12)
        for sub in subsets:
            for k in range(0, 7):
                xs = list(sub)
                rng.shuffle(xs)
                if xs and rng.random() < 0.3:
                    xs.insert(rng.randrange(len(xs) + 1), rng.choice(xs))   # a repeated variable
                vs = ["L"] + [str(x) for x in xs]
                P.add(["mk_sat_exactly", str(nv), str(k), vs])
                P.add(["mk_sat_upto", str(nv), str(k), vs])
    for _ in range(60 if tier == "quick" else 1500):
        nv = 8
        xs = rng.sample(range(nv), rng.randrange(0, 8))
        k = rng.randrange(0, 10)
        vs = ["L"] + [str(x) for x in xs]
        P.add([rng.choice(["mk_sat_exactly", "mk_sat_upto"]), str(nv), str(k), vs])
    # longer lists, every k of the middle range (and k = length, length +- 1), sorted / reverse-sorted / shuffled lists, over more
    # variables than listed (levels are skipped)
    for _ in range(30 if tier == "quick" else 600):
        nv = rng.choice([12, 16, 20, 33, 40])
        xs = rng.sample(range(nv), rng.randrange(9, 13))
        order = rng.choice(["sorted", "reversed", "shuffled"])
        xs = sorted(xs) if order == "sorted" else sorted(xs, reverse=True) if order == "reversed" else xs
        vs = ["L"] + [str(x) for x in xs]
        for k in sorted({rng.randrange(2, len(xs) - 1), len(xs) // 2, len(xs) - 1, len(xs), len(xs) + 1}):
            P.add([rng.choice(["mk_sat_exactly", "mk_sat_upto"]), str(nv), str(k), vs])
    # threshold storms: BOTH constructors called one after the other inside one program (one worker thread) with the SAME variable
    # list and rising, falling and repeated thresholds: a layer remembered from the previous call under a key that leaves out the
    # constructor (or the threshold it was built for) turns `exactly k` into `up to k` or the reverse
    for _ in range(150 if tier == "quick" else 3000):
        nv = rng.choice([3, 4, 5, 6, 8])
        xs = rng.sample(range(nv), rng.randrange(1, nv + 1))
        vs = ["L"] + [str(x) for x in xs]
        ks = [rng.randrange(0, len(xs) + 2) for _ in range(rng.choice([2, 3, 4, 5]))]
        mode = rng.choice(["rising", "falling", "any"])
        ks = sorted(ks) if mode == "rising" else sorted(ks, reverse=True) if mode == "falling" else ks
        first = rng.choice(["mk_sat_exactly", "mk_sat_upto"])
        other = "mk_sat_upto" if first == "mk_sat_exactly" else "mk_sat_exactly"
        P.add_prog([["t%d" % i, (first if i % 2 == 0 else other) if rng.random() < 0.8 else rng.choice([first, other]), str(nv), str(k), vs]
                    for i, k in enumerate(ks)])
    # a listed variable outside the set: outside the quantifier, recorded only
    # thresholds far above the list length, around the u16 boundary (the library iterates k rounds: keep these few)
    for k in ((65535, 65536, 65537) if tier == "quick" else (65535, 65536, 65537, 65538, 131072, 131073, 70000)):
        P.add(["mk_sat_upto", "3", str(k), ["L", "0", "2"]])
        P.add(["mk_sat_exactly", "3", str(k), ["L", "1"]])
    P.add(["mk_sat_exactly", "3", "1", ["L", "0", "3"]])
    P.add(["mk_sat_upto", "3", "1", ["L", "5"]])
    return P.progs


# ----------------------------------------------------------------------------- independent oracle for the names part
class Pan(Exception):
    pass


def bad_name(b):
    return any(ch in FORBIDDEN for ch in b.decode("utf-8"))


def py_set(spec):
    """list of names (bytes) of the set, or raises Pan"""
    kind = spec[0]
    if kind == "anon":
        n = int(spec[1])
        if n >= 65534:
            raise Pan()
        return [b"x_%d" % i for i in range(n)]
    names = [unhex(x) for x in spec[1][1:]]
    if kind == "new":
        if len(names) >= 65534 or any(bad_name(n) for n in names) or len(set(names)) != len(names):
            raise Pan()
        return names
    out = []
    seen = set()
    for n in names:
        if len(out) >= 65534 or n in seen or bad_name(n):
            raise Pan()
        out.append(n)
        seen.add(n)
    return out


def py_summary(names):
    return ["VS", str(len(names)), ["L"] + [hx(n) for n in names], ["L"] + [str(i) for i in range(len(names))],
            hx(b"[" + b",".join(names) + b"]")]


def py_expected(call):
    op = call[0]
    try:
        if op == "vs_steps":
            out, seen, res = [], set(), []
            for x in call[1][1:]:
                n = unhex(x)
                if len(out) >= 65534 or n in seen or bad_name(n):
                    res.append("PANIC")
                else:
                    res.append(str(len(out)))
                    out.append(n)
                    seen.add(n)
            return ["P", ["L"] + res, py_summary(out)]
        if op == "vs_batches":
            out, seen, res = [], set(), []
            for b in call[1][1:]:
                ids = []
                for x in b[1:]:
                    n = unhex(x)
                    if len(out) >= 65534 or n in seen or bad_name(n):
                        raise Pan()
                    ids.append(str(len(out)))
                    out.append(n)
                    seen.add(n)
                res.append(["L"] + ids)
            return ["P", ["L"] + res, py_summary(out)]
        if op == "vs_make3":
            out = []
            for x in call[1][1:]:
                n = unhex(x)
                if n in out or bad_name(n):
                    raise Pan()
                out.append(n)
            return ["P", ["L", "0", "1", "2"], ["L"] + [hx(n) for n in out]]
        names = py_set(call[1])
        if op == "vs_assignment":
            return ["L"] + [["P", str(i), hx(n)] for i, n in enumerate(names)]
        if op == "vs_summary":
            return py_summary(names)
        if op == "vs_roundtrip":
            return ["L"] + [["S", str(i)] for i in range(len(names))]
        if op == "vs_var_by_name":
            q = unhex(call[2])
            return ["S", str(names.index(q))] if q in names else "N"
        if op == "vs_name_of":
            v = int(call[2])
            if v >= len(names):
                raise Pan()
            return hx(names[v])
        if op in ("vs_mk_var_by_name", "vs_mk_not_var_by_name"):
            q = unhex(call[2])
            if q not in names:
                raise Pan()
            nv, x = len(names), names.index(q)
            lo, hi = (0, 1) if op == "vs_mk_var_by_name" else (1, 0)
            return bdd_sx([(nv, 0, 0), (nv, 1, 1), (x, lo, hi)])
    except Pan:
        return "PANIC"
    return None


def in_quantifier(call):
    op = call[0]
    if op in ("mk_var", "mk_not_var", "mk_literal"):
        return int(call[2]) < int(call[1])
    if op in ("mk_sat_exactly", "mk_sat_upto"):
        return all(int(x) < int(call[1]) for x in call[3][1:])
    return True


def judge(st, V):
    cid, call, impl, model, aux = st
    op = call[0]
    V.evaluations += 1
    V.count("op:" + op)
    if impl == "SKIP":
        V.skipped += 1
        return
    machinery_guard(st)
    if not in_quantifier(call):
        V.count("outside_quantifier")
        V.skipped += 1
        return
    sample(V, st)
    V.count("outcome:" + (impl if isinstance(impl, str) and not impl.startswith("h:") else "value"))
    if op.startswith("vs_"):
        if op in ("vs_mk_var_by_name", "vs_mk_not_var_by_name") and impl != "PANIC" and model != "PANIC":
            ok = semantic_agree(impl, model, aux)
        else:
            ok = impl == model
        if not ok:
            want = py_expected(call)
            V.violations.append(violation(PID, st, "variable-set operation disagrees with the model", confirmed=(want is not None and impl != want),
                                          oracle={"expected": sx_str(want)[:2000] if want is not None else None, "observed": sx_str(impl)[:2000]},
                                          relation="exact (names, ids, Option, PANIC, Display)"))
            return
        # size of the set involved
        if op in ("vs_steps", "vs_make3"):
            n = len(call[1]) - 1
        elif op == "vs_batches":
            n = sum(len(b) - 1 for b in call[1][1:])
        elif call[1][0] == "anon":
            n = int(call[1][1])
        else:
            n = len(call[1][1]) - 1
        V.count("names:%s" % ("0" if n == 0 else "1" if n == 1 else "2-3" if n < 4 else "4-40" if n <= 40 else "41+"))
        if n >= 2:
            V.nontrivial.add(key_of(call))
        return
    # Bdd-valued constructors
    if not semantic_agree(impl, model, aux):
        confirmed, desc = oracle.check(call, impl)
        V.violations.append(violation(PID, st, "constructor result differs from the model: canon(impl) = canon(model)", oracle=desc,
                                      confirmed=confirmed, relation="canon(impl result) = canon(model result)"))
        return
    if op in ("mk_var", "mk_not_var", "mk_literal"):
        V.nontrivial.add(key_of(call))
    elif op == "of_valuation" and len(call[1]) > 1:
        V.nontrivial.add(key_of(call))
    elif op in ("mk_sat_exactly", "mk_sat_upto") and len(call[3]) > 1:
        V.count("k_vs_len:%s" % ("k=0" if call[2] == "0" else "k<=len" if int(call[2]) <= len(set(call[3][1:])) else "k>len"))
        V.nontrivial.add(key_of(call))


_cross = [0, 0]


def finalize(steps, V):
    """re-validate the extracted variable-set model against vm_compute on a sample of this run's steps"""
    from props import vsdot_common
    n, ok = vsdot_common.vm_crosscheck(steps)
    _cross[0], _cross[1] = n, ok
    if n != ok:
        raise RuntimeError("extracted model disagrees with vm_compute on %d of %d sampled variable-set steps" % (n - ok, n))


def extra(V):
    return {"vm_compute_crosscheck": {"cases": _cross[0], "agree": _cross[1]}}
