"""C04 — fused variable flips act as input/output bit inversion."""
from common import *
from props.base import *

PID = "C04"
RULE = ("fused_binary_flip_op / fused_ternary_flip_op: all (left,right,output) flip choices from {none} ∪ variables for every pair of "
        "functions of <=2 variables (sampled connectives; all 16 in the thorough tier), random operands over 3..8 variables with flips "
        "on variables inside and outside the supports, equal and distinct flip variables, non-canonical operands; plus the unfused "
        "composition flip(out, op(flip(a), flip(b))) through the same API as a second program whose result must be identical. "
        "out-of-range flip variables must panic in model and implementation. relation: canon(impl)=canon(model); fused==unfused arrays. "
        "non-trivial = non-constant operands, at least one flip present, result >=3 nodes. "
        "LARGE operands (model side: the proved-equal fast ternary engine, Model/Apply3Fast.v): ftern with flips and one operand a random "
        "function of 20 variables (>70,000 nodes) in the second / third position (thorough: every position, and fbin with a large operand), "
        "the others small functions of 2..3 of the same variables; medium ternary triples over 10..11 variables; results above 400 nodes "
        "are compared as arrays with the (proved canonical) model result; failing-input oracle there: raw evaluation on 3000 random valuations")
IDT = "t:-01-00-11"  # left projection table: (l, r) -> l, lazy in r... total on total inputs


def left_proj_table():
    # connective (l,r) -> l ; index 2*l+r
    return (False, False, True, True)


def programs(rng, tier):
    P = Prog()
    for nv in (1, 2):
        fs = all_functions(nv)
        opts = [None] + list(range(nv))
        for a in fs:
            for b in fs:
                for fa in opts:
                    for fb in opts:
                        for fo in opts:
                            conns = CONNS if tier == "thorough" else rng.sample(CONNS, 1 if nv == 2 else 3)
                            for conn in conns:
                                P.add(["fbin", partial_table(rng, conn), optvar(fa), optvar(fb), optvar(fo), bdd_sx(a), bdd_sx(b)])
    nrand = 1500 if tier == "quick" else 40000
    for _ in range(nrand):
        nv = rng.choice([3, 3, 4, 5, 6, 8])
        a, b, c = (rand_operand(rng, nv) for _ in range(3))
        # the SAME operand in several positions (handed out by the harness as one object), with equal and with different flips
        al = rng.random()
        if al < 0.12:
            b = a
        elif al < 0.18:
            c = b
        elif al < 0.22:
            c = a
        elif al < 0.25:
            b = c = a
        if rng.random() < 0.7:
            fa, fb, fo = (rand_optvar(rng, nv) for _ in range(3))
            if b is a and rng.random() < 0.5:
                fa = fb = rng.randrange(nv)
            if rng.random() < 0.15 and fa is not None:
                fb = fa
            if rng.random() < 0.15 and fa is not None:
                fo = fa
            conn = rng.choice(CONNS)
            t = partial_table(rng, conn)
            P.add(["fbin", t, optvar(fa), optvar(fb), optvar(fo), bdd_sx(a), bdd_sx(b)])
            # unfused composition through the public API: flip_x(f) = fbin(leftproj, (f, x), (f, None), None)
            lp = partial_table(rng, left_proj_table(), 0.0)
            prog = [["a", "id", bdd_sx(a)], ["b", "id", bdd_sx(b)],
                    ["fa", "fbin", lp, optvar(fa), "N", "N", "$a", "$a"],
                    ["fb", "fbin", lp, optvar(fb), "N", "N", "$b", "$b"],
                    ["r", "bin", t, "$fa", "$fb"],
                    ["unfused", "fbin", lp, optvar(fo), "N", "N", "$r", "$r"],
                    ["fused", "fbin", t, optvar(fa), optvar(fb), optvar(fo), "$a", "$b"],
                    ["same", "eq", "$unfused", "$fused"]]
            P.add_prog(prog)
        else:
            f1, f2, f3, fo = (rand_optvar(rng, nv) for _ in range(4))
            conn3 = tuple(rng.random() < 0.5 for _ in range(8))
            P.add(["ftern", partial_table3(rng, conn3), optvar(f1), optvar(f2), optvar(f3), optvar(fo), bdd_sx(a), bdd_sx(b), bdd_sx(c)])
    # large operands: the memo table of the ternary loop is keyed by the pointer triple
    BIG_NV = 20
    for r in range(1 if tier == "quick" else 3):
        big = big_random_bdd(rng, BIG_NV)
        assert len(big) > 70000
        bs = bdd_sx(big)
        sm = lambda: bdd_sx(small_fn_tt(rng, BIG_NV)[0])
        fl = lambda: [optvar(rand_optvar(rng, BIG_NV, 0.3)) for _ in range(4)]
        c3 = lambda: tuple(rng.random() < 0.5 for _ in range(8))
        P.add(["ftern", partial_table3(rng, c3())] + fl() + [sm(), bs, sm()])
        P.add(["ftern", partial_table3(rng, c3())] + fl() + [sm(), sm(), bs])
        if tier == "thorough":
            P.add(["ftern", partial_table3(rng, c3())] + fl() + [bs, sm(), sm()])
            P.add(["ftern", partial_table3(rng, c3())] + fl() + [bs, sm(), bdd_sx(big_random_bdd(rng, BIG_NV))])
            P.add(["fbin", partial_table(rng, rng.choice(CONNS))] + fl()[:3] + [sm(), bs])
            P.add(["fbin", partial_table(rng, rng.choice(CONNS))] + fl()[:3] + [bs, sm()])
    for _ in range(2 if tier == "quick" else 20):
        mv = rng.choice([10, 11])
        x, y, z = (bdd_sx(big_random_bdd(rng, mv)) for _ in range(3))
        P.add(["ftern", partial_table3(rng, tuple(rng.random() < 0.5 for _ in range(8)))] +
              [optvar(rand_optvar(rng, mv, 0.3)) for _ in range(4)] + [x, y, z])
    # out-of-range flips: must be rejected (panic), nothing else may be
    for _ in range(30):
        nv = rng.choice([1, 2, 3, 5])
        a, b = rand_operand(rng, nv, 0), rand_operand(rng, nv, 0)
        fl = [None, None, None]
        fl[rng.randrange(3)] = nv + rng.randrange(3)
        P.add(["fbin", partial_table(rng, rng.choice(CONNS)), optvar(fl[0]), optvar(fl[1]), optvar(fl[2]), bdd_sx(a), bdd_sx(b)])
    return P.progs


def judge(st, V):
    cid, call, impl, model, aux = st
    if call[0] == "id":
        return
    if call[0] == "eq":
        V.evaluations += 1
        if impl == "SKIP":
            V.skipped += 1
            return
        if impl != "T":
            V.violations.append(violation(PID, st, "fused result differs from performing the flips and the operator as separate steps",
                                          oracle={"fused": sx_str(call[2]), "unfused": sx_str(call[1])}, confirmed=True,
                                          relation="fused array == unfused array (==)"))
        return
    judge_semantic(PID, st, V)
    if any(is_bdd(x) and len(x) > 3 * 65536 for x in call[1:]):
        V.count("large-operand(>65536 nodes):" + call[0])
    # non-triviality for this property additionally needs a flip
    k = key_of(call)
    if k in V.nontrivial and call[0] in ("fbin", "ftern"):
        flips = call[2:5] if call[0] == "fbin" else call[2:6]
        if all(f == "N" for f in flips):
            V.nontrivial.discard(k)
