"""C02 — equal functions have identical Bdds: canonical form through any history."""
from common import *
from props.base import *

PID = "C02"
CROSSCHECK = True
RULE = ("histories of 4..30 public operations (constructors, named/table/fused/ternary operators, not, ite, quantifiers, nested apply, "
        "select/restrict/pick, substitute, normal-form and threshold constructors, renaming, transfer, text/byte/node-list round trips) "
        "starting from library constructors; every Bdd the implementation produces from canonical operands (and every result of a "
        "binary/ternary/nested operator on merely valid operands) must satisfy the Coq-extracted canonicalb (valid, reduced, DFS post-order "
        "high-first, nothing unreachable) and equal the output of the proved canonicaliser; algebraic-identity programs compute one function "
        "along two histories and compare ==, Hash stream, text and bytes; is_true/is_false compared with the truth table. "
        "non-trivial = result with >=3 nodes produced by an operation with a non-constant operand; distinct by sha256 of (operation, operands)")
CANONICALISING = ("bin", "named", "fbin", "fbinlim", "binlim", "tern", "ftern", "ite", "bin_exists", "bin_for_all", "nested", "exists", "for_all",
                  "var_exists", "var_for_all", "select", "var_select", "var_pick", "var_pick_random", "pick", "pick_random")
NAMES = ["and", "or", "imp", "iff", "xor", "and_not"]


def history(rng, nv, length):
    prog = []
    pool = []

    def emit(case, is_b=True):
        cid = "h%d" % len(prog)
        prog.append([cid] + case)
        if is_b:
            pool.append(cid)
        return cid

    def pv():
        return "p" + "".join(rng.choice("01--") for _ in range(nv))

    def vs(k=None):
        xs = [x for x in range(nv) if rng.random() < 0.4]
        rng.shuffle(xs)
        return ["L"] + [str(x) for x in xs]

    # seeds
    for _ in range(rng.randrange(2, 5)):
        k = rng.random()
        if nv == 0:
            emit([rng.choice(["mk_true", "mk_false"]), "0"])
        elif k < 0.4:
            emit(["mk_literal", str(nv), str(rng.randrange(nv)), rng.choice("TF")])
        elif k < 0.6:
            emit(["mk_cc", str(nv), pv()])
        elif k < 0.7:
            emit(["mk_dc", str(nv), pv()])
        elif k < 0.8:
            emit(["of_valuation", "v" + "".join(rng.choice("01") for _ in range(nv))])
        elif k < 0.9:
            emit(["mk_dnf", str(nv), ["L"] + [pv() for _ in range(rng.randrange(0, 4))]])
        else:
            emit(["mk_sat_exactly", str(nv), str(rng.randrange(0, 3)), vs()])
    P = lambda: "$" + rng.choice(pool)
    for _ in range(length):
        k = rng.random()
        x = str(rng.randrange(nv)) if nv else "0"
        ov = lambda: optvar(rand_optvar(rng, nv, 0.5))
        if k < 0.16:
            emit(["named", rng.choice(NAMES), P(), P()])
        elif k < 0.22:
            emit(["bin", partial_table(rng, rng.choice(CONNS)), P(), P()])
        elif k < 0.30:
            emit(["fbin", partial_table(rng, rng.choice(CONNS)), ov(), ov(), ov(), P(), P()])
        elif k < 0.35:
            emit(["not", P()])
        elif k < 0.39:
            emit(["ite", P(), P(), P()])
        elif k < 0.41:
            emit(["tern", partial_table3(rng, tuple(rng.random() < 0.5 for _ in range(8))), P(), P(), P()])
        elif k < 0.43:
            emit(["ftern", partial_table3(rng, tuple(rng.random() < 0.5 for _ in range(8))), ov(), ov(), ov(), ov(), P(), P(), P()])
        elif k < 0.49:
            emit([rng.choice(["exists", "for_all"]), P(), vs()])
        elif k < 0.53 and nv:
            emit([rng.choice(["var_exists", "var_for_all"]), P(), x])
        elif k < 0.58:
            emit([rng.choice(["bin_exists", "bin_for_all"]), partial_table(rng, rng.choice(CONNS)), P(), P(), vs()])
        elif k < 0.62:
            inner = partial_table(rng, rng.choice([(False, True, True, True), (False, False, False, True)]))
            emit(["nested", partial_table(rng, rng.choice(CONNS)), inner, P(), P(), "v" + "".join(rng.choice("01") for _ in range(nv))])
        elif k < 0.68:
            lits = ["L"] + [["P", str(v), rng.choice("TF")] for v in range(nv) if rng.random() < 0.35]
            if len(lits) > 1 and rng.random() < 0.25:
                # the same variable twice in a sorted list (adjacent): with the same value, or contradicting
                i = rng.randrange(1, len(lits))
                lits.insert(i, ["P", lits[i][1], lits[i][2] if rng.random() < 0.6 else rng.choice("TF")])
            emit([rng.choice(["select", "restrict"]), P(), lits])
        elif k < 0.72 and nv:
            emit([rng.choice(["var_select", "var_restrict"]), P(), x, rng.choice("TF")])
        elif k < 0.76 and nv:
            emit(["var_pick", P(), x])
        elif k < 0.80:
            emit(["pick", P(), vs()])
        elif k < 0.83:
            emit(["pick_random", P(), vs(), "v" + "".join(rng.choice("01") for _ in range(nv))])
        elif k < 0.88 and nv:
            emit(["substitute", P(), x, P()])
        elif k < 0.91:
            s = emit(["to_string", P()], False)
            emit(["read_string", "$" + s])
        elif k < 0.94:
            s = emit(["to_bytes", P()], False)
            emit(["read_bytes", "$" + s])
        elif k < 0.96:
            s = emit(["to_nodes", P()])
            emit(["from_nodes", "$" + s])
        elif k < 0.98:
            emit(["mk_cnf", str(nv), ["L"] + [pv() for _ in range(rng.randrange(0, 4))]])
        else:
            emit(["mk_sat_upto", str(nv), str(rng.randrange(0, 4)), vs()])
    # observations on the last few results
    for cid in pool[-3:]:
        emit(["is_false", "$" + cid], False)
        emit(["is_true", "$" + cid], False)
        emit(["tt", "$" + cid], False)
    return prog


def identities(rng, nv):
    """one function along two histories; the two results must be == / hash / print identically"""
    a, b, c = (bdd_sx(random_bdd(rng, nv)) for _ in range(3))
    x = str(rng.randrange(nv))
    k = rng.randrange(8)
    base = [["a", "id", a], ["b", "id", b], ["c", "id", c]]
    if k == 0:   # De Morgan
        two = [["l", "named", "and", "$a", "$b"], ["na", "not", "$a"], ["nb", "not", "$b"], ["o", "named", "or", "$na", "$nb"], ["r", "not", "$o"]]
    elif k == 1:  # distributivity
        two = [["bc", "named", "or", "$b", "$c"], ["l", "named", "and", "$a", "$bc"], ["ab", "named", "and", "$a", "$b"],
               ["ac", "named", "and", "$a", "$c"], ["r", "named", "or", "$ab", "$ac"]]
    elif k == 2:  # exists via restrictions
        two = [["l", "var_exists", "$a", x], ["r0", "var_restrict", "$a", x, "F"], ["r1", "var_restrict", "$a", x, "T"], ["r", "named", "or", "$r0", "$r1"]]
    elif k == 3:  # ite via and/or
        two = [["l", "ite", "$a", "$b", "$c"], ["ab", "named", "and", "$a", "$b"], ["nac", "named", "and_not", "$c", "$a"], ["r", "named", "or", "$ab", "$nac"]]
    elif k == 4:  # xor = not iff
        two = [["l", "named", "xor", "$a", "$b"], ["i", "named", "iff", "$a", "$b"], ["r", "not", "$i"]]
    elif k == 5:  # select = and literal
        two = [["l", "var_select", "$a", x, "T"], ["lit", "mk_var", str(nv), x], ["r", "named", "and", "$a", "$lit"]]
    elif k == 6:  # restrict twice in different order
        y = str(rng.randrange(nv))
        two = [["l", "restrict", "$a", ["L", ["P", x, "T"], ["P", y, "F"]]], ["m", "var_restrict", "$a", y, "F"] if y != x else ["m", "id", "$a"],
               ["r", "var_restrict", "$m", x, "T" if x != y else "F"]]
    else:        # dnf round trip
        two = [["l", "id", "$a"], ["d", "to_dnf", "$a"], ["r", "mk_dnf", str(nv), "$d"]]
    tail = [["same", "eq", "$l", "$r"], ["hl", "hash", "$l"], ["hr", "hash", "$r"], ["sl", "to_string", "$l"], ["sr", "to_string", "$r"],
            ["bl", "to_bytes", "$l"], ["br", "to_bytes", "$r"], ["cs", "cmp_structural", "$l", "$r"]]
    return base + two + tail


def programs(rng, tier):
    progs = []
    nh = 250 if tier == "quick" else 6000
    for _ in range(nh):
        nv = rng.choice([0, 1, 2, 3, 3, 4, 4, 5, 6, 8])
        progs.append(history(rng, nv, rng.randrange(4, 31)))
    for _ in range(300 if tier == "quick" else 8000):
        progs.append(identities(rng, rng.choice([2, 3, 4, 5, 6])))
    # merely valid operands: the logical operators must canonicalise
    P = Prog()
    for _ in range(400 if tier == "quick" else 10000):
        nv = rng.choice([3, 4, 5, 6])
        a = noncanonical_variant(rng, random_bdd(rng, nv))
        b = noncanonical_variant(rng, random_bdd(rng, nv)) if rng.random() < 0.5 else random_bdd(rng, nv)
        k = rng.random()
        if k < 0.25:
            P.add(["named", "and", bdd_sx(a), bdd_sx(mk_true_nodes(nv))])
        elif k < 0.4:
            # idempotent combinations of a non-canonical operand with itself (one object in the harness) or an equal copy
            P.add(["named", rng.choice(["and", "or", "and", "or", "iff", "imp", "xor", "and_not"]), bdd_sx(a), bdd_sx(a)])
        elif k < 0.5:
            # quantification that has nothing to do: an empty list, variables outside the support, all variables
            sup = {n[0] for n in a[2:]}
            outside = [x for x in range(nv) if x not in sup]
            xs = rng.choice([[], outside, rng.sample(outside, min(len(outside), 1)), list(range(nv))])
            P.add([rng.choice(["exists", "for_all"]), bdd_sx(a), ["L"] + [str(x) for x in xs]])
        elif k < 0.55:
            sup = {n[0] for n in a[2:]} | {n[0] for n in b[2:]}
            outside = [x for x in range(nv) if x not in sup]
            P.add([rng.choice(["bin_exists", "bin_for_all"]), partial_table(rng, rng.choice(CONNS)), bdd_sx(a), bdd_sx(b), ["L"] + [str(x) for x in rng.choice([[], outside])]])
        elif k < 0.7:
            P.add(["bin", partial_table(rng, rng.choice(CONNS)), bdd_sx(a), bdd_sx(b)])
        elif k < 0.85:
            P.add(["tern", partial_table3(rng, tuple(rng.random() < 0.5 for _ in range(8))), bdd_sx(a), bdd_sx(b), bdd_sx(a)])
        else:
            P.add(["bin_exists", partial_table(rng, rng.choice(CONNS)), bdd_sx(a), bdd_sx(b), ["L"] + [str(x) for x in range(nv) if rng.random() < 0.4]])
    # dedicated families for producers whose defects need particular shapes
    for _ in range(500 if tier == "quick" else 12000):
        nv = rng.choice([4, 5, 6, 7, 8])
        a, b, c = (random_bdd(rng, nv, max_support=min(nv, 6)) for _ in range(3))
        k = rng.random()
        if k < 0.45:
            # restriction on two or more variables, in the middle of the ordering
            xs = rng.sample(range(nv), rng.randrange(2, min(nv, 4) + 1))
            P.add(["restrict", bdd_sx(a), ["L"] + [["P", str(x), rng.choice("TF")] for x in xs]])
        elif k < 0.8:
            fl = [optvar(rand_optvar(rng, nv, 0.4)) for _ in range(3)] + [optvar(rand_optvar(rng, nv, 0.1))]
            P.add(["ftern", partial_table3(rng, tuple(rng.random() < 0.5 for _ in range(8)))] + fl + [bdd_sx(a), bdd_sx(b), bdd_sx(c)])
        else:
            fl = [optvar(rand_optvar(rng, nv, 0.4)) for _ in range(2)] + [optvar(rand_optvar(rng, nv, 0.1))]
            P.add(["fbin", partial_table(rng, rng.choice(CONNS))] + fl + [bdd_sx(a), bdd_sx(b)])
            # the size-limited twin with a generous limit and an OUTPUT flip: the same canonical array is demanded
            fl2 = [optvar(rand_optvar(rng, nv, 0.5)) for _ in range(2)] + [optvar(rng.randrange(nv))]
            P.add(["fbinlim", str(rng.choice([200, 1000, 100000])), partial_table(rng, rng.choice(CONNS))] + fl2 + [bdd_sx(a), bdd_sx(b)])
    # transfer between variable sets: shared / missing / reordered names
    alphabet = ["a", "b", "c", "d", "e", "f", "z"]
    for _ in range(300 if tier == "quick" else 8000):
        nv = rng.choice([2, 3, 4, 5])
        src = rng.sample(alphabet, nv)
        a = random_bdd(rng, nv, max_support=nv)
        k = rng.random()
        dst = list(src)
        if k < 0.3:
            i = rng.randrange(nv - 1)
            dst[i], dst[i + 1] = dst[i + 1], dst[i]
        elif k < 0.5:
            dst[rng.randrange(nv)] = "q"
        elif k < 0.7:
            dst.insert(rng.randrange(nv + 1), "q")
        elif k < 0.8:
            rng.shuffle(dst)
        P.add(["transfer", bdd_sx(a), ["L"] + [hexs(n) for n in src], ["L"] + [hexs(n) for n in dst]])
    return progs + P.progs


def mk_true_nodes(nv):
    return [(nv, 0, 0), (nv, 1, 1)]


_pairs = {}


def judge(st, V):
    cid, call, impl, model, aux = st
    V.evaluations += 1
    V.count("op:" + call[0])
    if impl == "SKIP":
        V.skipped += 1
        return
    op = call[0]
    if op in ("eq", "cmp_structural"):
        want = "T" if op == "eq" else "EQ"
        if impl != want:
            V.violations.append(violation(PID, st, "two histories computing the same function give Bdds that are not ==", confirmed=True,
                                          oracle={"left": sx_str(call[1]), "right": sx_str(call[2]),
                                                  "same_truth_table": same_tt(call[1], call[2])}, relation="== on equal functions"))
        else:
            V.nontrivial.add(key_of(call))
        return
    if op in ("is_false", "is_true"):
        nodes = bdd_nodes(call[1])
        if is_wf(nodes) and nodes[0][0] <= 10:
            tt = raw_tt(nodes)
            want = (not any(tt)) if op == "is_false" else all(tt)
            if (impl == "T") != want:
                V.violations.append(violation(PID, st, "%s is not exact" % op, confirmed=True, oracle={"truth_table": tt_str(tt)}, relation="exact"))
        return
    rb = unwrap_bdd(impl)
    if rb is None:
        return
    operands = [bdd_nodes(x) for x in call[1:] if is_bdd(x)]
    if not all(is_wf(o) for o in operands):
        V.skipped += 1
        return
    all_canon = all(is_canonical(o)[0] for o in operands)
    if not all_canon and op not in CANONICALISING:
        V.skipped += 1
        return
    if op in ("to_nodes", "id"):
        return
    nodes = bdd_nodes(rb)
    sample(V, st)
    ok_py, why = is_canonical(nodes)
    if isinstance(aux, list) and aux and aux[0] == "BIG":
        aux = ["T", "T" if ok_py else "F", rb, rb]   # too large for the driver's list-based checker: the independent scan decides
    ok_model = isinstance(aux, list) and aux[1] == "T"
    if isinstance(aux, list) and aux[1] == "T" and aux[2] != rb:
        raise RuntimeError("canonicalb accepted an array that differs from the proved canonicaliser's output: %s" % sx_str(rb))
    if ok_py != ok_model:
        raise RuntimeError("independent canonicity scan and extracted canonicalb disagree on %s" % sx_str(rb))
    if not ok_model:
        V.violations.append(violation(PID, st, "produced Bdd is not in canonical form: %s" % why, confirmed=True,
                                      oracle={"result": sx_str(rb), "canonical_form_of_same_function": sx_str(aux[2]) if isinstance(aux, list) else None,
                                              "problem": why}, relation="canonicalb(impl result) = true"))
        return
    if len(nodes) >= 3 and any(len(o) >= 3 for o in operands):
        V.nontrivial.add(key_of(call))


def same_tt(x, y):
    try:
        a, b = bdd_nodes(x), bdd_nodes(y)
        if a[0][0] != b[0][0] or a[0][0] > 10:
            return None
        return raw_tt(a) == raw_tt(b)
    except Exception:
        return None


def finalize(steps, V):
    """pairs inside each identity program: hash stream, text, bytes must coincide"""
    by = {}
    for cid, call, impl, model, aux in steps:
        if call[0] in ("hash", "to_string", "to_bytes") and impl not in ("SKIP", "PANIC"):
            by.setdefault((call[0], sx_str(call[1])), set()).add(sx_str(impl))
    # equal arrays trivially give equal observations; check the converse direction on canonical forms
    groups = {}
    for cid, call, impl, model, aux in steps:
        if call[0] in ("hash", "to_string", "to_bytes") and impl not in ("SKIP", "PANIC") and is_bdd(call[1]):
            nodes = bdd_nodes(call[1])
            if is_wf(nodes) and nodes[0][0] <= 10:
                groups.setdefault((call[0], nodes[0][0], raw_tt(nodes)), set()).add(sx_str(impl))
    for (op, nv, tt), vals in groups.items():
        if len(vals) > 1:
            V.violations.append({"property": PID, "key": "obs-" + op, "program": [], "reason": "Bdds of one function differ under " + op,
                                 "oracle": {"truth_table": tt_str(tt), "observations": sorted(vals)[:4]}, "confirmed": True})
