"""C07 — substitution equals syntactic replacement of a variable by a function."""
from common import *
from props.base import *

PID = "C07"
RULE = ("f.substitute(x, g): every (f, g, x) over <=2 variables, sampled over 3 variables (all 256x256x3 in the thorough tier), random f, g over "
        "4..7 variables with x inside/outside either support and variables of g above/below x that f does not mention; few-node f, g over "
        "300..65535 variables (the proxy-variable path extends the variable count by one: every count below the maximum must work, 65535 must panic). "
        "relation: canon(impl)=canon(model), the model being the step-faithful model of the library's own algorithm (clone / safe / proxy-variable paths), "
        "cross-checked on every step against the compositional (g /\\ f[x:=1]) \\/ (~g /\\ f[x:=0]) (proved equal); a panic on operands over the same variable "
        "count is a violation. non-trivial = x in support(f), g non-constant; distinct by sha256 of the step")


def programs(rng, tier):
    P = Prog()
    for nv in (1, 2):
        fs = all_functions(nv)
        for f in fs:
            for g in fs:
                for x in range(nv):
                    P.add(["substitute", bdd_sx(f), str(x), bdd_sx(g)])
    fs3 = all_functions(3)
    n3 = 3000 if tier == "quick" else 196608
    if tier == "thorough":
        for f in fs3:
            for g in fs3:
                for x in range(3):
                    P.add(["substitute", bdd_sx(f), str(x), bdd_sx(g)])
    else:
        for _ in range(n3):
            P.add(["substitute", bdd_sx(rng.choice(fs3)), str(rng.randrange(3)), bdd_sx(rng.choice(fs3))])
    nrand = 1500 if tier == "quick" else 30000
    for _ in range(nrand):
        nv = rng.choice([4, 4, 5, 6, 7])
        f = rand_operand(rng, nv, 0.1, max_support=4)
        g = rand_operand(rng, nv, 0.1, max_support=4)
        sup = sorted({n[0] for n in f[2:]})
        x = rng.choice(sup) if sup and rng.random() < 0.8 else rng.randrange(nv)
        P.add(["substitute", bdd_sx(f), str(x), bdd_sx(g)])
    # many variables, up to the documented limit: few-node f and g over 300..65535 variables, g depending on x and on variables
    # above / below it that f does not mention (the proxy-variable path shifts variables and extends the count by one: it must
    # work for every count below the maximum and panic exactly at it)
    for _ in range(40 if tier == "quick" else 800):
        nv = rng.choice([300, 1000, 65000, 65532, 65533, 65534, 65534, 65535])
        sup_f = sorted(rng.sample(range(nv), rng.randrange(1, 4)) + ([nv - 1] if rng.random() < 0.3 else []))
        sup_f = sorted(set(sup_f))
        x = rng.choice(sup_f)
        extra = [rng.randrange(nv) for _ in range(rng.randrange(0, 3))] + ([0] if rng.random() < 0.3 else []) + ([nv - 1] if rng.random() < 0.3 else [])
        sup_g = sorted(set(([x] if rng.random() < 0.8 else []) + extra))[:4] or [x]
        f = bdd_from_tt(nv, sup_f, [rng.random() < 0.5 for _ in range(1 << len(sup_f))])
        g = bdd_from_tt(nv, sup_g, [rng.random() < 0.5 for _ in range(1 << len(sup_g))])
        P.add(["substitute", bdd_sx(f), str(x), bdd_sx(g)])
    return P.progs


def judge(st, V):
    cid, call, impl, model, aux = st
    judge_semantic(PID, st, V, min_result_nodes=1)
    k = key_of(call)
    if k in V.nontrivial:
        f = bdd_nodes(call[1])
        if int(call[2]) not in {n[0] for n in f[2:]}:
            V.nontrivial.discard(k)
