"""C07 — substitution equals syntactic replacement of a variable by a function."""
from common import *
from props.base import *

PID = "C07"
RULE = ("f.substitute(x, g): every (f, g, x) over <=2 variables, sampled over 3 variables (all 256x256x3 in the thorough tier), random f, g over "
        "4..7 variables with x inside/outside either support and variables of g above/below x that f does not mention. "
        "relation: canon(impl)=canon(model), the model being the step-faithful model of the library's own algorithm (clone / safe / proxy-variable paths), "
        "cross-checked on every step against the compositional (g /\\ f[x:=1]) \\/ (~g /\\ f[x:=0]) (proved equal); a panic on operands over the same variable "
        "count is a violation. non-trivial = x in support(f), g non-constant; distinct by sha256 of the step")


def programs(rng, tier):
    P = Prog()
    for nv in (1, 2):
        fs = all_functions(nv)
        for f in fs:
            for g in fs:
                for x in range(nv):
                    P.add(["substitute", bdd_sx(f), str(x), bdd_sx(g)])
    fs3 = all_functions(3)
    n3 = 3000 if tier == "quick" else 196608
    if tier == "thorough":
        for f in fs3:
            for g in fs3:
                for x in range(3):
                    P.add(["substitute", bdd_sx(f), str(x), bdd_sx(g)])
    else:
        for _ in range(n3):
            P.add(["substitute", bdd_sx(rng.choice(fs3)), str(rng.randrange(3)), bdd_sx(rng.choice(fs3))])
    nrand = 1500 if tier == "quick" else 30000
    for _ in range(nrand):
        nv = rng.choice([4, 4, 5, 6, 7])
        f = rand_operand(rng, nv, 0.1, max_support=4)
        g = rand_operand(rng, nv, 0.1, max_support=4)
        sup = sorted({n[0] for n in f[2:]})
        x = rng.choice(sup) if sup and rng.random() < 0.8 else rng.randrange(nv)
        P.add(["substitute", bdd_sx(f), str(x), bdd_sx(g)])
    return P.progs


def judge(st, V):
    cid, call, impl, model, aux = st
    judge_semantic(PID, st, V, min_result_nodes=1)
    k = key_of(call)
    if k in V.nontrivial:
        f = bdd_nodes(call[1])
        if int(call[2]) not in {n[0] for n in f[2:]}:
            V.nontrivial.discard(k)
