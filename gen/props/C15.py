"""C15 — expressions, the bdd! macro and the Bdd-to-expression export denote the same function."""
from common import *
from props.base import *
from props import exprlib as X

PID = "C15"
RULE = ("eval_expr / safe_eval_expr on random expression trees (depth <=5, all connectives incl. cond and constants) over 1..6 declared "
        "names (ASCII and unicode), with a stream in which some variable is NOT declared (safe: None; eval: panic); eval_expression_string on "
        "printed trees (minimal/redundant parentheses, odd whitespace), with undeclared names and with corrupted text (panic), judged through the "
        "independent reference parser; to_expr on EVERY "
        "function of <=3 variables, random canonical diagrams over 4..8 variables (skipped levels), non-canonical valid arrays, and name "
        "lists that are too short (index panic); programs to_expr -> eval_expr -> eq and to_expr -> show -> parse -> eval_expr -> eq "
        "through the implementation for parser-safe names; bdd!: every macro rule (6 operators x {plain, parenthesised, with variable set "
        "over Bdd / &Bdd / BddVariable / string-literal operands} and nested forms) against its method chain inside the harness, plus the "
        "macro result against the model's symbol->operator table. relations: eval: canon(impl)=canon(model) and None/PANIC shapes equal; "
        "export: tree identical to the model's (a differently shaped but equivalent tree is accepted if the independent evaluator agrees "
        "with the diagram's truth table, and counted); eq steps must be T; macro_eq must be T. oracle: pointwise evaluation of the tree in "
        "Python vs the truth table of the raw node array. non-trivial = tree with >=3 nodes and diagram with >=3 nodes (distinct steps)")
CROSSCHECK = False   # see finalize: eval_expr / to_expr steps are re-evaluated with vm_compute in coqc
EXHAUSTIVE = {"quick": True, "thorough": True}   # export + both round trips on every function of <=3 variables
FORMS = ["not", "and", "or", "xor", "imp", "iff", "p_not", "p_and", "p_or", "p_ident", "n_1", "n_2", "n_3",
         "v_not", "v_and", "v_or", "v_xor", "v_imp", "v_iff", "v_n_1"]
VFORMS = ["var_ident", "var_not", "var_and", "var_or", "var_xor", "var_imp", "var_iff", "var_n_1",
          "lit_ident", "lit_not", "lit_and", "lit_or", "lit_xor", "lit_imp", "lit_iff", "mix_1"]


def names_sx(names):
    return ["L"] + [hexs(n) for n in names]


def rand_names(rng, nv):
    if rng.random() < 0.5:
        return ["x_%d" % i for i in range(nv)]
    out = []
    while len(out) < nv:
        n = X.rand_name(rng)
        if n not in out:
            out.append(n)
    return out


def programs(rng, tier):
    P = Prog()
    # ---- evaluation of trees
    n_eval = 4000 if tier == "quick" else 60000
    for _ in range(n_eval):
        nv = rng.choice([1, 2, 3, 3, 4, 5, 6])
        names = rand_names(rng, nv)
        e = X.rand_tree(rng, rng.choice([0, 1, 2, 3, 4, 5]), names, pconst=0.12)
        P.add([rng.choice(["eval_expr", "eval_expr", "safe_eval_expr"]), names_sx(names), e])
    for _ in range(600 if tier == "quick" else 10000):
        nv = rng.choice([0, 1, 2, 3, 4])
        names = rand_names(rng, nv)
        # one undeclared name; when the set has custom names, the anonymous-style names x_<i> (also with i < nv) are undeclared too
        undeclared = [u for u in ["y", "x_9", "X_0", "x_0 ", "", "true", "x_0", "x_1", "x_2", "x_%d" % max(0, nv - 1)] if u not in names]
        pool = names + [rng.choice(undeclared)]
        e = X.rand_tree(rng, rng.choice([0, 1, 2, 3]), pool, pconst=0.1)
        P.add([rng.choice(["safe_eval_expr", "safe_eval_expr", "eval_expr"]), names_sx(names), e])
    # ---- eval_expression_string: printed trees (minimal / redundant parentheses, odd whitespace), undeclared names, broken text
    for _ in range(1200 if tier == "quick" else 20000):
        nv = rng.choice([1, 2, 3, 3, 4, 5, 6])
        names = rand_names(rng, nv)
        k = rng.random()
        pool = names if k < 0.85 else names + ["zz_undeclared"]
        e = X.rand_tree(rng, rng.choice([0, 1, 2, 3, 4, 5]), pool, pconst=0.12)
        s = X.loose_print(rng, e, pextra=rng.choice([0.0, 0.1, 0.3]))
        if k > 0.93:
            s = X.mutate(rng, s)
        P.add(["eval_expr_string", names_sx(names), hexs(s)])
    # ---- export: all functions of <=3 variables (the five node shapes), each also through the round-trip programs
    def family(b, names):
        return [["b", "id", bdd_sx(b)], ["e", "to_expr", "$b", names_sx(names)],
                ["r", "eval_expr", names_sx(names), "$e"], ["q", "eq", "$r", "$b"],
                ["s", "show", "$e"], ["p", "parse", "$s"], ["r2", "eval_expr", names_sx(names), "$p"], ["q2", "eq", "$r2", "$b"]]

    for nv in (0, 1, 2, 3):
        for b in all_functions(nv):
            P.add_prog(family(b, ["x_%d" % i for i in range(nv)]))
            if tier == "thorough" or rng.random() < 0.3:
                P.add_prog(family(b, rand_names(rng, nv)))
    for _ in range(800 if tier == "quick" else 12000):
        nv = rng.choice([4, 4, 5, 6, 8])
        b = random_bdd(rng, nv, max_support=min(nv, 6))
        P.add_prog(family(b, rand_names(rng, nv)))
    for _ in range(20 if tier == "quick" else 300):
        nv = rng.choice([10, 12, 16])
        b = random_bdd(rng, nv, max_support=8)
        P.add_prog(family(b, rand_names(rng, nv)))
    # non-canonical valid arrays and too-short name lists: export alone
    for _ in range(300 if tier == "quick" else 6000):
        nv = rng.choice([2, 3, 4, 5])
        b = rand_operand(rng, nv, noncanon=0.7)
        names = rand_names(rng, nv)
        if rng.random() < 0.15:
            names = names[:rng.randrange(0, nv)]
        P.add(["to_expr", bdd_sx(b), names_sx(names)])
    # ---- bdd! macro
    for _ in range(300 if tier == "quick" else 6000):
        nv = rng.choice([1, 2, 3, 4, 5])
        a, b = random_bdd(rng, nv), random_bdd(rng, nv)
        sym = rng.choice(["not", "and", "or", "xor", "imp", "iff"])
        P.add(["macro", sym, bdd_sx(a)] + ([] if sym == "not" else [bdd_sx(b)]))
    for form in FORMS:
        for _ in range(12 if tier == "quick" else 200):
            nv = rng.choice([1, 2, 3, 4, 5])
            P.add(["macro_eq", form, bdd_sx(random_bdd(rng, nv)), bdd_sx(random_bdd(rng, nv))])
    for form in VFORMS:
        for nv in (2, 3, 5):
            for i in range(nv):
                for j in range(nv):
                    P.add(["macro_vars_eq", form, str(nv), str(i), str(j)])
    return P.progs


def names_of(x):
    return [unhex(h).decode("utf-8") for h in x[1:]]


def tt_of_tree(e, names):
    try:
        return X.expr_tt(e, names)
    except KeyError:
        return None


def judge(st, V):
    cid, call, impl, model, aux = st
    op = call[0]
    if op == "id":
        return
    V.evaluations += 1
    V.count("op:" + op)
    if impl == "SKIP" or model == "SKIP" or not operands_wf(call):
        V.skipped += 1
        return
    machinery_guard(st)
    V.count("outcome:%s:%s" % (op, ("text" if impl.startswith("h:") else impl) if isinstance(impl, str) else impl[0]))
    if op in ("eval_expr", "safe_eval_expr", "eval_expr_string"):
        names, e = names_of(call[1]), call[2]
        if op == "eval_expr_string":
            # eval_expression_string = try_from(text).unwrap() then eval_expression: the independent reference parser supplies the tree
            text = unhex(call[2]).decode("utf-8")
            ref = X.ref_parse(text)
            if ref == "ERR?":
                V.skipped += 1
                return
            if ref == "ERR":
                if impl != "PANIC" or model != "PANIC":
                    V.violations.append(violation(PID, st, "eval_expression_string on a string outside the grammar must panic (unwrap of the parse error)",
                                                  oracle={"input": text, "reference_parser": "ERR"}, confirmed=(impl != "PANIC"), relation="PANIC"))
                else:
                    V.count("eval_string:unparsable")
                return
            e = ref[1]
        sample(V, st)
        known = X.expr_vars(e) <= set(names)
        if not semantic_agree(impl, model, aux):
            desc, conf = {"expected": "unknown variable" if not known else None}, False
            if known and len(names) <= 10 and unwrap_bdd(impl) is not None:
                want, got = X.expr_tt(e, names), raw_tt(bdd_nodes(unwrap_bdd(impl)), len(names))
                desc = {"expected_truth_table": tt_str(want), "observed_truth_table": tt_str(got)}
                bad = [i for i in range(len(want)) if want[i] != got[i]]
                conf = bool(bad) or bdd_nodes(unwrap_bdd(impl))[0][0] != len(names)
                if bad:
                    desc["failing_valuation"] = vbits(val_of_index(bad[0], len(names)))
            elif not known:
                conf = impl != ("N" if op == "safe_eval_expr" else "PANIC")
            else:
                conf = impl in ("N", "PANIC")
            V.violations.append(violation(PID, st, "evaluation of the expression tree disagrees with the model", oracle=desc, confirmed=conf,
                                          relation="canon(impl)=canon(model); None/PANIC iff a variable is undeclared"))
            return
        # the None clause, independently of the model
        if op == "safe_eval_expr" and (impl == "N") != (not known):
            V.violations.append(violation(PID, st, "safe_eval_expression returns None exactly when a variable name is unknown",
                                          oracle={"undeclared": sorted(X.expr_vars(e) - set(names))}, confirmed=True, relation="None iff unknown variable"))
            return
        rb = unwrap_bdd(impl)
        if rb is not None and X.expr_size(e) >= 3 and len(bdd_nodes(rb)) >= 3:
            V.nontrivial.add(key_of(call))
        return
    if op == "to_expr":
        b, names = bdd_nodes(call[1]), names_of(call[2])
        sample(V, st)
        V.count("export:nodes:%s" % ("1-2" if len(b) < 3 else "3-6" if len(b) < 7 else "7-20" if len(b) < 21 else "21+"))
        if impl == model:
            if impl != "PANIC" and len(b) >= 3:
                V.nontrivial.add(key_of(call))
            return
        conf, desc = False, {"model_tree": sx_str(model)[:400]}
        nv = b[0][0]
        if impl == "PANIC":
            conf = model != "PANIC"
        elif isinstance(impl, list) and len(names) >= nv:
            use = names[:nv]
            try:
                if nv <= 10:
                    vals = [val_of_index(i, nv) for i in range(1 << nv)]
                else:   # no full truth table: a deterministic sample of valuations
                    r2 = random.Random(int(key_of(call), 16))
                    vals = [[r2.random() < 0.5 for _ in range(nv)] for _ in range(3000)]
                bad = [v for v in vals if X.expr_eval(impl, dict(zip(use, v))) != raw_eval(b, v)]
            except KeyError:
                bad, desc["undeclared_variable_in_exported_tree"] = None, True
                conf = True
            if bad is not None and not bad and nv <= 10 and isinstance(model, list):
                V.count("export:shape-differs-from-model")
                V.notes.append("to_expr returned an equivalent tree of a different shape than the model: %s" % sx_str(call)[:200])
                return
            if bad:
                conf = True
                desc["failing_valuation"] = vbits(bad[0])
                desc["diagram_value"] = raw_eval(b, bad[0])
        V.violations.append(violation(PID, st, "exported expression differs from the model and does not denote the diagram's function",
                                      oracle=desc, confirmed=conf, relation="tree exact, or equivalent by the independent evaluator"))
        return
    if op in ("show", "parse"):
        if impl != model:
            V.violations.append(violation(PID, st, "printing/parsing inside the export round trip differs from the model", confirmed=(impl == "PANIC"),
                                          relation="exact (C14)"))
        return
    if op == "eq":
        a, b = call[1], call[2]
        if not (is_bdd(a) and is_bdd(b)):
            V.skipped += 1
            return
        canonical, _ = is_canonical(bdd_nodes(b))
        if canonical and impl != "T":
            ta, tb = raw_tt(bdd_nodes(a)) if bdd_nodes(a)[0][0] <= 10 else None, raw_tt(bdd_nodes(b)) if bdd_nodes(b)[0][0] <= 10 else None
            V.violations.append(violation(PID, st, "evaluating the exported expression does not return a Bdd equal to the original",
                                          oracle={"roundtrip_truth_table": tt_str(ta) if ta else None, "original_truth_table": tt_str(tb) if tb else None},
                                          confirmed=True, relation="eval_expression(to_boolean_expression(b)) == b"))
            return
        if len(bdd_nodes(b)) >= 3:
            V.nontrivial.add(key_of(call))
        return
    if op == "macro":
        judge_semantic(PID, st, V, relation="bdd!(a OP b) = a.OP(b): canon(impl)=canon(model)", min_result_nodes=1)
        V.evaluations -= 1
        V.count("op:macro", -1)
        return
    if op in ("macro_eq", "macro_vars_eq"):
        V.count("macro_form:" + call[1])
        if impl != "T":
            V.violations.append(violation(PID, st, "a bdd! form differs from the corresponding method chain", confirmed=True,
                                          oracle={"form": call[1]}, relation="macro form == method chain"))
            return
        V.nontrivial.add(key_of(call))
        return


_cross = {"cases": 0, "agree": 0}


def finalize(steps, V):
    """re-validates the extracted model against kernel evaluation (vm_compute in coqc) on a sample of eval_expr and to_expr steps"""
    import tempfile
    ev = [s for s in steps if s[1][0] == "eval_expr" and is_bdd(s[3]) and X.expr_size(s[1][2]) >= 3][:20]
    ex = [s for s in steps if s[1][0] == "to_expr" and isinstance(s[3], list) and len(bdd_nodes(s[1][1])) >= 3][:20]
    if not ev and not ex:
        return
    terms = []
    for s in ev:
        names = "[" + "; ".join(X.coq_str(n) for n in names_of(s[1][1])) + "]"
        terms.append("match eval_expr %s %s with Ok r => flat_map (fun n => [nvar n; nlow n; nhigh n]) r | _ => [] end" % (names, X.coq_expr(s[1][2])))
    for s in ex:
        names = "[" + "; ".join(X.coq_str(n) for n in names_of(s[1][2])) + "]"
        b = "[" + "; ".join("mkNode %d %d %d" % nd for nd in bdd_nodes(s[1][1])) + "]"
        terms.append("match to_expr %s %s with Ok e => show e | _ => [] end" % (names, b))
    with tempfile.TemporaryDirectory() as d:
        got = X.vm_eval(d, terms, "c15")
    want = [[x for nd in bdd_nodes(s[3]) for x in nd] for s in ev] + [[ord(c) for c in X.ref_show(s[3])] for s in ex]
    agree = sum(1 for g, w in zip(got, want) if g == w)
    _cross.update(cases=len(want), agree=agree)
    if agree != len(want) or len(got) != len(want):
        raise RuntimeError("extracted model disagrees with vm_compute on %d of %d sampled steps" % (len(want) - agree, len(want)))


def extra(V):
    return {"vm_compute_crosscheck": dict(_cross)}
