"""C13 — deserialisers and validate() are safe on arbitrary input."""
import re

from common import *
from props.base import *
from props.serial_oracle import *

PID = "C13"
RULE = ("malformed stream: ALL strings of length <=L over the alphabet {'|' ',' '0' '1' '7' '+' ' '} (L=5 quick, 6 thorough); grammar-generated "
        "texts with 0..5 fields per record and fields drawn from {empty, digits, signs, leading zeros, 2^16 and 2^32 +-1, 20-digit numbers, "
        "ASCII / Unicode White_Space, non-whitespace non-ASCII characters, fullwidth digits}, doubled / missing separators, invalid UTF-8, "
        "byte-level point mutations of valid texts, random bytes; byte strings of every length 0..45 and mutated encodings for read_bytes (plain and under "
        "random schedules); node arrays: ALL three-node arrays over a small field range, valid diagrams with point mutations (self-loops, "
        "equal-variable edges, wrong terminal variables, out-of-range links, unreachable nodes, cycles). relation: outcome class exact "
        "(OK value / ERR / PANIC) against the Coq model and an independent Python re-implementation; every value accepted by from_nodes, and every "
        "value read from text on which validate() says Ok, is additionally evaluated in the same program (tt = all valuations, nv<=10; exact_card; "
        "`and` with itself) and checked against the raw evaluator with a step budget (termination), popcount, and no panic; accepted normally "
        "formatted text must re-serialise to itself. non-trivial = input that is not accepted as-is from the serialiser (rejected, or accepted "
        "after normalisation), distinct by (op, input)")
EXHAUSTIVE = {"quick": False, "thorough": False}

BOUNDARY = ["0", "1", "9", "10", "255", "256", "65534", "65535", "65536", "65537", "4294967294", "4294967295", "4294967296", "4294967297",
            "18446744073709551615", "18446744073709551616", "99999999999999999999", "00", "007", "000000000000000000000003", "+1", "+0", "+", "-", "-1",
            "-0", "++1", "+-1", "1+", "", "", " ", "1 2", "0x10", "1e3", "1.0", "\uff11", "\u0663", "1 ", " 1", "1\u200b", "\u2060", "\u180e2", "\ufeff1",
            "1\u00a0", "\u20282", "\u30003", "1\u0085", "a", "1_0"]
SEPS = ["|", "|", "|", "||", "", " | ", "\n|", "|\t", "|\u3000", " |", "\u2003|"]


def rand_field(rng, small_nodes):
    k = rng.random()
    if k < 0.45:
        return str(rng.randrange(small_nodes + 2))
    if k < 0.9:
        return rng.choice(BOUNDARY)
    return "".join(rng.choice("0123456789+- ,|x") for _ in range(rng.randint(0, 6)))


def rand_text(rng):
    nrec = rng.choice([0, 1, 1, 2, 3, 5])
    out = [rng.choice(SEPS)]
    for _ in range(nrec):
        nf = rng.choice([0, 1, 2, 3, 3, 3, 3, 4, 5])
        fields = [rand_field(rng, nrec) for _ in range(nf)]
        out.append(rng.choice([",", ",", ",", " ,", ", ", ", "]).join(fields) if rng.random() < 0.3 else ",".join(fields))
        out.append(rng.choice(SEPS))
    return "".join(out).encode("utf-8")


INVALID_UTF8 = [b"\xff", b"\xc0\x80", b"\xc1\xbf", b"\xe0\x80\x80", b"\xe0\x9f\xbf", b"\xed\xa0\x80", b"\xed\xbf\xbf", b"\xf0\x80\x80\x80", b"\xf0\x8f\xbf\xbf",
                b"\xf4\x90\x80\x80", b"\xf5\x80\x80\x80", b"\x80", b"\xbf", b"\xc2", b"\xe2\x80", b"\xf0\x9f\x98", b"\xc2\x20", b"\xe2\x28\xa1", b"\xfe"]
VALID_EDGE_UTF8 = [b"\xc2\x80", b"\xc2\x85", b"\xc2\xa0", b"\xdf\xbf", b"\xe0\xa0\x80", b"\xe1\x9a\x80", b"\xed\x9f\xbf", b"\xee\x80\x80", b"\xef\xbf\xbf",
                   b"\xf0\x90\x80\x80", b"\xf4\x8f\xbf\xbf", b"\xe2\x80\x80", b"\xe2\x80\x8a", b"\xe2\x80\x8b", b"\xe2\x80\xa8", b"\xe2\x80\xaf", b"\xe2\x81\x9f", b"\xe3\x80\x80"]


def mutate_bytes(rng, data):
    data = bytearray(data)
    for _ in range(rng.randint(1, 3)):
        k = rng.random()
        pos = rng.randint(0, len(data))
        if k < 0.3 and data:
            data[min(pos, len(data) - 1)] = rng.randrange(256)
        elif k < 0.5:
            data[pos:pos] = rng.choice(INVALID_UTF8 + VALID_EDGE_UTF8)
        elif k < 0.7 and data:
            del data[min(pos, len(data) - 1)]
        elif k < 0.85:
            data[pos:pos] = rng.choice([b"|", b",", b"+", b" ", b"0", b"9", b"\n"])
        else:
            data = data[:pos]
    return bytes(data)


def mutate_nodes(rng, nodes):
    nodes = [list(nd) for nd in nodes]
    n = len(nodes)
    nv = nodes[0][0] if nodes else 0
    for _ in range(rng.randint(1, 2)):
        if not nodes:
            break
        p = rng.randrange(n)
        k = rng.random()
        if k < 0.15:
            nodes[p][rng.choice([1, 2])] = p                         # self-loop
        elif k < 0.3:
            c = nodes[p][rng.choice([1, 2])]
            if c < n:
                nodes[p][0] = nodes[c][0]                            # equal-variable edge
        elif k < 0.45:
            nodes[rng.choice([0, min(1, n - 1)])][0] = rng.choice([nv + 1, max(nv - 1, 0), 100, 65535])   # terminal variable
        elif k < 0.6:
            nodes[p][rng.choice([1, 2])] = rng.choice([n, n + 1, 65536, 4294967295])      # out-of-range link
        elif k < 0.7:
            nodes[p][0] = rng.choice([nv, nv + 1, 65535])            # variable out of range
        elif k < 0.8:
            nodes.insert(max(2, n - 1), [rng.randrange(max(nv, 1)), 0, 1])   # unreachable node (links of later nodes may shift)
            n += 1
        elif k < 0.9:
            nodes[p][rng.choice([1, 2])] = rng.randrange(n)          # arbitrary in-range link (cycles, order violations)
        else:
            nodes[rng.choice([0, min(1, n - 1)])][rng.choice([1, 2])] = rng.choice([0, 1, 2])   # terminal links
    return [tuple(nd) for nd in nodes]


def followups(prog, ref, nodes, tag):
    """evaluation, counting and an operator on a value the library accepted (only generated when the independent
    validity check agrees that evaluation is safe, so a regression cannot hang the harness: it is caught by the outcome class)"""
    if nodes and is_wf(nodes) and nodes[0][0] <= 10:
        prog.append([tag + "t", "tt", ref])
    if nodes and is_wf(nodes):
        prog.append([tag + "c", "exact_card", ref])
        prog.append([tag + "f", "card", ref])
        prog.append([tag + "o", "named", "and", ref, ref])


def text_program(data):
    prog = [["r", "read_string", hexs(data)]]
    exp = py_read_text(data)
    if exp != "ERR":
        prog.append(["s", "to_string", "$r"])
        prog.append(["v", "validate", "$r"])
        prog.append(["f", "from_nodes", "$r"])
        if expect_validate(exp) == "OK":
            followups(prog, "$r", exp, "x")
    return prog


def nodes_program(nodes):
    prog = [["f", "from_nodes", bdd_sx(nodes)], ["v", "validate", bdd_sx(nodes)]]
    followups(prog, "$f", nodes, "x")
    return prog


def programs(rng, tier):
    progs = []
    # ---- exhaustive small strings
    alphabet = "|,017+ "
    L = 5 if tier == "quick" else 6
    P = Prog()
    for n in range(0, L + 1):
        for t in itertools.product(alphabet, repeat=n):
            P.add(["read_string", hexs("".join(t))])
    progs += P.progs
    # ---- grammar-generated and mutated texts
    for _ in range(2500 if tier == "quick" else 60000):
        progs.append(text_program(rand_text(rng)))
    for _ in range(1500 if tier == "quick" else 40000):
        b = rand_operand(rng, rng.choice([0, 1, 2, 3, 4, 6]), 0.3)
        data = py_to_text(b)
        k = rng.random()
        if k < 0.15:
            pass                                            # untouched valid text: round-trips
        elif k < 0.3:
            # boundary value spliced into a field position
            parts = data.decode().split(",")
            i = rng.randrange(len(parts))
            parts[i] = rng.choice(BOUNDARY) + ("|" if parts[i].endswith("|") and rng.random() < 0.8 else "")
            data = ",".join(parts).encode("utf-8")
        else:
            data = mutate_bytes(rng, data)
        progs.append(text_program(data))
    for _ in range(400 if tier == "quick" else 10000):
        progs.append(text_program(bytes(rng.randrange(256) for _ in range(rng.randint(0, 24)))))
    # malformed records that are LONG (35..60 bytes) and contain multi-byte characters around byte offsets 38..42 and at the very
    # end (an error message that slices the offending token at a fixed byte offset, or strips the last byte, lands inside one)
    MB = ["\u00e9", "\u20ac", "\U0001f600", "\u00a0", "\u3000"]
    for _ in range(120 if tier == "quick" else 3000):
        items = rng.choice([1, 2, 2, 4])
        body = ",".join("".join(rng.choice("0123456789") for _ in range(rng.randrange(1, 30))) for _ in range(items))
        pos = rng.choice([36, 37, 38, 39, 40, 41, 42, len(body)])
        body = body[:pos].ljust(min(pos, 60), "7") + rng.choice(MB) * rng.choice([1, 2, 3]) + body[pos:]
        txt = "|3,0,0|3,1,1|" + body + rng.choice(["|", "", "|" + rng.choice(MB)])
        progs.append(text_program(txt.encode("utf-8")))
    for _ in range(300 if tier == "quick" else 5000):
        # scripted stream on malformed text
        data = mutate_bytes(rng, py_to_text(rand_operand(rng, rng.choice([1, 2, 3]), 0.2)))
        ev = random_clean_schedule(rng, len(data), maxchunk=5, cover=False)
        if rng.random() < 0.3:
            ev.insert(rng.randint(0, len(ev)), ("E", rng.choice(KINDS)))
        progs.append([["r", "read_string_sched", hexs(data), sched_sx(ev)]])
    # ---- byte strings
    P = Prog()
    for n in range(0, 46):
        for _ in range(3 if tier == "quick" else 40):
            P.add(["read_bytes", hexs(bytes(rng.choice([0, 0, 1, 2, 3, 255, rng.randrange(256)]) for _ in range(n)))])
    progs += P.progs
    for _ in range(600 if tier == "quick" else 15000):
        b = rand_operand(rng, rng.choice([0, 1, 2, 3, 4]), 0.3)
        data = mutate_bytes(rng, py_to_bytes(b)) if rng.random() < 0.8 else py_to_bytes(b)
        prog = [["r", "read_bytes", hexs(data)], ["v", "validate", "$r"], ["f", "from_nodes", "$r"]]
        exp = py_records(data)
        if expect_validate(exp) == "OK":
            followups(prog, "$r", exp, "x")
        progs.append(prog)
        ev = random_clean_schedule(rng, len(data), maxchunk=7, cover=False)
        if rng.random() < 0.3:
            ev.insert(rng.randint(0, len(ev)), ("E", rng.choice(KINDS)))
        progs.append([["r", "read_bytes_sched", hexs(data), sched_sx(ev)]])
    # ---- node arrays: all three-node arrays over a small range (terminal part x decision node)
    firsts = [(2, 0, 0), (2, 1, 1), (1, 0, 0), (2, 0, 1)]
    seconds = [(2, 1, 1), (2, 0, 0), (1, 1, 1), (3, 1, 1), (2, 1, 0)]
    thirds = [(v, l, h) for v in (0, 1, 2, 3) for l in (0, 1, 2, 3) for h in (0, 1, 2, 3)]
    for a in firsts:
        for b in seconds:
            ts = thirds if (tier == "thorough" or (a == firsts[0] and b == seconds[0])) else rng.sample(thirds, 6)
            for c in ts:
                progs.append(nodes_program([a, b, c]))
    for arr in ([], [(0, 0, 0)], [(5, 0, 0)], [(5, 1, 1)], [(5, 0, 1)], [(5, 0, 0), (5, 1, 1)], [(5, 0, 0), (4, 1, 1)], [(5, 0, 0), (5, 0, 0)],
                [(5, 1, 1), (5, 0, 0)], [(5, 0, 0), (5, 1, 0)], [(65535, 0, 0), (65535, 1, 1), (65534, 0, 1)]):
        progs.append(nodes_program(arr))
    for _ in range(2500 if tier == "quick" else 60000):
        b = rand_operand(rng, rng.choice([1, 2, 3, 3, 4, 5, 6, 8]), 0.4)
        if rng.random() < 0.85:
            b = mutate_nodes(rng, b)
        progs.append(nodes_program(b))
    return progs


NORMAL = re.compile(rb"^\|((0|[1-9][0-9]*),(0|[1-9][0-9]*),(0|[1-9][0-9]*)\|)*\Z")


def judge(st, V):
    cid, call, impl, model, aux = st
    op = call[0]
    V.evaluations += 1
    V.count("op:" + op)
    if impl == "SKIP":
        V.skipped += 1
        return
    nontrivial = False
    if op in ("read_string", "read_string_sched", "read_bytes", "read_bytes_sched"):
        data = unhex(call[1])
        events = sched_of_sx(call[2]) if op.endswith("_sched") else []
        if op.startswith("read_string"):
            want = expect_read_text(data, events)
            try:
                data.decode("utf-8")
                V.count("text:valid-utf8")
            except UnicodeDecodeError:
                V.count("text:invalid-utf8")
            if want != "ERR" and NORMAL.match(data) is None:
                V.count("text:accepted-after-normalisation")
            nontrivial = want == "ERR" or NORMAL.match(data) is None
            if want != "ERR" and NORMAL.match(data) is not None and not events:
                # normally formatted accepted text: the value read re-serialises to the text itself (the to_string step of the
                # same program is compared with this rendering)
                assert py_to_text(bdd_nodes(want[1])) == data, (data, want)
        else:
            want = expect_read_bytes(data, events)
            V.count("bytes:len%%10=%d" % (len(data) % 10))
            nontrivial = len(data) % 10 != 0 or want == "ERR" or not is_wf(py_records(data))
    elif op == "from_nodes":
        b = bdd_nodes(call[1])
        want = expect_from_nodes(b)
        nontrivial = want == "ERR" or not is_canonical(b)[0]
    elif op == "validate":
        b = bdd_nodes(call[1])
        want = expect_validate(b)
        nontrivial = want == "ERR" or not is_canonical(b)[0]
    elif op == "to_string":
        want = hexs(py_to_text(bdd_nodes(call[1])))
    elif op == "tt":
        b = bdd_nodes(call[1])
        V.count("accepted-values-evaluated")
        try:
            want = "v" + tt_str(raw_tt(b))
        except (EvalDiverges, IndexError) as e:
            V.violations.append(violation(PID, st, "an accepted diagram cannot be evaluated: %s" % e, confirmed=True,
                                          oracle={"array": sx_str(call[1])}, relation="evaluation terminates on every valuation"))
            return
        if impl != want:
            V.violations.append(violation(PID, st, "evaluation of an accepted diagram differs from the raw evaluator", confirmed=True,
                                          oracle={"expected": want, "observed": sx_str(impl)}, relation="truth table"))
        return
    elif op == "exact_card":
        b = bdd_nodes(call[1])
        nv = b[0][0]
        if impl == "PANIC":
            V.violations.append(violation(PID, st, "exact_cardinality panicked on an accepted diagram", confirmed=True, relation="no panic"))
            return
        if nv <= 10:
            cnt = sum(1 for x in raw_tt(b) if x)
            V.count("accepted-values-counted")
            if impl != str(cnt):
                V.violations.append(violation(PID, st, "model count of an accepted diagram differs from enumeration", confirmed=True,
                                              oracle={"expected": cnt, "observed": sx_str(impl)}, relation="exact_cardinality = popcount"))
        return
    elif op == "card":
        # binary64 cardinality of an accepted diagram: for at most 10 variables the count is a small integer, exactly representable
        b = bdd_nodes(call[1])
        nv = b[0][0]
        if impl == "PANIC":
            V.violations.append(violation(PID, st, "cardinality() panicked on an accepted diagram", confirmed=True, relation="no panic"))
            return
        if nv <= 10:
            import struct
            cnt = sum(1 for x in raw_tt(b) if x)
            want = "f:%016x" % struct.unpack("<Q", struct.pack("<d", float(cnt)))[0]
            if impl != want:
                V.violations.append(violation(PID, st, "cardinality() of an accepted diagram differs from enumeration", confirmed=True,
                                              oracle={"expected": cnt, "expected_bits": want, "observed": sx_str(impl)}, relation="cardinality = popcount"))
        return
    elif op == "named":
        machinery_guard(st)
        V.count("accepted-values-operated")
        if impl == "PANIC" or not semantic_agree(impl, model, aux):
            from props import oracle
            confirmed, desc = oracle.check(call, impl)
            V.violations.append(violation(PID, st, "an operator does not accept a diagram the library accepted", confirmed=confirmed or impl == "PANIC",
                                          oracle=desc, relation="canon(impl)=canon(model), no panic"))
        return
    else:
        raise RuntimeError("C13: unexpected operation " + op)
    machinery_guard(st)
    sample(V, st)
    V.count("outcome:%s:%s" % (op, impl if isinstance(impl, str) and not impl.startswith("h:") else "value"))
    if impl != model or impl != want:
        why = "PANIC" if impl == "PANIC" else "outcome differs from the %s" % ("Coq model" if impl != model else "independent oracle")
        desc = {"expected_by_python_oracle": sx_str(want)[:1500], "observed": sx_str(impl)[:1500]}
        if op in ("from_nodes", "validate") and impl != "ERR" and impl != "PANIC":
            b = bdd_nodes(call[1])
            desc["is_valid_ordered_diagram"] = is_wf(b)
            try:
                raw_tt(b, min(b[0][0], 6) if b else 0)
            except (EvalDiverges, IndexError) as e:
                desc["evaluation"] = "does not terminate / leaves the array: %s" % e
        V.violations.append(violation(PID, st, why, oracle=desc, confirmed=(impl != want), relation="outcome class and value exact"))
        return
    if op == "to_string":
        return
    if nontrivial:
        V.nontrivial.add(key_of(call))


_steps = []


def finalize(steps, V):
    _steps.extend(steps)


def extra(V):
    n, agree = vm_crosscheck_serial(_steps)
    return {"vm_compute_crosscheck_serial": {"cases": n, "agree": agree}}
