"""Independent Python oracles for the serialisation properties (C12, C13): the binary and text formats, the
scripted-stream semantics of a schedule, from_nodes / validate acceptance.  Plain Python over bytes and raw node
tuples — never the Coq model, never the library."""
from common import *

U16 = 1 << 16
U32 = 1 << 32
# Unicode White_Space (char::is_whitespace)
WHITE_SPACE = set([9, 10, 11, 12, 13, 32, 0x85, 0xA0, 0x1680] + list(range(0x2000, 0x200B)) + [0x2028, 0x2029, 0x202F, 0x205F, 0x3000])
ASCII_WS = [" ", "\t", "\n", "\r", "\x0b", "\x0c"]
KINDS = ["other", "would_block", "invalid_data", "timed_out", "broken_pipe", "write_zero", "unexpected_eof"]


# ----------------------------------------------------------------------------- formats
def py_to_bytes(nodes):
    out = bytearray()
    for (v, l, h) in nodes:
        out += v.to_bytes(2, "little") + l.to_bytes(4, "little") + h.to_bytes(4, "little")
    return bytes(out)


def py_records(data):
    """complete 10-byte records of a byte string (a trailing partial record is dropped, as read_as_bytes does)"""
    out = []
    for i in range(0, len(data) - len(data) % 10, 10):
        r = data[i:i + 10]
        out.append((int.from_bytes(r[0:2], "little"), int.from_bytes(r[2:6], "little"), int.from_bytes(r[6:10], "little")))
    return out


def py_to_text(nodes):
    return ("|" + "".join("%d,%d,%d|" % nd for nd in nodes)).encode("ascii")


def py_parse_uint(s, bound):
    if s == "" or s == "+" or s == "-":
        return None
    if s[0] == "+":
        s = s[1:]
    if any(c not in "0123456789" for c in s):
        return None
    v = int(s)
    return v if v < bound else None


def py_read_text(data):
    """'ERR' or the list of node tuples, numbers at face value"""
    try:
        text = data.decode("utf-8")
    except UnicodeDecodeError:
        return "ERR"
    text = "".join(c for c in text if ord(c) not in WHITE_SPACE)
    nodes = []
    for piece in text.split("|"):
        if piece == "":
            continue
        items = piece.split(",")
        if len(items) < 3:
            return "ERR"
        v = py_parse_uint(items[0], U16)
        if v is None:
            return "ERR"
        l = py_parse_uint(items[1], U32)
        if l is None:
            return "ERR"
        h = py_parse_uint(items[2], U32)
        if h is None:
            return "ERR"
        nodes.append((v, l, h))
    return nodes


def ok_bdd(nodes):
    return ["OK", bdd_sx(nodes)]


# ----------------------------------------------------------------------------- schedules
def sched_sx(events):
    out = ["L"]
    for e in events:
        if e[0] == "C":
            out.append(["C", str(e[1])])
        elif e[0] == "I":
            out.append("I")
        else:
            out.append(["E", e[1]])
    return out


def sched_of_sx(x):
    out = []
    for e in x[1:]:
        if e == "I":
            out.append(("I",))
        elif e[0] == "C":
            out.append(("C", int(e[1])))
        else:
            out.append(("E", e[1]))
    return out


def sim_read(data, events):
    """what a consumer that reads until end of input / the first error sees: ('eof', delivered) or ('err', kind, delivered)"""
    pos = 0
    n = len(data)
    for e in events:
        if e[0] == "I" or (e[0] == "E" and e[1] == "interrupted"):
            continue
        if e[0] == "E":
            return ("err", e[1], data[:pos])
        k = e[1]
        if k == 0 or pos == n:
            return ("eof", data[:pos])
        if k > n - pos:
            return ("eof", data)
        pos += k
    return ("eof", data)


def sim_write(data, events):
    """(ok, accepted) for a producer that writes all of data with write_all semantics"""
    pos = 0
    n = len(data)
    for e in events:
        if pos == n:
            break
        if e[0] == "I" or (e[0] == "E" and e[1] == "interrupted"):
            continue
        if e[0] == "E":
            return (False, data[:pos])
        k = e[1]
        if k == 0:
            return (False, data[:pos])
        pos += min(k, n - pos)
    else:
        pos = n
    return (True, data[:n] if pos == n else data[:pos])


def expect_read_bytes(data, events):
    r = sim_read(data, events)
    if r[0] == "err" and r[1] != "unexpected_eof":
        return "ERR"
    return ok_bdd(py_records(r[-1]))


def expect_read_text(data, events):
    r = sim_read(data, events)
    if r[0] == "err":
        return "ERR"
    t = py_read_text(r[1])
    return "ERR" if t == "ERR" else ok_bdd(t)


def expect_write(data, events):
    ok, acc = sim_write(data, events)
    return ["P", "OK" if ok else "ERR", hexs(acc)]


# ----------------------------------------------------------------------------- node arrays
def all_reachable(nodes):
    """every node of a VALID array is the root or a descendant of it (terminals count as reached)"""
    n = len(nodes)
    if n <= 2:
        return True
    seen = [False] * n
    seen[0] = seen[1] = True
    stack = [n - 1]
    while stack:
        p = stack.pop()
        if seen[p]:
            continue
        seen[p] = True
        stack.append(nodes[p][1])
        stack.append(nodes[p][2])
    return all(seen)


def expect_from_nodes(nodes):
    return ok_bdd(nodes) if is_wf(nodes) else "ERR"


def expect_validate(nodes):
    return "OK" if (is_wf(nodes) and all_reachable(nodes)) else "ERR"


def random_clean_schedule(rng, total, maxchunk=11, pintr=0.15, cover=True):
    """chunks of 1..maxchunk bytes with interruptions; covers `total` bytes when cover else may stop early
    (the exhausted schedule then delivers the rest)"""
    ev = []
    pos = 0
    stop = total if cover else rng.randint(0, total)
    while pos < stop:
        if rng.random() < pintr:
            ev.append(("I",))
            continue
        k = rng.randint(1, maxchunk)
        ev.append(("C", k))
        pos += k
    if rng.random() < 0.3:
        ev.append(("I",))
    return ev


def compositions(n, maxpart):
    """all ways to write n as an ordered sum of parts 1..maxpart"""
    if n == 0:
        yield []
        return
    for k in range(1, min(maxpart, n) + 1):
        for rest in compositions(n - k, maxpart):
            yield [k] + rest


# ----------------------------------------------------------------------------- extraction cross-check
def vm_crosscheck_serial(steps, limit=40):
    """Validates the extracted model against kernel evaluation for the serialisation operations: a sample of small steps
    is re-evaluated with vm_compute inside coqc and compared with the answers of the extracted driver."""
    import re
    import tempfile
    ops = ("read_bytes_sched", "read_string_sched", "read_bytes", "read_string", "from_nodes", "validate")
    sample, seen = [], {}
    for s in steps:
        call, model = s[1], s[3]
        if call[0] not in ops or len(sx_str(call)) > 400:
            continue
        if seen.get(call[0], 0) >= limit // len(ops) + 1:
            continue
        seen[call[0]] = seen.get(call[0], 0) + 1
        sample.append(s)
    if not sample:
        return 0, 0

    def coq_bytes(a):
        return "[" + "; ".join(str(x) for x in unhex(a)) + "]"

    def coq_sched(x):
        out = []
        for e in sched_of_sx(x):
            if e[0] == "C":
                out.append("EChunk %d" % e[1])
            elif e[0] == "I":
                out.append("EIntr")
            else:
                out.append("EFail %s" % {"interrupted": "KInterrupted", "unexpected_eof": "KUnexpectedEof"}.get(e[1], "KOther"))
        return "[" + "; ".join(out) + "]"

    def coq_bdd(x):
        return "[" + "; ".join("mkNode %d %d %d" % nd for nd in bdd_nodes(x)) + "]"

    lines = ["From Coq Require Import List NArith. Import ListNotations.",
             "From BddVerif Require Import Model.Bdd Model.Apply Model.Serial.", "Open Scope N_scope.",
             "Definition show (o : outcome (result bdd)) : N * list (N * N * N) := match o with Ok (ROk b) => (0, map (fun n => (nvar n, nlow n, nhigh n)) b) "
             "| Ok RErr => (1, []) | Panic => (2, []) | OutOfFuel => (3, []) end.",
             "Definition showu (o : outcome (result unit)) : N * list (N * N * N) := match o with Ok (ROk _) => (0, []) "
             "| Ok RErr => (1, []) | Panic => (2, []) | OutOfFuel => (3, []) end."]
    for (cid, call, impl, model, aux) in sample:
        op = call[0]
        if op in ("read_bytes_sched", "read_bytes"):
            lines.append("Eval vm_compute in show (read_bytes_sched %s %s)." % (coq_bytes(call[1]), coq_sched(call[2]) if op.endswith("sched") else "[]"))
        elif op in ("read_string_sched", "read_string"):
            lines.append("Eval vm_compute in show (read_text_sched %s %s)." % (coq_bytes(call[1]), coq_sched(call[2]) if op.endswith("sched") else "[]"))
        elif op == "from_nodes":
            lines.append("Eval vm_compute in show (from_nodes %s)." % coq_bdd(call[1]))
        else:
            lines.append("Eval vm_compute in showu (validate %s)." % coq_bdd(call[1]))
    workdir = tempfile.mkdtemp(prefix="serialvm-", dir=os.path.join(VERIF, ".work"))
    try:
        path = os.path.join(workdir, "cases.v")
        open(path, "w").write("\n".join(lines) + "\n")
        rc, out, err = run_cmd(["timeout", "600", "coqc", "-noglob", "-Q", COQ_DIR, "BddVerif", path], cwd=workdir, timeout=700)
        if rc != 0:
            raise RuntimeError("vm_compute cross-check (serial) failed to compile: " + (out + err)[-2000:])
    finally:
        import shutil
        shutil.rmtree(workdir, ignore_errors=True)
    vals = re.findall(r"=\s*\((\d+),\s*(\[.*?\])\)\s*:\s*N \* list", out, flags=re.S)
    if len(vals) != len(sample):
        raise RuntimeError("vm_compute cross-check (serial): %d answers for %d cases" % (len(vals), len(sample)))
    agree = 0
    for (cid, call, impl, model, aux), (tag, lst) in zip(sample, vals):
        triples = [tuple(int(x) for x in re.findall(r"\d+", t)) for t in re.findall(r"\(([^()]*)\)", lst)]
        if tag == "0":
            want = "OK" if call[0] == "validate" else ["OK", bdd_sx(triples)]
        else:
            want = {"1": "ERR", "2": "PANIC", "3": "FUEL"}[tag]
        if want == model:
            agree += 1
    if agree != len(sample):
        raise RuntimeError("extracted serialisation model disagrees with vm_compute on %d of %d sampled steps" % (len(sample) - agree, len(sample)))
    return len(sample), agree
