"""C06 — selection, restriction and picking have their relational meaning."""
from common import *
from props.base import *

PID = "C06"
RULE = ("select/var_select/restrict/var_restrict/var_pick/var_pick_random/pick/pick_random: every function of <=3 variables (sampled in the "
        "quick tier) x every partial assignment in random literal order (repeated variables: last literal wins) x every variable subset "
        "(pick: subsets only, as the property states) x enumerated RNG scripts; random operands over 4..8 variables incl. non-canonical; pick / pick_random over lists of 33..130 distinct variables. "
        "relation: canon(impl)=canon(model). non-trivial = operand >=3 nodes and non-empty literal/variable list")


def programs(rng, tier):
    P = Prog()
    progs_extra = []
    for nv in (1, 2, 3):
        fs = all_functions(nv)
        if nv == 3 and tier == "quick":
            fs = rng.sample(fs, 40)
        for a in fs:
            assigns = list(itertools.product([None, False, True], repeat=nv))
            if tier == "quick" and len(assigns) > 9:
                assigns = rng.sample(assigns, 9)
            for asg in assigns:
                lits = [(x, c) for x, c in enumerate(asg) if c is not None]
                rng.shuffle(lits)
                if lits and rng.random() < 0.2:
                    x, c = rng.choice(lits)
                    lits.insert(0, (x, not c))   # overridden by the later literal
                L = ["L"] + [["P", str(x), "T" if c else "F"] for x, c in lits]
                P.add([rng.choice(["select", "restrict"]), bdd_sx(a), L])
            for x in range(nv):
                P.add(["var_select", bdd_sx(a), str(x), rng.choice("TF")])
                P.add(["var_restrict", bdd_sx(a), str(x), rng.choice("TF")])
                P.add(["var_pick", bdd_sx(a), str(x)])
                for sc in ("v0", "v1", "v"):
                    P.add(["var_pick_random", bdd_sx(a), str(x), sc])
            for mask in range(1 << nv):
                xs = [i for i in range(nv) if mask >> i & 1]
                rng.shuffle(xs)
                vs = ["L"] + [str(x) for x in xs]
                P.add(["pick", bdd_sx(a), vs])
                scripts = ["v" + "".join(s) for s in itertools.product("01", repeat=len(xs))]
                for sc in (scripts if tier == "thorough" else rng.sample(scripts, min(2, len(scripts)))):
                    P.add(["pick_random", bdd_sx(a), vs, sc])
    nrand = 1200 if tier == "quick" else 30000
    for _ in range(nrand):
        nv = rng.choice([4, 4, 5, 6, 8])
        a = rand_operand(rng, nv)
        xs = [x for x in range(nv) if rng.random() < 0.4]
        rng.shuffle(xs)
        lits = [(x, rng.random() < 0.5) for x in xs]
        L = ["L"] + [["P", str(x), "T" if c else "F"] for x, c in lits]
        vs = ["L"] + [str(x) for x in xs]
        k = rng.random()
        if k < 0.25:
            P.add(["select", bdd_sx(a), L])
        elif k < 0.5:
            P.add(["restrict", bdd_sx(a), L])
        elif k < 0.6:
            P.add(["var_pick", bdd_sx(a), str(rng.randrange(nv))])
        elif k < 0.8:
            P.add(["pick", bdd_sx(a), vs])
        else:
            P.add(["pick_random", bdd_sx(a), vs, "v" + "".join(rng.choice("01") for _ in range(rng.randrange(0, len(xs) + 2)))])
    # large variable counts with gaps (few nodes)
    for _ in range(150 if tier == "quick" else 4000):
        nv, vs_, a = gap_operand(rng)
        pool = vs_ + [rng.randrange(nv) for _ in range(2)]
        xs = sorted(set(rng.sample(pool, rng.randrange(0, min(3, len(pool)) + 1))))
        lits = [(x, rng.random() < 0.5) for x in xs]
        L = ["L"] + [["P", str(x), "T" if c else "F"] for x, c in lits]
        V_ = ["L"] + [str(x) for x in xs]
        k = rng.random()
        if k < 0.3:
            P.add(["restrict", bdd_sx(a), L])
        elif k < 0.5:
            P.add(["select", bdd_sx(a), L])
        elif k < 0.65:
            P.add(["var_restrict", bdd_sx(a), str(rng.choice(pool)), rng.choice("TF")])
        elif k < 0.8:
            P.add(["pick", bdd_sx(a), V_])
        elif k < 0.9:
            P.add(["var_pick", bdd_sx(a), str(rng.choice(pool))])
        else:
            P.add(["pick_random", bdd_sx(a), V_, "v" + "".join(rng.choice("01") for _ in range(len(xs)))])
    # sparse DNF-shaped functions (2..4 cubes of 2..3 literals over 4..7 variables: multiplexer-like diagrams whose projections often
    # have the SAME node count as the function), picked over every single supported variable and over some pairs in both orders
    for _ in range(700 if tier == "quick" else 20000):
        nv = rng.choice([4, 4, 5, 6, 7])
        cubes = []
        for _c in range(rng.randrange(2, 5)):
            vs_ = rng.sample(range(nv), rng.choice([2, 2, 3]))
            cubes.append([(x, rng.random() < 0.5) for x in vs_])
        sup = sorted({x for c in cubes for x, _ in c})
        a = bdd_from_fn(nv, sup, lambda asg, cubes=cubes: any(all(asg[x] == c for x, c in cube) for cube in cubes))
        if len(a) < 3:
            continue
        for x in sup:
            P.add(["pick", bdd_sx(a), ["L", str(x)]])
        if len(sup) >= 2:
            x, y = rng.sample(sup, 2)
            P.add(["pick", bdd_sx(a), ["L", str(x), str(y)]])
            P.add(["pick", bdd_sx(a), ["L", str(y), str(x)]])
            P.add(["pick_random", bdd_sx(a), ["L", str(x), str(y)], "v" + rng.choice("01") + rng.choice("01")])
    # storms of consecutive select / restrict calls (one program = one thread, one call after the other) with short literal lists
    # over 24..64 variables on few-node operands: state kept between calls and keyed by anything less than the whole literal list
    # (a hash of it, its length, its last literal) is hit by some consecutive pair
    for _ in range(40 if tier == "quick" else 400):
        nv = rng.choice([24, 32, 40, 64])
        nlit = rng.choice([2, 2, 2, 3])
        prog = []
        for s in range(250):
            sup = sorted(rng.sample(range(nv), rng.randrange(2, 4)))
            a = bdd_from_tt(nv, sup, [rng.random() < 0.5 for _ in range(1 << len(sup))])
            xs = rng.sample(range(nv), nlit)
            if rng.random() < 0.7:
                xs[0] = rng.choice(sup)
            xs = list(dict.fromkeys(xs))
            L = ["L"] + [["P", str(x), rng.choice("TF")] for x in xs]
            prog.append(["s%d" % s, rng.choice(["select", "select", "select", "restrict"]), bdd_sx(a), L])
        progs_extra.append(prog)
    # pick lists of MORE than 32 (64) distinct variables: functions of 3..6 supported variables over 33..130 variables, picked
    # over (almost) all variables, in sorted and shuffled order
    for _ in range(40 if tier == "quick" else 1500):
        nv = rng.choice([33, 34, 40, 48, 64, 65, 66, 70, 100, 130])
        sup = sorted(rng.sample(range(nv), rng.randrange(3, 7)))
        a = bdd_from_tt(nv, sup, [rng.random() < 0.6 for _ in range(1 << len(sup))])
        xs = [x for x in range(nv) if rng.random() < 0.97]
        if rng.random() < 0.3:
            xs = list(range(nv))
        if rng.random() < 0.5:
            rng.shuffle(xs)
        V_ = ["L"] + [str(x) for x in xs]
        if rng.random() < 0.75:
            P.add(["pick", bdd_sx(a), V_])
        else:
            P.add(["pick_random", bdd_sx(a), V_, "v" + "".join(rng.choice("01") for _ in range(len(xs)))])
    return P.progs + progs_extra


def judge(st, V):
    cid, call, impl, model, aux = st
    judge_semantic(PID, st, V, min_result_nodes=1)
    k = key_of(call)
    if k in V.nontrivial:
        lst = [x for x in call[1:] if isinstance(x, list) and x and x[0] == "L"]
        if lst and len(lst[0]) == 1:
            V.nontrivial.discard(k)
