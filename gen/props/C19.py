"""C19 — operations are pure, deterministic and safe to run concurrently on shared Bdds (partial by nature)."""
import os
import re

from common import *
from props.base import *
from props import oracle

PID = "C19"
CROSSCHECK = False
HARNESS_FEATURES = "conc,sendsync"     # threads over Arc-shared operands + compile-time Send/Sync assertions


def harness_build_failure(msg):
    """the concurrent harness does not compile: if the compiler says a value type cannot be shared/sent between threads,
    the `Send and Sync` clause of the property is violated and the compiler output is the witness"""
    if re.search(r"cannot be (shared|sent) between threads|`Sync` is not implemented|`Send` is not implemented|the trait `S(ync|end)`", msg):
        errs = re.findall(r"error(?:\[E\d+\])?: ([^\n]+)", msg)
        return {"property": PID, "kind": "send-sync", "confirmed": True,
                "reason": "a value type shared between threads by the concurrent harness is no longer Send + Sync",
                "compiler_errors": errs[:8], "detail": msg[-2500:]}
    return None
RULE = ("(a) source scan of /repo/src: no static mut / interior mutability / thread-local / lazily initialised global state, and every `unsafe` "
        "block only calls the three renaming entry points; (b) compile-time Send+Sync assertions for Bdd, BddVariableSet(+Builder), valuations, "
        "variables, nodes, pointers, owned iterators, expressions (harness/src/area_conc.rs); (c) dynamic: pools of 2..5 Bdds over 2..8 variables, "
        "8..16 threads each executing the whole list of 6..14 operations (logic, fused, quantifiers, nested, select/restrict/pick, substitute, normal "
        "forms incl. to_optimized_dnf, counts, supports, selectors, serialisation, export, transfer) in a thread-specific permutation over Arc-shared "
        "operands and variable set; the list is also run sequentially three times in one process; all runs must give identical results and the operands' "
        "bytes must be unchanged; the same operations are also executed as single steps and compared with the Coq model. "
        "non-trivial = a par program whose sequential results contain >=3 Bdds with >=3 nodes; distinct by sha256")

SCAN = [r"static\s+mut\b", r"\bRefCell\b", r"\bCell<", r"\bMutex\b", r"\bRwLock\b", r"\bAtomic[A-Z]\w*", r"thread_local!", r"lazy_static!",
        r"\bOnceCell\b", r"\bOnceLock\b", r"\bLazyLock\b", r"\bUnsafeCell\b", r"\bstatic\s+[A-Z_][A-Z0-9_]*\s*:\s*(?!&'static str|\[char|&\[)", r"\*mut\b", r"\*const\b",
        r"std::env::", r"SystemTime|Instant::now", r"thread_rng|from_entropy"]
ALLOWED_UNSAFE_CALLS = re.compile(r"^\s*(?:[\w.]+\.)?(?:rename_variable|rename_variables|set_num_vars)\s*\(.*\)\s*;?\s*$", re.S)


def strip_comments(src):
    src = re.sub(r"//[^\n]*", "", src)
    src = re.sub(r"/\*.*?\*/", "", src, flags=re.S)
    return src


def repo_root():
    """the repository the harness is built against (path dependency in harness/Cargo.toml; /repo in the registered checks)"""
    m = re.search(r'biodivine-lib-bdd\s*=\s*\{\s*path\s*=\s*"([^"]+)"', open(os.path.join(HARNESS_DIR, "Cargo.toml")).read())
    return m.group(1) if m else "/repo"


def sendsync_build():
    """compile-time Send + Sync assertions (harness feature `sendsync`), in a separate target directory"""
    return None   # the assertions are part of the C19 harness build (feature `sendsync`, see HARNESS_FEATURES)
    rc, out, err = 0, "", ""
    if rc == 0:
        return None
    msgs = re.findall(r"error(?:\[E\d+\])?: ([^\n]+)", err)
    return {"exit": rc, "errors": msgs[:6], "tail": err[-1500:]}


def source_scan():
    hits = []
    root = os.path.join(repo_root(), "src")
    nfiles = 0
    for d, _, files in os.walk(root):
        for f in files:
            if not f.endswith(".rs"):
                continue
            nfiles += 1
            path = os.path.join(d, f)
            src = strip_comments(open(path, encoding="utf-8", errors="replace").read())
            # test modules may use std facilities freely: cut everything after #[cfg(test)]
            cut = src.find("#[cfg(test)]")
            body = src if cut < 0 or f.startswith("_test") else src[:cut]
            if f.startswith("_test") or "/_test_bdd/" in path or "/tutorial/" in path:
                continue
            for pat in SCAN:
                for m in re.finditer(pat, body):
                    line = body.count("\n", 0, m.start()) + 1
                    hits.append("%s:%d: %s" % (os.path.relpath(path, repo_root()), line, m.group(0)))
            for m in re.finditer(r"\bunsafe\s*\{", body):
                depth, i = 1, m.end()
                while i < len(body) and depth:
                    depth += body[i] == "{"
                    depth -= body[i] == "}"
                    i += 1
                inner = body[m.end():i - 1]
                stmts = [s for s in inner.split(";") if s.strip()]
                for s in stmts:
                    if not ALLOWED_UNSAFE_CALLS.match(s + ";"):
                        line = body.count("\n", 0, m.start()) + 1
                        hits.append("%s:%d: unsafe block does more than call the renaming entry points: %s" % (os.path.relpath(path, repo_root()), line, s.strip()[:80]))
            # unsafe fn / unsafe impl other than the three known entry points
            for m in re.finditer(r"\bunsafe\s+(fn|impl|trait)\s+(\w+)?", body):
                if m.group(1) == "fn" and m.group(2) in ("rename_variable", "rename_variables", "set_num_vars"):
                    continue
                line = body.count("\n", 0, m.start()) + 1
                hits.append("%s:%d: %s" % (os.path.relpath(path, repo_root()), line, m.group(0)))
    return nfiles, hits


def single_form(op, pool):
    """the same operation as an ordinary single step (for the model comparison)"""
    P = lambda x: bdd_sx(pool[int(x[1:])])
    name = op[0]
    if name in ("and", "or", "xor", "imp", "iff", "and_not"):
        return ["named", name, P(op[1]), P(op[2])]
    if name == "not":
        return ["not", P(op[1])]
    if name == "ite":
        return ["ite", P(op[1]), P(op[2]), P(op[3])]
    if name == "fbin":
        return ["fbin", op[1], op[2], op[3], op[4], P(op[5]), P(op[6])]
    if name in ("binlim", "drybin"):
        return [name, op[1], op[2], P(op[3]), P(op[4])]
    if name in ("exists", "for_all", "select", "restrict", "pick"):
        return [name, P(op[1]), op[2]]
    if name == "bin_exists":
        return ["bin_exists", op[1], P(op[2]), P(op[3]), op[4]]
    if name == "nested":
        return ["nested", op[1], op[2], P(op[3]), P(op[4]), op[5]]
    if name == "pick_random":
        return ["pick_random", P(op[1]), op[2], op[3]]
    if name == "substitute":
        return ["substitute", P(op[1]), op[2], P(op[3])]
    if name == "cmp_implies":
        return ["cmp_implies", P(op[1]), P(op[2])]
    return None


def programs(rng, tier):
    progs = []
    n = 600 if tier == "quick" else 4000
    OR_T, AND_T = (False, True, True, True), (False, False, False, True)
    for _ in range(n):
        nv = rng.choice([2, 3, 4, 5, 6, 8])
        pool = [random_bdd(rng, nv, max_support=min(nv, 5)) for _ in range(rng.randrange(2, 6))]
        R = lambda: "@%d" % rng.randrange(len(pool))
        vs = lambda: ["L"] + [str(x) for x in range(nv) if rng.random() < 0.4]
        lits = lambda: ["L"] + [["P", str(x), rng.choice("TF")] for x in range(nv) if rng.random() < 0.35]
        names = [hexs("x_%d" % i) for i in range(nv)]
        ops = []
        for _ in range(rng.randrange(6, 15)):
            k = rng.randrange(30)
            if k < 5:
                ops.append([rng.choice(["and", "or", "xor", "imp", "iff", "and_not"]), R(), R()])
            elif k == 5:
                ops.append(["not", R()])
            elif k == 6:
                ops.append(["ite", R(), R(), R()])
            elif k == 7:
                ops.append(["fbin", partial_table(rng, rng.choice(CONNS))] + [optvar(rand_optvar(rng, nv)) for _ in range(3)] + [R(), R()])
            elif k == 8 and rng.random() < 0.5:
                ops.append([rng.choice(["binlim", "drybin"]), str(rng.choice([0, 1, 1, 2, 3, 5, 50])), partial_table(rng, rng.choice(CONNS + [(True, False, False, True)] * 4)), R(), R()])
            elif k == 8:
                ops.append([rng.choice(["exists", "for_all"]), R(), vs()])
            elif k == 9:
                ops.append(["bin_exists", partial_table(rng, rng.choice(CONNS)), R(), R(), vs()])
            elif k == 10:
                ops.append(["nested", partial_table(rng, rng.choice(CONNS)), partial_table(rng, rng.choice([OR_T, AND_T])), R(), R(),
                            "v" + "".join(rng.choice("01") for _ in range(nv))])
            elif k == 11:
                ops.append([rng.choice(["select", "restrict"]), R(), lits()])
            elif k == 12:
                ops.append(["pick", R(), vs()])
            elif k == 13:
                ops.append(["pick_random", R(), vs(), "v" + "".join(rng.choice("01") for _ in range(nv))])
            elif k == 14:
                ops.append(["substitute", R(), str(rng.randrange(nv)), R()])
            elif k == 15:
                ops.append([rng.choice(["to_dnf", "to_cnf", "sat_clauses"]), R()])
            elif k in (16, 17):
                ops.append(["to_opt_dnf", R()])
            elif k == 18:
                ops.append(["sat_valuations", R()])
            elif k == 19:
                ops.append([rng.choice(["exact_card", "card", "support", "size_per_var"]), R()])
            elif k == 20:
                ops.append([rng.choice(["necessary_clause", "most_positive_valuation", "most_free_clause", "first_valuation"]), R()])
            elif k == 21:
                ops.append([rng.choice(["to_string", "to_bytes"]), R()])
            elif k == 22:
                ops.append(["to_expr", R()])
            elif k in (23, 24):
                tgt = list(names)
                if rng.random() < 0.5:
                    tgt.insert(rng.randrange(len(tgt) + 1), hexs("extra"))
                ops.append(["transfer", R(), ["L"] + tgt])
            elif k == 25:
                ops.append(["mk_dnf", ["L"] + ["p" + "".join(rng.choice("01--") for _ in range(nv)) for _ in range(rng.randrange(0, 4))]])
            elif k == 26:
                ops.append(["mk_sat_exactly", str(rng.randrange(0, 3)), vs()])
            elif k == 27:
                ops.append(["cmp_implies", R(), R()])
            elif k == 28:
                ops.append(["dot", R(), rng.choice("TF")])
            else:
                ops.append(["var_by_name", hexs("x_%d" % rng.randrange(nv + 1))])
        threads = rng.choice([8, 8, 12, 16])
        prog = [["par", "par", str(threads), str(nv), ["L"] + [bdd_sx(b) for b in pool], ["L"] + ops]]
        for i, o in enumerate(ops):
            sf = single_form(o, pool)
            if sf is not None:
                prog.append(["s%d" % i] + sf)
        progs.append(prog)
    return progs


_scan_done = []


def judge(st, V):
    cid, call, impl, model, aux = st
    if not _scan_done:
        nfiles, hits = source_scan()
        _scan_done.append((nfiles, hits))
        V.count("scan_files", nfiles)
        V.count("scan_hits", len(hits))
        ss = sendsync_build()
        V.count("sendsync_assertions_compiled", 0 if ss else 1)
        if ss:
            is_auto = any(("Send" in e or "Sync" in e or "cannot be shared" in e or "cannot be sent" in e) for e in ss["errors"]) or "Sync" in ss["tail"] or "Send" in ss["tail"]
            V.violations.append({"property": PID, "key": "send-sync", "program": [], "reason": "a value type is no longer Send + Sync (compile-time assertion in harness/src/area_conc.rs fails)" if is_auto else "the Send + Sync assertions no longer compile",
                                 "oracle": ss, "confirmed": bool(is_auto), "correspondence_relation": "static Send + Sync assertions"})
        if hits:
            V.violations.append({"property": PID, "key": "source-scan", "program": [], "reason": "the purity premise of the interleaving theorem is no longer established by the source scan",
                                 "oracle": {"hits": hits[:20]}, "confirmed": False,
                                 "correspondence_relation": "no shared mutable state / no unsafe beyond the renaming entry points in /repo/src"})
    V.evaluations += 1
    V.count("op:" + call[0])
    if impl == "SKIP":
        V.skipped += 1
        return
    if call[0] != "par":
        # single-step twin: compared with the Coq model under the semantic relation
        machinery_guard(st)
        if unwrap_bdd(impl) is not None or unwrap_bdd(model) is not None or impl == "PANIC":
            if not semantic_agree(impl, model, aux):
                # only reported here if it is also a determinism problem; semantic defects belong to C01..C07
                V.count("semantic_disagreement_left_to_other_properties")
        return
    sample(V, st)
    res = impl
    if not (isinstance(res, list) and res[0] == "R"):
        V.violations.append(violation(PID, st, "concurrent run did not complete: %s" % sx_str(res)[:200], confirmed=True, relation="par completes"))
        return
    seq, same_rep, same_thr, unchanged, div = res[1], res[2], res[3], res[4], res[5]
    if same_rep != "T":
        V.violations.append(violation(PID, st, "repeating an operation on the same operands gave a different result", oracle={"first_divergence": sx_str(div)[:1500]},
                                      confirmed=True, relation="three sequential runs identical"))
        return
    if same_thr != "T":
        V.violations.append(violation(PID, st, "a thread operating on shared operands obtained a result different from the sequential run",
                                      oracle={"first_divergence": sx_str(div)[:1500]}, confirmed=True, relation="threads == sequential"))
        return
    if unchanged != "T":
        V.violations.append(violation(PID, st, "an operation modified one of its operands", confirmed=True, relation="operand bytes unchanged"))
        return
    nb = sum(1 for r in seq[1:] if unwrap_bdd(r) is not None and len(bdd_nodes(unwrap_bdd(r))) >= 3)
    V.count("threads:" + call[1])
    if nb >= 3:
        V.nontrivial.add(key_of(call))


def finalize(steps, V):
    """the par run's sequential results must equal the results of the same operations executed as single steps"""
    by_prog = {}
    cur = None
    for st in steps:
        cid, call, impl, model, aux = st
        if call[0] == "par":
            cur = st
            by_prog[cid] = (st, [])
        elif cur is not None:
            by_prog[cur[0]][1].append(st)
    for cid, (par, singles) in by_prog.items():
        impl = par[2]
        if not (isinstance(impl, list) and impl[0] == "R"):
            continue
        seq = impl[1][1:]
        pool = [bdd_nodes(x) for x in par[1][3][1:]]
        ops = par[1][4][1:]
        twins = {}
        for o, r in zip(ops, seq):
            sf = single_form(o, pool)
            if sf is not None:
                twins.setdefault(sx_str(sf), []).append(r)
        for st in singles:
            key = sx_str(st[1])
            for r in twins.get(key, []):
                if r != st[2] and st[2] != "SKIP":
                    V.violations.append(violation(PID, st, "the same operation gave different results inside and outside the concurrent run",
                                                  oracle={"in_par": sx_str(r)[:500], "single": sx_str(st[2])[:500]}, confirmed=True, relation="deterministic"))


def extra(V):
    nfiles, hits = _scan_done[0] if _scan_done else (0, [])
    return {"source_scan": {"files": nfiles, "hits": hits[:20]},
            "not_expressible_in_the_model": ["hardware/LLVM memory model", "data races themselves", "allocator behaviour"]}
