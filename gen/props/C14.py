"""C14 — the expression parser is total and implements the documented grammar."""
from common import *
from props.base import *
from props import exprlib as X

PID = "C14"
ALPHABET = ["a", "b", "true", "!", "&", "|", "^", "=>", "<=>", "?", ":", "(", ")"]
RULE = ("parse (BooleanExpression::try_from) on: EVERY token string of length <=4 (quick) / <=5 (thorough, 402,234 strings) over "
        "{a,b,true,!,&,|,^,=>,<=>,?,:,(,)} joined with single spaces and the same strings joined without separator; random expressions to nesting depth 6 printed with minimal/redundant parentheses and random (also "
        "non-ASCII) whitespace, each also mutated by inserting/deleting/replacing stray characters (unbalanced parentheses, lone =,<,>, "
        "zero-width and control characters); Display of random trees over parser-safe names (unicode letters, digits, underscores, "
        "punctuation) then parse of the printed text inside the same program; a stream of trees with UNSAFE names (empty, true/false, "
        "embedded blanks/reserved characters). relations: outcome (OK tree)/ERR/PANIC of the implementation == the step-faithful model's, "
        "== the independent precedence-climbing reference parser's; PANIC is always a violation; printed text == model's == reference "
        "printer's; parse(show(e)) == (OK e) for safe names. non-trivial = distinct input strings with >=2 tokens (reference lexer) or a "
        "lexical error after >=2 characters")
EXHAUSTIVE = {"quick": True, "thorough": True}
CROSSCHECK = False   # the generic cross-check knows only the apply engine; `finalize` below re-evaluates parse steps in coqc


def token_strings(maxlen):
    for n in range(0, maxlen + 1):
        for tup in itertools.product(ALPHABET, repeat=n):
            yield tup


def programs(rng, tier):
    P = Prog()
    maxlen = 4 if tier == "quick" else 5
    for tup in token_strings(maxlen):
        P.add(["parse", hexs(" ".join(tup))])
        if len(tup) >= 2:
            P.add(["parse", hexs("".join(tup))])
    # random well-formed strings and their mutations
    nrand = 4000 if tier == "quick" else 60000
    base_names = ["a", "b", "c", "x_1", "v", "true1", "falsey", "T", "č", "a+b", "{14}", "q.r",
                  # near-keywords: only the exact strings `true` / `false` are constants
                  "True", "FALSE", "tRuE", "False", "TRUE", "xtrue", "true_", "t", "f", "tru", "fals", "0", "1"]
    for _ in range(nrand):
        depth = rng.choice([1, 2, 3, 4, 5, 6])
        e = X.rand_tree(rng, depth, base_names)
        s = X.loose_print(rng, e, pextra=rng.choice([0.0, 0.1, 0.3]))
        P.add(["parse", hexs(s)])
        _expect[s] = ["OK", e]
        if rng.random() < 0.7:
            P.add(["parse", hexs(X.mutate(rng, s))])
    # conditionals nested without parentheses in the condition / then / else position (the documented conditional does not nest:
    # all are errors), with and without other operators around them, and the parenthesised (legal) versions
    atoms = ["a", "b", "c", "d", "e", "!a", "a & b", "a | b", "x ^ y"]
    for _ in range(60 if tier == "quick" else 1500):
        p_, q_, r_, s_, u_ = (rng.choice(atoms) for _ in range(5))
        inner = "%s ? %s : %s" % (q_, r_, s_)
        for shape in ("%s ? %s : %s", "(%s) ? %s : %s"):
            for pos in range(3):
                parts = [p_, u_, rng.choice(atoms)]
                parts[pos] = inner
                P.add(["parse", hexs(shape % tuple(parts))])
                parts[pos] = "(" + inner + ")"
                P.add(["parse", hexs(shape % tuple(parts))])
        P.add(["parse", hexs("%s => %s ? %s ? %s : %s : %s" % (p_, q_, r_, s_, u_, p_))])
        P.add(["parse", hexs("%s ? %s : %s ? %s : %s" % (p_, q_, r_, s_, u_))])
    # deep nesting: parentheses and negations only
    for d in ([1, 2, 5, 20, 100] if tier == "quick" else [1, 2, 3, 5, 20, 100, 400]):
        P.add(["parse", hexs("(" * d + "a" + ")" * d)])
        P.add(["parse", hexs("(" * d + "a" + ")" * (d - 1))])
        P.add(["parse", hexs("!" * d + "(" * d + "a & b" + ")" * d)])
        P.add(["parse", hexs("(" * d + "a ? b : c" + ")" * d + " ? d : e")])
    # show of random trees, then parse of the printed text (same program)
    nshow = 1500 if tier == "quick" else 30000
    for i in range(nshow):
        names = [X.rand_name(rng) for _ in range(rng.choice([1, 2, 3, 5]))]
        e = X.rand_tree(rng, rng.choice([0, 1, 2, 3, 4, 5, 6]), names)
        P.add_prog([["e", "show", e], ["p", "parse", "$e"]])
    unsafe = ["", "true", "false", "a b", " a", "a ", "a&b", "(", "x)", "?", "a:b", "a=b", "<", " ", "a\u3000b", "a\tb", "=>"]
    for i in range(150 if tier == "quick" else 2000):
        names = [rng.choice(unsafe) if rng.random() < 0.5 else X.rand_name(rng) for _ in range(3)]
        e = X.rand_tree(rng, rng.choice([0, 1, 2, 3]), names, pconst=0.05)
        P.add_prog([["e", "show", e], ["p", "parse", "$e"]])
    # regrouping storms: ONE sequence of names and operators parsed several times inside one program (one worker thread) under
    # DIFFERENT parenthesisations, and once more with one name or one operator exchanged: a parser that remembers parsed groups
    # under a key built from the tokens without the brackets (or without the names) returns the earlier grouping
    def bracket(items, ops):
        if len(items) == 1:
            return items[0]
        k = rng.randrange(1, len(items))
        return "(%s %s %s)" % (bracket(items[:k], ops[:k - 1]), ops[k - 1], bracket(items[k:], ops[k:]))
    for _ in range(150 if tier == "quick" else 3000):
        n = rng.choice([3, 3, 4, 5, 6])
        items = [rng.choice("abcdefg") if rng.random() < 0.8 else "!" + rng.choice("abc") for _ in range(n)]
        ops = [rng.choice(["&", "|", "^", "=>", "<=>"]) for _ in range(n - 1)]
        prog, seen = [], set()
        for k in range(rng.choice([3, 4, 5])):
            it, op = list(items), list(ops)
            if k and rng.random() < 0.3:
                if rng.random() < 0.5:
                    it[rng.randrange(n)] = rng.choice("abcdefg")
                else:
                    op[rng.randrange(n - 1)] = rng.choice(["&", "|", "^", "=>", "<=>"])
            s = bracket(it, op)
            if rng.random() < 0.5:
                s = s[1:-1]          # the outermost pair is optional
            if rng.random() < 0.3:
                s = "%s %s (%s)" % (rng.choice("xyz"), rng.choice(["&", "|"]), s)
            if s not in seen:
                seen.add(s)
                prog.append(["g%d" % len(prog), "parse", hexs(s)])
        P.add_prog(prog)
    return P.progs


_expect = {}    # printed text -> the parse result the round-trip clause demands
_seen = set()


def judge(st, V):
    cid, call, impl, model, aux = st
    op = call[0]
    V.evaluations += 1
    V.count("op:" + op)
    if impl == "SKIP" or model == "SKIP":
        V.skipped += 1
        return
    machinery_guard(st)
    if op == "show":
        want = hexs(X.ref_show(call[1]))
        if impl != model or impl != want:
            V.violations.append(violation(PID, st, "Display output differs from the documented fully parenthesised form",
                                          oracle={"reference_printer": want}, confirmed=(impl != want), relation="printed text exact"))
            return
        if X.expr_names_safe(call[1]):
            _expect[unhex(impl).decode("utf-8")] = ["OK", call[1]]
            V.count("show:safe-names")
        else:
            V.count("show:unsafe-names")
        if X.expr_size(call[1]) >= 3:
            V.nontrivial.add(key_of(call))
        return
    if op != "parse":
        return
    text = unhex(call[1]).decode("utf-8")
    ref = X.ref_parse(text)
    V.count("outcome:" + (impl if isinstance(impl, str) else impl[0]))
    V.count("len:" + ("0-3" if len(text) < 4 else "4-9" if len(text) < 10 else "10-29" if len(text) < 30 else "30+"))
    if len(V.samples) < 6 and len(text) > 8 and V.evaluations % 7 == 0:
        sample(V, st)
    if impl == "PANIC":
        V.violations.append(violation(PID, st, "BooleanExpression::try_from panics", oracle={"input": text, "reference_parser": sx_str(ref)},
                                      confirmed=True, relation="never PANIC"))
        return
    if ref == "ERR?":
        ref = impl   # reference parser exceeded Python's recursion limit (deep nesting): no independent verdict
        V.count("reference:recursion-limit")
    if impl != model:
        V.violations.append(violation(PID, st, "parser outcome differs from the step-faithful model",
                                      oracle={"input": text, "reference_parser": sx_str(ref)}, confirmed=(impl != ref),
                                      relation="(OK tree)/ERR/PANIC exact"))
        return
    if impl != ref:
        V.violations.append(violation(PID, st, "parser outcome differs from the documented grammar (independent reference parser)",
                                      oracle={"input": text, "reference_parser": sx_str(ref)}, confirmed=True,
                                      relation="(OK tree)/ERR exact vs reference grammar"))
        return
    want = _expect.get(text)
    if want is not None:
        V.count("roundtrip")
        if impl != want:
            V.violations.append(violation(PID, st, "parsing the printed form of an expression does not return the identical tree",
                                          oracle={"input": text, "expected": sx_str(want)}, confirmed=True, relation="parse(show e) = Ok e"))
            return
    if text not in _seen:
        try:
            ntok = len(X.ref_lex(text))
        except X.Reject:
            ntok = 2 if len(text) >= 2 else 0
        if ntok >= 2:
            _seen.add(text)
            V.nontrivial.add(key_of(call))


_cross = {"cases": 0, "agree": 0}


def finalize(steps, V):
    """re-validates the extracted model against kernel evaluation: a sample of parse steps is recomputed with vm_compute
    inside coqc (result rendered as printed text / outcome code) and compared with the extracted binary's answers"""
    import tempfile
    pick = [s for s in steps if s[1][0] == "parse" and s[2] != "SKIP" and 4 <= len(unhex(s[1][1])) <= 60]
    pick = pick[::max(1, len(pick) // 40)][:40]
    if not pick:
        return
    terms = ["match parse_string %s with POk e => 79 :: show e | PErr => [69] | PPanic => [80] | PFuel => [70] end"
             % X.coq_str(unhex(s[1][1]).decode("utf-8")) for s in pick]
    with tempfile.TemporaryDirectory() as d:
        got = X.vm_eval(d, terms, "c14")
    agree = 0
    for s, g in zip(pick, got):
        m = s[3]
        want = [79] + [ord(c) for c in X.ref_show(m[1])] if isinstance(m, list) else [{"ERR": 69, "PANIC": 80, "FUEL": 70}[m]]
        agree += (g == want)
    _cross.update(cases=len(pick), agree=agree)
    if agree != len(pick) or len(got) != len(pick):
        raise RuntimeError("extracted model disagrees with vm_compute on %d of %d sampled parse steps" % (len(pick) - agree, len(pick)))


def extra(V):
    return {"vm_compute_crosscheck": dict(_cross)}
