"""C20 — graph export lists exactly the nodes and edges of the diagram."""
import re

from common import *
from props.base import *
from props.serial_oracle import random_clean_schedule, sched_sx, sched_of_sx, expect_write, KINDS

PID = "C20"
RULE = ("to_dot_string (and write_as_dot_string, and export against new_anonymous sets) in BOTH modes, as a program (unpruned, pruned) on the same "
        "operands: every function of <=3 variables (covers shared nodes, both-terminal children, constants, skipped levels) under plain names and "
        "under names with spaces/punctuation/multi-byte characters/the empty name; constants over 0..4 variables; random functions over 4..8 variables "
        "incl. non-canonical valid diagrams (duplicates, redundant tests, unreachable nodes, permuted order); write_as_dot_string into a scripted "
        "writer (partial writes of 1..200 bytes, interruptions, a failure after a prefix) against to_dot_string of the same program; diagrams with >=100 nodes (3-digit "
        "indices) and >1,000 nodes (4-digit; thorough: >10,000); names containing a double quote or a newline (text comparison only). relation: the emitted bytes equal the model's bytes exactly. "
        "Independently on every step whose names are quote/newline free: a plain-Python dot reader checks header/entry/terminals/footer, one vertex "
        "per decision node labelled names[var], one filled edge to high and one dotted edge to low (pruned: absent iff the target is 0), evaluates the "
        "read-back graph on all valuations against the raw node array, and checks that the pruned lines are the unpruned lines minus the vertex-0 line "
        "and the edges into 0. Name lists of the wrong length / invalid names / malformed arrays are outside the quantifier (recorded only). "
        "non-trivial = diagram with >=3 nodes")

PLAIN = [b"a", b"b", b"c", b"d", b"e", b"f", b"g", b"h", b"i", b"j", b"k", b"l"]
PUNCT = [b"x y", b"a.b", b"v,1", b"k;", b"#t", b"[z]", b"{w}", b"q'", "é".encode(), "中".encode(), b"a b c", b"-", b"_", b" ", b"",
         b"1", b"0", b"init__", b"x]", b"];", b"a\\b", b"~", b"@", b"$%", b"*+/", b"style dotted"]
QUOTED = [b'q"', b'"];', b'"', b"a\nb"]


def names_sx(names):
    return ["L"] + [hexs(n) for n in names]


def pick_names(rng, nv, kind):
    if kind == "plain":
        return PLAIN[:nv] if nv <= len(PLAIN) else [b"n%d" % i for i in range(nv)]
    pool = PUNCT if kind == "punct" else PUNCT + QUOTED
    if nv <= len(pool):
        out = rng.sample(pool, nv)
    else:
        out = rng.sample(pool, len(pool)) + [b"n%d" % i for i in range(nv - len(pool))]
    if kind == "quoted" and out and not any(q in out for q in QUOTED):
        out[rng.randrange(len(out))] = rng.choice(QUOTED)
    return out


def programs(rng, tier):
    progs = []

    def pair(b, names, op="dot"):
        if op == "vs_dot":
            progs.append([["u", op, bdd_sx(b), ["anon", str(len(names))], "F"], ["p", op, bdd_sx(b), ["anon", str(len(names))], "T"]])
        else:
            progs.append([["u", op, bdd_sx(b), names_sx(names), "F"], ["p", op, bdd_sx(b), names_sx(names), "T"]])

    for nv in (0, 1, 2, 3):
        for f in all_functions(nv):
            pair(f, pick_names(rng, nv, "plain"))
            if tier == "thorough" or nv < 3 or rng.random() < 0.5:
                pair(f, pick_names(rng, nv, "punct"), op=rng.choice(["dot", "dot", "dot_write"]))
            if nv and (tier == "thorough" or rng.random() < 0.15):
                pair(f, pick_names(rng, nv, "quoted"))
            if tier == "thorough" or rng.random() < 0.1:
                pair(f, [b"x_%d" % i for i in range(nv)], op="vs_dot")
    for nv in range(0, 5):
        for c in ([(nv, 0, 0)], [(nv, 0, 0), (nv, 1, 1)]):
            pair(c, pick_names(rng, nv, "punct"))
    # shared nodes / both-terminal children, explicitly (xor chain: every level shares, leaves (x,0,1)/(x,1,0))
    for nv in (2, 3, 4, 5, 6):
        f = bdd_from_fn(nv, list(range(nv)), lambda a: sum(1 for x in a.values() if x) % 2 == 1)
        pair(f, pick_names(rng, nv, "plain"))
        pair(f, pick_names(rng, nv, "punct"))
    for _ in range(1500 if tier == "quick" else 20000):
        nv = rng.choice([4, 4, 5, 6, 7, 8])
        b = rand_operand(rng, nv, noncanon=0.3)
        pair(b, pick_names(rng, nv, rng.choice(["plain", "punct", "punct", "quoted"])), op=rng.choice(["dot", "dot", "dot", "dot_write"]))
    # write_as_dot_string into a writer that accepts the bytes in pieces, is interrupted, or fails after a prefix: the text of
    # the same program's to_dot_string must arrive completely (clean schedules) / as the prefix the writer accepted before Err
    for _ in range(150 if tier == "quick" else 4000):
        nv = rng.choice([1, 2, 3, 4, 5, 6])
        b = rand_operand(rng, nv, noncanon=0.2)
        names = pick_names(rng, nv, rng.choice(["plain", "punct"]))
        pr = rng.choice("TF")
        approx = 120 + 40 * len(b)
        ev = random_clean_schedule(rng, approx, cover=rng.random() < 0.6, maxchunk=rng.choice([1, 3, 7, 16, 64, 200]))
        if rng.random() < 0.25 and ev:
            i = rng.randrange(len(ev) + 1)
            ev = ev[:i] + [("E", rng.choice(KINDS))] + ev[i:]
        progs.append([["t", "dot", bdd_sx(b), names_sx(names), pr], ["w", "dot_write_sched", bdd_sx(b), names_sx(names), pr, sched_sx(ev)]])
    for _ in range(6 if tier == "quick" else 100):
        nv = rng.choice([9, 10])
        b = bdd_from_tt(nv, list(range(nv)), [rng.random() < 0.5 for _ in range(1 << nv)])   # >=100 nodes: 3-digit indices
        pair(b, pick_names(rng, nv, "punct"))
        pair(b, [b"x_%d" % i for i in range(nv)], op="vs_dot")
    # diagrams with more than 1,000 (thorough: 10,000) nodes: 4- and 5-digit vertex indices
    for nv in ((13,) if tier == "quick" else (13, 14, 17)):
        b = big_bdd_from_tt(nv, tt_to_bytes(nv, big_random_tt(rng, nv)))
        assert len(b) > (1000 if nv < 17 else 10000)
        pair(b, [b"x_%d" % i for i in range(nv)], op="vs_dot")
        pair(b, [b"v%d" % i for i in range(nv)])
    # relabelling storms: ONE diagram exported several times in a row inside one program (one worker thread of the harness) under
    # DIFFERENT name lists of the same length and repeating pruning flags, through every entry point: an export that remembers
    # an earlier rendering keyed by the diagram (or by less than all of its arguments) answers with the earlier labels
    for _ in range(120 if tier == "quick" else 3000):
        nv = rng.choice([1, 2, 3, 4, 5, 6])
        b = rand_operand(rng, nv, noncanon=0.2)
        prog = []
        for k in range(rng.choice([3, 4, 5, 6])):
            kind = rng.choice(["plain", "punct", "punct", "anon", "shuffled"])
            pr = rng.choice("TF") if k != 1 else prog[0][4]
            if kind == "anon":
                prog.append(["s%d" % k, "vs_dot", bdd_sx(b), ["anon", str(nv)], pr])
                continue
            names = pick_names(rng, nv, "punct" if kind == "shuffled" else kind)
            if kind == "shuffled":
                names = [b"x_%d" % i for i in range(nv)]
                rng.shuffle(names)
            prog.append(["s%d" % k, rng.choice(["dot", "dot", "dot_write"]), bdd_sx(b), names_sx(names), pr])
        progs.append(prog)
    # outside the quantifier (recorded only): wrong number of names, invalid name sets, malformed arrays
    b3 = all_functions(3)[100]
    pair(b3, PLAIN[:2])
    pair(b3, PLAIN[:4])
    pair(b3, [b"a", b"b", b"a"])
    pair(b3, [b"a", b"b(", b"c"])
    pair([(2, 0, 0), (2, 1, 1), (5, 0, 1)], PLAIN[:2])
    return progs


# ----------------------------------------------------------------------------- independent reader / evaluator
T_LINE = re.compile(r'^([01]) \[shape=box, label="([01])", style=filled, shape=box, height=0\.3, width=0\.3\];$')
V_LINE = re.compile(r'^(\d+)\[label="(.*)"\];$', re.S)
E_LINE = re.compile(r'^(\d+) -> (\d+) \[style=(filled|dotted)\];$')
I_LINE = re.compile(r'^init__ -> (\d+);$')


class ReadError(Exception):
    pass


def read_dot(text):
    """plain reader: returns dict(entry=[...], terms=[...], verts=[(p,label)], edges=[(p,q,style)])"""
    if not text.endswith("\n"):
        raise ReadError("text does not end with a newline")
    lines = text[:-1].split("\n")
    if len(lines) < 4 or lines[0] != "digraph G {" or lines[-1] != "}":
        raise ReadError("header/footer")
    if lines[1] != 'init__ [label="", style=invis, height=0, width=0];':
        raise ReadError("declaration of the invisible entry vertex")
    g = {"entry": [], "terms": [], "verts": [], "edges": [], "lines": lines}
    for ln in lines[2:-1]:
        m = I_LINE.match(ln)
        if m:
            g["entry"].append(int(m.group(1)))
            continue
        m = T_LINE.match(ln)
        if m and m.group(1) == m.group(2):
            g["terms"].append(int(m.group(1)))
            continue
        m = E_LINE.match(ln)
        if m:
            g["edges"].append((int(m.group(1)), int(m.group(2)), m.group(3)))
            continue
        m = V_LINE.match(ln)
        if m:
            g["verts"].append((int(m.group(1)), m.group(2)))
            continue
        raise ReadError("unreadable line %r" % ln)
    return g


def graph_eval(g, labelval):
    if len(g["entry"]) != 1:
        raise ReadError("not exactly one entry edge")
    p = g["entry"][0]
    verts = dict(g["verts"])
    edges = {}
    for (a, b, s) in g["edges"]:
        edges.setdefault((a, s), b)
    steps = 0
    while True:
        if p in g["terms"]:
            return p == 1
        if p not in verts:
            return False          # undeclared vertex: the pruned 0 terminal
        q = edges.get((p, "filled" if labelval[verts[p]] else "dotted"))
        if q is None:
            return False          # pruned edge
        p = q
        steps += 1
        if steps > len(verts) + 1:
            raise ReadError("walk does not terminate")


def check_export(nodes, names, pruned, text):
    """None if the text declares exactly the diagram (and evaluates like it), else a description"""
    try:
        g = read_dot(text)
    except ReadError as e:
        return {"problem": "the text cannot be read back: %s" % e}
    n = len(nodes)
    if g["entry"] != [n - 1]:
        return {"problem": "entry edge", "observed": g["entry"], "expected": [n - 1]}
    want_terms = [1] if pruned else [0, 1]
    if g["terms"] != want_terms:
        return {"problem": "terminal vertices", "observed": g["terms"], "expected": want_terms}
    snames = [nm.decode("utf-8") for nm in names]
    want_verts = sorted((p, snames[nodes[p][0]]) for p in range(2, n))
    if sorted(g["verts"]) != want_verts:
        return {"problem": "vertices/labels", "observed": sorted(g["verts"])[:20], "expected": want_verts[:20]}
    want_edges = []
    for p in range(2, n):
        v, l, h = nodes[p]
        if not (pruned and h == 0):
            want_edges.append((p, h, "filled"))
        if not (pruned and l == 0):
            want_edges.append((p, l, "dotted"))
    if sorted(g["edges"]) != sorted(want_edges):
        return {"problem": "edges", "observed": sorted(g["edges"])[:30], "expected": sorted(want_edges)[:30]}
    nv = nodes[0][0]
    if nv <= 10 and len(set(snames)) == len(snames):
        for i in range(1 << nv):
            val = val_of_index(i, nv)
            try:
                got = graph_eval(g, {snames[k]: val[k] for k in range(nv)})
            except ReadError as e:
                return {"problem": str(e)}
            if got != raw_eval(nodes, val):
                return {"problem": "the read-back graph evaluates differently", "valuation": vbits(val), "graph": got, "bdd": not got}
    return None


def check_diff(lines_u, lines_p):
    """pruned = unpruned minus the vertex-0 line minus the edges into 0"""
    keep = []
    for ln in lines_u:
        m = E_LINE.match(ln)
        if m and int(m.group(2)) == 0:
            continue
        m = T_LINE.match(ln)
        if m and m.group(1) == "0":
            continue
        keep.append(ln)
    if keep != lines_p:
        return {"problem": "pruned output is not the unpruned output minus the 0 vertex and the edges into it",
                "expected": keep[:40], "observed": lines_p[:40]}
    return None


_unpruned = {}


def names_of(call):
    if call[0] == "vs_dot":
        return [b"x_%d" % i for i in range(int(call[2][1]))]
    return [unhex(x) for x in call[2][1:]]


def valid_names(names):
    return len(set(names)) == len(names) and not any(ch in "!&|^=<>()?:" for nm in names for ch in nm.decode("utf-8"))


def judge(st, V):
    cid, call, impl, model, aux = st
    op = call[0]
    V.evaluations += 1
    V.count("op:" + op)
    if impl == "SKIP":
        V.skipped += 1
        return
    machinery_guard(st)
    nodes = bdd_nodes(call[1])
    names = names_of(call)
    pruned = call[3] == "T"
    if not is_wf(nodes) or len(names) != nodes[0][0] or not valid_names(names):
        V.count("outside_quantifier")
        V.skipped += 1
        return
    if op == "dot_write_sched":
        # oracle: the text of the preceding `dot` step of the same program pushed through an independent simulation of write_all
        key = (sx_str(call[1]), sx_str(call[2]), call[3])
        events = sched_of_sx(call[4])
        V.count("schedule:" + ("with-failure" if any(e[0] == "E" for e in events) else "clean"))
        text = _texts.get(key)
        want = expect_write(text, events) if text is not None else None
        if impl != model or (want is not None and impl != want):
            V.violations.append(violation(PID, st, "write_as_dot_string through a writer with partial writes: the accepted bytes differ from the %s"
                                          % ("model" if impl != model else "independent write_all simulation of to_dot_string's text"),
                                          oracle={"expected": sx_str(want)[:600] if want is not None else None, "observed": sx_str(impl)[:600]},
                                          confirmed=(want is not None and impl != want), relation="(OK|ERR, accepted bytes) exact"))
            return
        if len(nodes) >= 3 and len(events) >= 2:
            V.nontrivial.add(key_of(call))
        return
    if op == "dot" and isinstance(impl, str) and impl.startswith("h:"):
        _texts[(sx_str(call[1]), sx_str(call[2]), call[3])] = unhex(impl)
        if len(_texts) > 4000:
            _texts.clear()
    V.count("mode:" + ("pruned" if pruned else "full"))
    V.count("size:%s" % ("1-2" if len(nodes) < 3 else "3-6" if len(nodes) < 7 else "7-20" if len(nodes) < 21 else "21-99" if len(nodes) < 100 else "100+"))
    sample(V, st)
    readable = not any(b'"' in nm or b"\n" in nm for nm in names)
    V.count("names:" + ("readable" if readable else "quote-or-newline"))
    text = None
    if isinstance(impl, str) and impl.startswith("h:"):
        try:
            text = unhex(impl).decode("utf-8")
        except UnicodeDecodeError:
            text = None
    problem = None
    if text is None:
        problem = {"problem": "no text produced", "observed": sx_str(impl)[:200]}
    elif readable:
        problem = check_export(nodes, names, pruned, text)
        key = (sx_str(call[1]), sx_str(call[2]), op)
        if problem is None:
            lines = text[:-1].split("\n")
            if not pruned:
                _unpruned[key] = lines
            elif key in _unpruned:
                problem = check_diff(_unpruned.pop(key), lines)
                V.count("diff_checked")
    if impl != model:
        V.violations.append(violation(PID, st, "emitted text differs from the model's text", oracle=problem, confirmed=(problem is not None),
                                      relation="bytes exact"))
        return
    if problem is not None:
        # model and implementation agree but the independent reader objects: a failing input of the property
        V.violations.append(violation(PID, st, "independent reader: the text does not declare exactly the diagram", oracle=problem, confirmed=True,
                                      relation="python dot reader + evaluator"))
        return
    if len(nodes) >= 3:
        V.nontrivial.add(key_of(call))


_cross = [0, 0]
_texts = {}


def finalize(steps, V):
    """re-validate the extracted dot model against vm_compute on a sample of this run's steps"""
    from props import vsdot_common
    n, ok = vsdot_common.vm_crosscheck(steps)
    _cross[0], _cross[1] = n, ok
    if n != ok:
        raise RuntimeError("extracted model disagrees with vm_compute on %d of %d sampled dot steps" % (n - ok, n))


def extra(V):
    return {"vm_compute_crosscheck": {"cases": _cross[0], "agree": _cross[1]}}
