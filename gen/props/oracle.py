"""Independent failing-input oracle for Bdd-valued operations: the function the result must denote,
computed on raw truth tables (no model, no library code).  Used only after a correspondence
disagreement, to exhibit a concrete valuation on which the property fails."""
from common import *

NAMED = {"and": (False, False, False, True), "or": (False, True, True, True), "imp": (True, True, False, True),
         "iff": (True, False, False, True), "xor": (False, True, True, False), "and_not": (False, False, True, False)}
MAXNV = 10


class NotCovered(Exception):
    """the call is outside the property's quantifier (e.g. operands over different variable counts)"""


def fn_of(nodes):
    nodes = list(nodes)
    return lambda val: raw_eval(nodes, val)


def flip(val, x):
    if x is None:
        return val
    v = list(val)
    v[x] = not v[x]
    return v


def setv(val, x, c):
    v = list(val)
    v[x] = c
    return v


def ov(x):
    return None if x == "N" else int(x[1])


def same_nv(*bdds):
    nvs = {b[0][0] for b in bdds}
    if len(nvs) != 1:
        raise NotCovered("operands over different variable counts")
    nv = nvs.pop()
    return nv


def lits_of(x):
    return [(int(p[1]), p[2] == "T") for p in x[1:]]


def vars_of(x):
    return [int(v) for v in x[1:]]


def pv_of(a):
    return [(i, c == "1") for i, c in enumerate(a[1:]) if c != "-"]


def expected(call):
    """returns (nv, f) with f: valuation(list of bools) -> bool, or a predicate checker via ('pred', nv, check)"""
    op = call[0]
    B = lambda i: bdd_nodes(call[i])
    if op in ("bin", "binlim"):
        off = 1 if op == "bin" else 2
        conn = conn_of_table(call[off])
        a, b = B(off + 1), B(off + 2)
        nv = same_nv(a, b)
        fa, fb = fn_of(a), fn_of(b)
        return nv, lambda v: conn[2 * int(fa(v)) + int(fb(v))]
    if op in ("fbin", "fbinlim"):
        off = 1 if op == "fbin" else 2
        conn = conn_of_table(call[off])
        xa, xb, xo = ov(call[off + 1]), ov(call[off + 2]), ov(call[off + 3])
        a, b = B(off + 4), B(off + 5)
        nv = same_nv(a, b)
        if any(x is not None and x >= nv for x in (xa, xb, xo)):
            raise NotCovered("flip variable out of range")
        fa, fb = fn_of(a), fn_of(b)
        return nv, lambda v: conn[2 * int(fa(flip(flip(v, xo), xa))) + int(fb(flip(flip(v, xo), xb)))]
    if op == "named":
        conn = NAMED[call[1]]
        a, b = B(2), B(3)
        nv = same_nv(a, b)
        fa, fb = fn_of(a), fn_of(b)
        return nv, lambda v: conn[2 * int(fa(v)) + int(fb(v))]
    if op == "not":
        a = B(1)
        nv = same_nv(a)
        fa = fn_of(a)
        return nv, lambda v: not fa(v)
    if op == "ite":
        a, b, c = B(1), B(2), B(3)
        nv = same_nv(a, b, c)
        fa, fb, fc = fn_of(a), fn_of(b), fn_of(c)
        return nv, lambda v: fb(v) if fa(v) else fc(v)
    if op == "tern":
        conn = conn3_of_table(call[1])
        a, b, c = B(2), B(3), B(4)
        nv = same_nv(a, b, c)
        fa, fb, fc = fn_of(a), fn_of(b), fn_of(c)
        return nv, lambda v: conn[4 * int(fa(v)) + 2 * int(fb(v)) + int(fc(v))]
    if op == "ftern":
        conn = conn3_of_table(call[1])
        x1, x2, x3, xo = (ov(call[i]) for i in (2, 3, 4, 5))
        a, b, c = B(6), B(7), B(8)
        nv = same_nv(a, b, c)
        if any(x is not None and x >= nv for x in (x1, x2, x3, xo)):
            raise NotCovered("flip variable out of range")
        fa, fb, fc = fn_of(a), fn_of(b), fn_of(c)
        return nv, lambda v: conn[4 * int(fa(flip(flip(v, xo), x1))) + 2 * int(fb(flip(flip(v, xo), x2))) + int(fc(flip(flip(v, xo), x3)))]
    if op in ("var_exists", "var_for_all", "exists", "for_all", "bin_exists", "bin_for_all", "nested", "nested_re", "project", "var_project"):
        op = {"project": "exists", "var_project": "var_exists", "nested_re": "nested"}.get(op, op)      # aliases / re-entrant form
        if op in ("var_exists", "var_for_all"):
            a = B(1)
            nv = same_nv(a)
            g = fn_of(a)
            xs = [int(call[2])]
            univ = op == "var_for_all"
        elif op in ("exists", "for_all"):
            a = B(1)
            nv = same_nv(a)
            g = fn_of(a)
            xs = vars_of(call[2])
            univ = op == "for_all"
        elif op in ("bin_exists", "bin_for_all"):
            conn = conn_of_table(call[1])
            a, b = B(2), B(3)
            nv = same_nv(a, b)
            fa, fb = fn_of(a), fn_of(b)
            g = lambda v: conn[2 * int(fa(v)) + int(fb(v))]
            xs = vars_of(call[4])
            univ = op == "bin_for_all"
        else:
            conn = conn_of_table(call[1])
            inner = conn_of_table(call[2])
            a, b = B(3), B(4)
            nv = same_nv(a, b)
            fa, fb = fn_of(a), fn_of(b)
            g = lambda v: conn[2 * int(fa(v)) + int(fb(v))]
            xs = [i for i, c in enumerate(call[5][1:]) if c == "1"]
            if inner == NAMED["or"]:
                univ = False
            elif inner == NAMED["and"]:
                univ = True
            else:
                raise NotCovered("inner operator is neither or nor and")
        xs = sorted({x for x in xs if x < nv})
        if len(xs) > 14:
            raise NotCovered("too many quantified variables for the oracle")

        def q(v):
            res = []
            for bits in itertools.product([False, True], repeat=len(xs)):
                w = list(v)
                for x, c in zip(xs, bits):
                    w[x] = c
                res.append(g(w))
            return all(res) if univ else any(res)

        return nv, q
    if op in ("var_select", "select"):
        a = B(1)
        nv = same_nv(a)
        g = fn_of(a)
        lits = [(int(call[2]), call[3] == "T")] if op == "var_select" else lits_of(call[2])
        last = dict(lits)
        if any(x >= nv for x in last):
            raise NotCovered("literal out of range")
        return nv, lambda v: g(v) and all(v[x] == c for x, c in last.items())
    if op in ("var_restrict", "restrict"):
        a = B(1)
        nv = same_nv(a)
        g = fn_of(a)
        lits = [(int(call[2]), call[3] == "T")] if op == "var_restrict" else lits_of(call[2])
        last = {x: c for x, c in lits if x < nv}

        def r(v):
            w = list(v)
            for x, c in last.items():
                w[x] = c
            return g(w)

        return nv, r
    if op in ("var_pick", "var_pick_random"):
        a = B(1)
        nv = same_nv(a)
        g = fn_of(a)
        x = int(call[2])
        if x >= nv:
            raise NotCovered("variable out of range")
        pref = False
        if op == "var_pick_random":
            bits = call[3][1:]
            pref = (bits[0] == "1") if bits else True
        return nv, lambda v: g(v) and not (v[x] != pref and g(setv(v, x, pref)))
    if op in ("pick", "pick_random"):
        a = B(1)
        nv = same_nv(a)
        g = fn_of(a)
        xs = vars_of(call[2])
        if len(set(xs)) != len(xs) or any(x >= nv for x in xs):
            raise NotCovered("pick is specified for subsets of the variable set")

        def check(result_fn):
            # r subset of b; every class of b modulo xs has exactly one member in r
            classes = {}
            for i in range(1 << nv):
                v = val_of_index(i, nv)
                key = tuple(c for k, c in enumerate(v) if k not in xs)
                inb, inr = g(v), result_fn(v)
                if inr and not inb:
                    return {"valuation": vbits(v), "problem": "in the result but not in the operand"}
                cl = classes.setdefault(key, [0, 0, v])
                cl[0] += int(inb)
                cl[1] += int(inr)
            for key, (nb, nr, v) in classes.items():
                if nb > 0 and nr != 1:
                    return {"class_of": vbits(v), "operand_members": nb, "result_members": nr,
                            "problem": "a non-empty class must keep exactly one valuation"}
            return None

        return ("pred", nv, check)
    if op == "substitute":
        f, gg = B(1), B(3)
        nv = same_nv(f, gg)
        x = int(call[2])
        if x >= nv:
            raise NotCovered("variable out of range")
        ff, fg = fn_of(f), fn_of(gg)
        return nv, lambda v: ff(setv(v, x, fg(v)))
    if op in ("mk_true", "mk_false"):
        nv = int(call[1])
        if nv > MAXNV:
            raise NotCovered("nv")
        return nv, lambda v: op == "mk_true"
    if op in ("mk_var", "mk_not_var", "mk_literal"):
        nv, x = int(call[1]), int(call[2])
        if nv > MAXNV or x >= nv:
            raise NotCovered("range")
        c = True if op == "mk_var" else False if op == "mk_not_var" else call[3] == "T"
        return nv, lambda v: v[x] == c
    if op in ("mk_cc", "mk_dc"):
        nv = int(call[1])
        cells = pv_of(call[2])
        if nv > MAXNV or any(x >= nv for x, _ in cells):
            raise NotCovered("range")
        if op == "mk_cc":
            return nv, lambda v: all(v[x] == c for x, c in cells)
        return nv, lambda v: any(v[x] == c for x, c in cells)
    if op in ("mk_dnf", "mk_cnf"):
        nv = int(call[1])
        clauses = [pv_of(c) for c in call[2][1:]]
        if any(x >= nv for cl in clauses for x, _ in cl):
            raise NotCovered("range")
        if op == "mk_dnf":
            return nv, lambda v: any(all(v[x] == c for x, c in cl) for cl in clauses)
        return nv, lambda v: all(any(v[x] == c for x, c in cl) for cl in clauses)
    if op in ("mk_sat_exactly", "mk_sat_upto"):
        nv, k = int(call[1]), int(call[2])
        xs = set(vars_of(call[3]))
        if nv > MAXNV or any(x >= nv for x in xs):
            raise NotCovered("range")
        if op == "mk_sat_exactly":
            return nv, lambda v: sum(1 for x in xs if v[x]) == k
        return nv, lambda v: sum(1 for x in xs if v[x]) <= k
    if op == "of_valuation":
        bits = [c == "1" for c in call[1][1:]]
        nv = len(bits)
        if nv > MAXNV:
            raise NotCovered("nv")
        return nv, lambda v: list(v) == bits
    raise NotCovered("no oracle for " + op)


def relevant_vars(call, nodes, nv):
    vs = set()
    for x in call[1:]:
        if is_bdd(x):
            vs |= {n[0] for n in bdd_nodes(x)[2:]}
    vs |= {n[0] for n in nodes[2:]}

    def walk(x):
        if isinstance(x, str) and x.isdigit():
            vs.add(int(x))
        elif isinstance(x, list) and not is_bdd(x):
            for y in x:
                walk(y)
    for x in call[1:]:
        if isinstance(x, list) and not is_bdd(x):
            walk(x)
        elif isinstance(x, str) and x.isdigit():
            vs.add(int(x))
        elif isinstance(x, str) and (x.startswith("p") or x.startswith("v")) and set(x[1:]) <= set("01-"):
            vs |= {i for i, c in enumerate(x[1:]) if c != "-"}
    return sorted(v for v in vs if v < nv)


def valuations(call, nodes, nv, rng_seed=12345):
    """all valuations when nv is small; otherwise all assignments of the variables that occur anywhere in the
    call or the result (exact for functions depending only on them), or a random sample when there are too many"""
    if nv <= MAXNV:
        for i in range(1 << nv):
            yield val_of_index(i, nv)
        return
    rel = relevant_vars(call, nodes, nv)
    import random as _r
    rng = _r.Random(rng_seed)
    if call[0] in ("mk_dnf", "mk_cnf"):
        # one valuation per clause that satisfies (mk_cnf: falsifies) exactly that clause as far as possible: the literals of the
        # clause as given (negated), every other variable random; a dropped or merged clause shows on its own valuation
        for c in call[2][1:]:
            for _ in range(8):
                v = [rng.random() < 0.5 for _ in range(nv)]
                for x, val in pv_of(c):
                    v[x] = val if call[0] == "mk_dnf" else not val
                yield v
    if len(rel) <= 12:
        for bits in itertools.product([False, True], repeat=len(rel)):
            v = [False] * nv
            for x, c in zip(rel, bits):
                v[x] = c
            yield v
        for _ in range(50):   # and a few with the other variables randomised
            v = [rng.random() < 0.5 for _ in range(nv)]
            yield v
    else:
        for _ in range(3000):
            yield [rng.random() < 0.5 for _ in range(nv)]


def count_fixed(nodes, nv, fixed):
    """number of valuations of the NON-fixed variables on which the (valid) diagram is true, the others as in `fixed`"""
    free_below = [0] * (nv + 2)          # free_below[i] = number of non-fixed variables < i
    for i in range(nv):
        free_below[i + 1] = free_below[i] + (0 if i in fixed else 1)
    free_below[nv + 1] = free_below[nv]
    if len(nodes) == 1:
        return 0
    memo = {}

    def level(p):
        return nv if p < 2 else nodes[p][0]

    def go(p):                            # count over the free variables >= level(p)
        if p == 0:
            return 0
        if p == 1:
            return 1
        if p in memo:
            return memo[p]
        x, lo, hi = nodes[p]
        def branch(c):
            return go(c) << (free_below[level(c)] - free_below[x + 1])
        r = branch(hi if fixed[x] else lo) if x in fixed else branch(lo) + branch(hi)
        memo[p] = r
        return r
    root = len(nodes) - 1
    return go(root) << (free_below[level(root)] - free_below[0])


def pick_classes_large(call, result, nv):
    """exact check of the pick relation for many variables: for every assignment of the UNPICKED variables (a class), the
    result has exactly one member iff the operand has one, and that member satisfies the operand"""
    a = bdd_nodes(call[1])
    xs = set(vars_of(call[2]))
    unpicked = [x for x in range(nv) if x not in xs]
    sup = {n[0] for n in a[2:]} | {n[0] for n in result[2:]}
    rel = [x for x in unpicked if x in sup]          # unpicked variables nobody depends on do not split classes further
    if len(rel) > 12:
        return "too-many-classes"
    for bits in itertools.product([False, True], repeat=len(rel)):
        fixed = {x: False for x in unpicked}
        fixed.update(dict(zip(rel, bits)))
        nb, nr = count_fixed(a, nv, fixed), count_fixed(result, nv, fixed)
        if (nb > 0 and nr != 1) or (nb == 0 and nr != 0):
            return {"class_fixing_unpicked_variables": {str(k): v for k, v in sorted(fixed.items()) if k in rel},
                    "operand_members": nb, "result_members": nr, "problem": "a non-empty class must keep exactly one valuation"}
        if nr == 1:
            # the unique member: descend along the branch with a non-zero count
            v = [False] * nv
            for x, c in fixed.items():
                v[x] = c
            for x in sorted(xs):
                f1 = dict(fixed)
                f1[x] = True
                if count_fixed(result, nv, f1) >= 1:
                    v[x] = True
                    fixed = f1
                else:
                    fixed = dict(fixed)
                    fixed[x] = False
            if not raw_eval(a, v):
                return {"true_variables": [i for i, c in enumerate(v) if c], "problem": "in the result but not in the operand"}
    return None


def check(call, impl):
    """(confirmed, description).  confirmed=True: a concrete failing input of the property is exhibited."""
    try:
        exp = expected(call)
    except NotCovered as e:
        return False, "oracle not applicable: %s" % e
    if impl == "PANIC":
        return True, "the operation panicked on operands inside the property's quantifier"
    rb = unwrap_bdd(impl)
    if rb is None:
        return True, "the result is not a Bdd: %s" % sx_str(impl)
    nodes = bdd_nodes(rb)
    try:
        if exp[0] == "pred":
            _, nv, pred = exp
            if nodes[0][0] != nv:
                return True, "result over %d variables, operands over %d" % (nodes[0][0], nv)
            if nv > MAXNV:
                bad = pick_classes_large(call, nodes, nv)
                if bad == "too-many-classes":
                    return False, "class-counting oracle: too many unpicked variables to enumerate the classes"
                return (bad is not None), bad
            bad = pred(fn_of(nodes))
            return (bad is not None), bad
        nv, f = exp
        if nodes[0][0] != nv:
            return True, "result over %d variables, expected %d" % (nodes[0][0], nv)
        for v in valuations(call, nodes, nv):
            e, o = f(v), raw_eval(nodes, v)
            if e != o:
                return True, {"valuation": vbits(v) if nv <= 64 else {"true_variables": [i for i, c in enumerate(v) if c]}, "expected": e, "observed": o}
    except (EvalDiverges, IndexError) as ex:
        return True, "the result array cannot be evaluated: %s" % ex
    return False, None
