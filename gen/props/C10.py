"""C10 — normal-form construction and extraction preserve the function."""
from common import *
from props.base import *
from props import oracle

PID = "C10"
RULE = ("constructors mk_dnf / mk_cnf: EVERY clause list with <=3 clauses over <=2 variables, over 3 variables every list with <=1 clause and sampled "
        "2-/3-clause lists (thorough: every list with <=3 clauses = 2 x 20,440 lists), random lists of 0..9 clauses over 4..8 variables built to contain "
        "the empty clause, duplicates, overlapping (sub-)clauses and complementary clauses; mk_conjunctive_clause / mk_disjunctive_clause on every clause "
        "over <=4 variables and random longer ones. Clauses mentioning a variable >= num_vars are outside the property (recorded, not judged). "
        "relation: result array == the proved model's array exactly (both canonical), no panic. "
        "extraction: for every function of 0..3 variables (3 sampled in the quick tier; thorough also sampled 4-variable functions), skipped levels, random "
        "Bdds over 4..9 variables (+ valid non-canonical arrays for to_dnf/to_cnf): to_dnf()/to_cnf() lists == the model's lists in order; and for "
        "to_dnf, to_cnf, to_optimized_dnf the program rebuilds with mk_dnf/mk_cnf from the implementation's own list: the PROVED model constructor applied "
        "to the implementation's list must give exactly b (run-time check, sound by C10_optimized_dnf_checked), the implementation's rebuilt Bdd must be "
        "the array b and `==` must say so. to_optimized_dnf is also run in the step-faithful model (Model/OptDnf.v, proved to round-trip: "
        "C10_optimized_dnf_roundtrip); its list is compared with the implementation's as evidence only (opt_dnf_list_vs_model:agree/differ): a different "
        "but valid list is not a violation, a difference is reported only together with a failing validator. Independent truth-table oracle on EVERY step with nv<=10 (disjunction/conjunction of the clauses == raw truth "
        "table). non-trivial = constructor: >=2 clauses and result >=3 nodes (single clause: >=2 literals); extraction/rebuild: b has >=3 nodes; distinct by sha256")
EXHAUSTIVE = {"quick": False, "thorough": False}
MAXO = 10


def all_clauses(nv):
    return ["p" + "".join(c) for c in itertools.product("-01", repeat=nv)]


def rand_clause(rng, nv, density=None):
    d = density if density is not None else rng.choice([0.2, 0.4, 0.7, 1.0])
    return "p" + "".join((rng.choice("01") if rng.random() < d else "-") for _ in range(nv))


def rand_clause_list(rng, nv):
    n = rng.randrange(0, 10)
    out = []
    for _ in range(n):
        k = rng.random()
        if out and k < 0.15:
            out.append(rng.choice(out))                                   # duplicate
        elif out and k < 0.30:
            c = list(rng.choice(out)[1:])                                 # complementary in one literal
            idx = [i for i, x in enumerate(c) if x != "-"]
            if idx:
                i = rng.choice(idx)
                c[i] = "1" if c[i] == "0" else "0"
            out.append("p" + "".join(c))
        elif out and k < 0.45:
            c = list(rng.choice(out)[1:])                                 # overlapping: drop / add literals
            for i in range(len(c)):
                if rng.random() < 0.3:
                    c[i] = "-" if c[i] != "-" else rng.choice("01")
            out.append("p" + "".join(c))
        elif k < 0.50:
            out.append("p" + "-" * rng.randrange(0, nv + 1))              # the empty clause
        else:
            out.append(rand_clause(rng, nv))
    k = rng.random()
    if k < 0.6:
        rng.shuffle(out)
    elif k < 0.75:
        out.sort()                                                        # sorted / reverse-sorted lists
    elif k < 0.9:
        out.sort(reverse=True)
    # else: generation order (a subsuming / subsumed / complementary clause right after its source)
    if out and rng.random() < 0.2:
        # a clause subsumed by an earlier one (more literals) at the very end, and one subsuming everything at the front
        c = list(out[0][1:])
        for i in range(len(c)):
            if c[i] == "-" and rng.random() < 0.5:
                c[i] = rng.choice("01")
        out.append("p" + "".join(c))
    return out


def extraction(b, opt=True):
    nv = str(b[0][0])
    prog = [["b", "id", bdd_sx(b)],
            ["d", "to_dnf", "$b"], ["rd", "mk_dnf", nv, "$d"], ["ed", "eq", "$rd", "$b"],
            ["c", "to_cnf", "$b"], ["rc", "mk_cnf", nv, "$c"], ["ec", "eq", "$rc", "$b"]]
    if opt:
        prog += [["o", "to_opt_dnf", "$b"], ["ro", "mk_dnf", nv, "$o"], ["eo", "eq", "$ro", "$b"]]
        prog += [["oi", "to_opt_dnf_int", "$b"]]
    return prog


def programs(rng, tier):
    quick = tier == "quick"
    P = Prog()
    # ---- clause constructors
    for n in range(0, 5):
        for cl in all_clauses(n):
            for nv in sorted({n, n + 1, 6}):
                P.add(["mk_cc", str(nv), cl])
                P.add(["mk_dc", str(nv), cl])
            if n >= 1 and cl[-1] != "-":
                P.add([rng.choice(["mk_cc", "mk_dc"]), str(n - 1), cl])      # outside the property
    for _ in range(100 if quick else 3000):
        nv = rng.choice([5, 6, 8, 12])
        P.add([rng.choice(["mk_cc", "mk_dc"]), str(nv), rand_clause(rng, rng.randrange(0, nv + 1))])
    # ---- mk_dnf / mk_cnf, exhaustive small scopes
    for nv in (0, 1, 2):
        cls = all_clauses(nv)
        for k in range(0, 4):
            for lst in itertools.product(cls, repeat=k):
                for op in ("mk_dnf", "mk_cnf"):
                    P.add([op, str(nv), ["L"] + list(lst)])
    cls3 = all_clauses(3)
    for k in range(0, 4):
        lists = itertools.product(cls3, repeat=k)
        if quick and k >= 2:
            lists = [tuple(rng.choice(cls3) for _ in range(k)) for _ in range(1500)]
        for lst in lists:
            for op in ("mk_dnf", "mk_cnf"):
                P.add([op, "3", ["L"] + list(lst)])
    for _ in range(2000 if quick else 12000):
        nv = rng.choice([4, 4, 5, 6, 8])
        P.add([rng.choice(["mk_dnf", "mk_cnf"]), str(nv), ["L"] + rand_clause_list(rng, nv)])
    # many variables, short clauses (1..3 literals anywhere among 17..60 variables), 4..14 clauses: a clause list handled through
    # any summary of a clause (a hash, its length, its first literal) loses or merges clauses here
    for _ in range(2500 if quick else 30000):
        nv = rng.choice([17, 20, 24, 32, 40, 60])
        lst = []
        for _c in range(rng.randrange(6, 15)):
            cells = ["-"] * nv
            k = rng.choice([1, 1, 2, 2, 2, 3])
            # the first literal of a longer clause sits on one of the first few variables half of the time (a clause summarised
            # by a short polynomial of its literals then lands in the range of the one-literal clauses)
            xs = rng.sample(range(nv), k)
            if k >= 2 and rng.random() < 0.5:
                xs[0] = rng.randrange(0, 3)
            for x in set(xs):
                cells[x] = rng.choice("01")
            while cells and cells[-1] == "-":
                cells.pop()
            lst.append("p" + "".join(cells))
        P.add([rng.choice(["mk_dnf", "mk_cnf"]), str(nv), ["L"] + lst])
    for _ in range(20 if quick else 300):                                     # outside the property: recorded only
        nv = rng.choice([2, 3, 4])
        lst = rand_clause_list(rng, nv) + ["p" + "-" * nv + rng.choice("01")]
        rng.shuffle(lst)
        P.add([rng.choice(["mk_dnf", "mk_cnf"]), str(nv), ["L"] + lst])
    progs = P.progs
    # ---- extraction and rebuild
    for nv in (0, 1, 2, 3):
        fs = all_functions(nv)
        if nv == 3 and quick:
            fs = rng.sample(fs, 128)
        for b in fs:
            progs.append(extraction(b))
    if not quick:
        for _ in range(2500):
            progs.append(extraction(bdd_from_tt(4, [0, 1, 2, 3], [rng.random() < 0.5 for _ in range(16)])))
    for nv in (4, 7, 9, 30):
        for b in ([(nv, 0, 0)], [(nv, 0, 0), (nv, 1, 1)]):
            progs.append(extraction(b))
    gap = [(nv, sub) for nv in (4, 5, 6, 7) for k in (1, 2, 3) for sub in itertools.combinations(range(nv), k)]
    for (nv, sub) in (rng.sample(gap, 50) if quick else gap):
        tts = list(itertools.product([False, True], repeat=1 << len(sub)))
        for tt in rng.sample(tts, min(len(tts), 3 if quick else 16)):
            progs.append(extraction(bdd_from_tt(nv, list(sub), list(tt))))
    for _ in range(1000 if quick else 8000):
        nv = rng.choice([4, 5, 6, 7, 8, 9])
        progs.append(extraction(random_bdd(rng, nv, max_support=min(nv, 6))))
    for _ in range(40 if quick else 1000):                                    # few-node diagrams over many variables
        nv = rng.choice([12, 16, 25, 40])
        progs.append(extraction(random_bdd(rng, nv, max_support=5)))
    for _ in range(25 if quick else 600):                                     # huge core + tiny remainder over 50..90 variables
        nv = rng.choice([50, 60, 64, 70, 90])
        k = rng.randrange(1, 3)
        tail = sorted(rng.sample(range(k + 1, nv), rng.choice([nv - k - 2, nv - k - 1, (nv - k) // 2])))

        def fn(asg, k=k, tail=tail):
            if asg[0]:
                return all(asg[i] for i in range(1, k + 1))
            return all(asg[i] for i in tail)
        vs_ = sorted(set([0] + list(range(1, k + 1)) + tail))
        # built directly as a chain-shaped canonical array (too many variables for the truth-table builder)
        nodes = [(nv, 0, 0), (nv, 1, 1)]
        prev = 1
        for x in reversed(tail):
            nodes.append((x, 0, prev))
            prev = len(nodes) - 1
        lo = prev
        prev = 1
        for x in reversed(range(1, k + 1)):
            nodes.append((x, 0, prev))
            prev = len(nodes) - 1
        hi = prev
        # layout: high child first => the x1..xk chain must precede the tail chain
        nodes = [(nv, 0, 0), (nv, 1, 1)]
        prev = 1
        for x in reversed(range(1, k + 1)):
            nodes.append((x, 0, prev))
            prev = len(nodes) - 1
        hi = prev
        prev = 1
        for x in reversed(tail):
            if x <= k:
                continue
            nodes.append((x, 0, prev))
            prev = len(nodes) - 1
        lo = prev
        nodes.append((0, lo, hi))
        if is_canonical(nodes)[0]:
            progs.append(extraction(nodes))
    for _ in range(80 if quick else 2000):                                    # valid non-canonical arrays: to_dnf / to_cnf only
        nv = rng.choice([3, 4, 5, 6])
        b = noncanonical_variant(rng, random_bdd(rng, nv))
        if is_wf(b):
            progs.append(extraction(b, opt=False))
    return progs


# --------------------------------------------------------------------------------------------- oracles
def pv_cells(a):
    return [(i, c == "1") for i, c in enumerate(a[1:]) if c != "-"]


def nf_tt(nv, clauses, dnf):
    cs = [pv_cells(c) for c in clauses]
    out = []
    for i in range(1 << nv):
        v = val_of_index(i, nv)
        if dnf:
            out.append(any(all(v[x] == c for x, c in cl) for cl in cs))
        else:
            out.append(all(any(v[x] == c for x, c in cl) for cl in cs))
    return tuple(out)


_cur = {"b": None, "bs": None, "canon": False, "wf": False, "cid": -100, "next": None}


def in_prog(cid):
    return _cur["cid"] < int(cid) <= _cur["cid"] + 9


def rebuild_program(ext_op, mk_op, with_eq=False):
    nv = str(_cur["b"][0][0])
    prog = [sx_str(["1", "id", _cur["bs"]]), sx_str(["2", ext_op, "$1"]), sx_str(["3", mk_op, nv, "$2"])]
    if with_eq:
        prog.append(sx_str(["4", "eq", "$3", "$1"]))
    return prog


def judge(st, V):
    cid, call, impl, model, aux = st
    op = call[0]
    if op == "id":
        b = bdd_nodes(call[1])
        _cur["b"], _cur["bs"], _cur["canon"], _cur["next"] = b, call[1], is_canonical(b)[0], None
        _cur["wf"], _cur["cid"] = is_wf(b), int(cid)
        return
    V.evaluations += 1
    V.count("op:" + op)
    if impl == "SKIP" or not operands_wf(call):
        V.skipped += 1
        return
    # ---------------------------------------------------------------- extraction
    if op == "to_opt_dnf_int":
        # _to_optimized_dnf with an interrupt that never fails is to_optimized_dnf: same relation (no rebuild step follows;
        # the truth-table oracle and the comparison with the model's list apply)
        op = "to_opt_dnf"
        if in_prog(cid):
            cid = "-1"
    if op in ("to_dnf", "to_cnf", "to_opt_dnf"):
        b = bdd_nodes(call[1])
        nv = b[0][0]
        V.count("nv:%s" % (nv if nv <= 10 else "11+"))
        V.count("operand:" + ("canonical" if is_canonical(b)[0] else "non-canonical"))
        machinery_guard(st)
        sample(V, st)
        if impl == "PANIC" or not isinstance(impl, list):
            V.violations.append(violation(PID, st, op + " panicked on a valid diagram", confirmed=True,
                                          oracle="panic inside the property's quantifier", relation="list exact"))
            return
        items = impl[1:]
        _cur["next"] = (int(cid) + 1, op) if in_prog(cid) else None
        bad = None
        if any(i >= nv for c in items for i, _ in pv_cells(c)):
            bad = {"problem": "a clause mentions a variable outside the Bdd"}
        elif nv <= MAXO:
            tt, want = nf_tt(nv, items, op != "to_cnf"), raw_tt(b)
            if tt != want:
                i = [k for k in range(1 << nv) if tt[k] != want[k]][0]
                bad = {"problem": "the normal form denotes a different function", "valuation": vbits(val_of_index(i, nv)), "bdd": want[i], "normal_form": tt[i]}
        if op == "to_opt_dnf":
            # Additional evidence, NOT the relation: the implementation's list against the list of the step-faithful model
            # (Model/OptDnf.v).  A different but valid list is no violation (the property only demands that rebuilding returns
            # b: the rebuild step that follows, plus the truth-table oracle above); a difference is only remembered so that a
            # failing validator can report it.  The model itself is proved never to panic / run out of fuel on a canonical
            # operand (C10_optimized_dnf_sem), so such an answer is a machinery error.
            if is_canonical(b)[0] and not isinstance(model, list):
                raise RuntimeError("model to_optimized_dnf did not return a list on a canonical operand (step %s): %s" % (cid, sx_str(model)[:200]))
            agree = impl == model
            V.count("opt_dnf_list_vs_model:" + ("agree" if agree else "differ"))
            if len(b) >= 3:
                V.count("opt_dnf_list_vs_model_nontrivial:" + ("agree" if agree else "differ"))
            _cur["opt_differs"] = (int(cid), sx_str(model)[:2000]) if not agree else None
        if bad is not None or (op != "to_opt_dnf" and impl != model):
            if bad is not None and op == "to_opt_dnf" and _cur.get("opt_differs"):
                bad["model_list"] = _cur["opt_differs"][1]
            V.violations.append(violation(PID, st, op + ": " + (bad["problem"] if bad else "clause list differs from the model's (semantic oracle passed)"),
                                          oracle=bad, confirmed=bad is not None, relation="list exact (to_dnf/to_cnf) + truth-table oracle"))
            return
        if len(b) >= 3:
            V.nontrivial.add(key_of(call))
        return
    if op == "eq":
        # `==` of the rebuilt Bdd and the original
        machinery_guard(st)
        if not in_prog(cid) or not _cur["canon"] or not is_bdd(call[1]) or call[2] != _cur["bs"]:
            V.count("eq_on_non_canonical_operand")
            return
        if impl != "T":
            viol = violation(PID, st, "the Bdd rebuilt from the normal form is not == the original", confirmed=True,
                             oracle={"original": sx_str(call[2]), "rebuilt": sx_str(call[1])}, relation="rebuilt == b")
            lr = _cur.get("last_rebuild")
            if lr is not None and lr[0] + 1 == int(cid):
                viol["program"] = rebuild_program(lr[1], lr[2], with_eq=True)
            V.violations.append(viol)
            return
        if len(bdd_nodes(call[2])) >= 3:
            V.nontrivial.add(key_of(call))
        return
    # ---------------------------------------------------------------- constructors
    nv = int(call[1])
    clauses = [call[2]] if op in ("mk_cc", "mk_dc") else call[2][1:]
    V.count("num_vars:%s" % (nv if nv <= 10 else "11+"))
    if op in ("mk_dnf", "mk_cnf"):
        V.count("clauses:%s" % (len(clauses) if len(clauses) < 4 else "4+"))
    if any(i >= nv for c in clauses for i, _ in pv_cells(c)):
        V.count("outside_property:clause_beyond_num_vars:%s:%s" % (op, "PANIC" if impl == "PANIC" else "returns"))
        V.skipped += 1
        return
    machinery_guard(st)
    sample(V, st)
    rebuilt_from = None
    if op in ("mk_dnf", "mk_cnf") and in_prog(cid) and _cur["next"] is not None and _cur["next"][0] == int(cid) and nv == _cur["b"][0][0]:
        rebuilt_from = _cur["next"][1]
        _cur["last_rebuild"] = (int(cid), rebuilt_from, op)
    bad = None
    conf = False
    if impl == "PANIC" or not is_bdd(impl):
        bad, conf = {"problem": "panic / no Bdd for clauses inside the variable set"}, True
    elif nv <= MAXO or impl != model:
        # <= MAXO variables: all valuations, on every step; more variables: only to confirm a disagreement with the model — one
        # targeted valuation family per clause plus random ones (props/oracle.py)
        conf, bad = oracle.check(call, impl)
        if not conf:
            bad = None
    if bad is None and rebuilt_from is not None and _cur["wf"]:
        b = _cur["b"]
        # (1) the run-time check: proved constructor applied to the implementation's clause list == b
        if _cur["canon"]:
            if model != _cur["bs"]:
                bad, conf = {"problem": "model mk_*(clauses yielded by %s) is not the original Bdd: the extracted normal form denotes another function" % rebuilt_from,
                             "model_rebuild": sx_str(model)}, True
            elif impl != _cur["bs"]:
                bad, conf = {"problem": "rebuilding from %s does not return a Bdd equal to the original" % rebuilt_from}, True
        elif nv <= MAXO and is_bdd(model) and raw_tt(bdd_nodes(model)) != raw_tt(b):
            bad, conf = {"problem": "model mk_*(clauses yielded by %s) denotes another function than the (non-canonical) original" % rebuilt_from}, True
    if isinstance(bad, dict) and rebuilt_from == "to_opt_dnf" and _cur.get("opt_differs") and _cur["opt_differs"][0] + 1 == int(cid):
        bad["to_optimized_dnf_model_list"] = _cur["opt_differs"][1]      # the validator failed AND the list is not the model's
        V.count("opt_dnf_list_vs_model:differ_and_validator_failed")
    if bad is not None or impl != model:
        viol = violation(PID, st, op + ": " + (str(bad.get("problem", "the result denotes another function than the clauses (truth-table oracle)")) if isinstance(bad, dict) else "oracle: %s" % bad if bad else "array differs from the model's canonical array"),
                                      oracle=bad, confirmed=conf, relation="array exact + truth-table oracle" + ("; rebuild == original" if rebuilt_from else ""))
        if rebuilt_from is not None:
            viol["program"] = rebuild_program(rebuilt_from, op)   # the whole program, so that a replay re-creates the rebuild context
        V.violations.append(viol)
        return
    if rebuilt_from is not None:
        V.count("rebuild_from:" + rebuilt_from)
    rn = len(bdd_nodes(impl))
    ncells = sum(len(pv_cells(c)) for c in clauses)
    if rebuilt_from is not None:
        if len(_cur["b"]) >= 3:
            V.nontrivial.add(key_of(call))
    elif rn >= 3 and ((len(clauses) >= 2) or ncells >= 2):
        V.nontrivial.add(key_of(call))


# extraction cross-check against kernel evaluation (shared with C08)
_cross = [0, 0]


def finalize(steps, V):
    from props import C08
    n, a = C08.kernel_crosscheck(steps)
    _cross[0], _cross[1] = n, a


def extra(V):
    return {"vm_compute_crosscheck": {"cases": _cross[0], "agree": _cross[1]}}
