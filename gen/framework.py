"""Check framework: proof obligations (Coq), harness build, transcript production, model replay,
comparison, failing-input search, verdicts, evidence."""
import fcntl
import hashlib
import json
import os
import re
import shutil
import sys
import time

from common import *

ALLOWED_AXIOMS = {
    # axioms declared by the standard library / Flocq's real-number base; none declared by this development
    "ClassicalDedekindReals.sig_forall_dec",
    "ClassicalDedekindReals.sig_not_dec",
    "FunctionalExtensionality.functional_extensionality_dep",
}
FORBIDDEN = re.compile(r"\b(Admitted|admit|Axiom|Parameter|Conjecture|Unset Guard|bypass_check|Admit Obligations)\b|-type-in-type")

TRUSTED_BASE = [
    "Coq 8.16.1 kernel (coqc; vm_compute only in Examples and cross-checks; no native_compute)",
    "Coq extraction to OCaml with ExtrOcamlBasic only (no Extract Constant of our own), OCaml 4.13.1 compiler",
    "hand-written OCaml transcript parser/printer (driver/sx.ml, driver/driver.ml)",
    "Rust correspondence harness (harness/src) and Python comparator/oracles (gen/)",
    "modelled, not verified: Vec, HashMap/HashSet (as finite maps), explicit task stacks (only node-creation order and results are modelled), machine integers as unbounded N with explicit range checks",
]


class Lock:
    def __init__(self, name):
        os.makedirs(os.path.join(VERIF, ".work"), exist_ok=True)
        self.path = os.path.join(VERIF, ".work", name + ".lock")

    def __enter__(self):
        self.f = open(self.path, "w")
        fcntl.flock(self.f, fcntl.LOCK_EX)
        return self

    def __exit__(self, *a):
        fcntl.flock(self.f, fcntl.LOCK_UN)
        self.f.close()


# ----------------------------------------------------------------------------- proof obligations
TRANSLATORS = {"C01": ["gen_tables.py"], "C14": ["gen_expr.py"], "C15": ["gen_expr.py"]}


def coq_obligations(pid, tier="quick"):
    """Builds Properties/<pid>.vo (and its cone), re-runs coqc on the property file to capture
    `Print Assumptions`, scans the cone for forbidden vernacular.  Returns a dict."""
    t0 = time.time()
    res = {"obligations": 0, "discharged": 0, "theorems": [], "failed": [], "assumptions": {}, "log": ""}
    prop_v = os.path.join(COQ_DIR, "Properties", pid + ".v")
    if not os.path.exists(prop_v):
        res["failed"].append("Properties/%s.v missing" % pid)
        res["obligations"] = 1
        return res
    src = open(prop_v).read()
    theorems = re.findall(r"^\s*(?:Theorem|Lemma|Corollary|Example)\s+(\w+)", src, flags=re.M)
    res["theorems"] = theorems
    # obligations: every theorem of the property file + its assumption audit + the forbidden-vernacular scan
    res["obligations"] = 2 * len(theorems) + 1
    with Lock("coq"):
        if not os.path.exists(os.path.join(COQ_DIR, "Makefile")):
            run_cmd(["coq_makefile", "-f", "_CoqProject", "-o", "Makefile"], cwd=COQ_DIR)
        for script in TRANSLATORS.get(pid, []):
            # translator: regenerate the table-shaped parts of the model from the repository's current source.  Exit 2 = the
            # source no longer has a shape the translator understands: it has then written the model's own tables into the
            # generated file (trivial obligations) and the property is decided by the correspondence check alone — which is
            # exhaustive for the operator tables and runs on every check anyway; recorded in the evidence.
            m = re.search(r'biodivine-lib-bdd\s*=\s*\{\s*path\s*=\s*"([^"]+)"', open(os.path.join(HARNESS_DIR, "Cargo.toml")).read())
            rc, out, err = run_cmd([sys.executable, os.path.join(VERIF, "tools", script), m.group(1) if m else "/repo"], cwd=VERIF, timeout=120)
            res.setdefault("translators", {})[script] = "translated" if rc == 0 else "fallback (source shape not recognised): " + (out + err)[-400:]
            if rc not in (0, 2):
                res["obligations"] += 1
                res["failed"].append("translator tools/%s failed: %s" % (script, (out + err)[-600:]))
                return res
        rc, out, err = run_cmd(["timeout", "1500", "make", "-j16", "Properties/%s.vo" % pid], cwd=COQ_DIR, timeout=1600)
        res["log"] = (out + err)[-4000:]
        if rc != 0:
            res["failed"].append("make Properties/%s.vo failed: %s" % (pid, (out + err)[-1500:]))
            return res
        rc, out, err = run_cmd(["timeout", "600", "coqc", "-Q", ".", "BddVerif", "Properties/%s.v" % pid], cwd=COQ_DIR, timeout=700)
    if rc != 0:
        res["failed"].append("coqc Properties/%s.v failed: %s" % (pid, (out + err)[-1500:]))
        return res
    # parse assumption reports: they appear in order, one per `Print Assumptions`
    printed = re.findall(r"^\s*Print Assumptions\s+(\w+)\s*\.", src, flags=re.M)
    blocks = re.split(r"(?m)^(?=Closed under the global context|Axioms:)", out)
    reports = [b for b in blocks if b.startswith("Closed under") or b.startswith("Axioms:")]
    ok_theorems = 0
    for i, name in enumerate(printed):
        if i >= len(reports):
            res["failed"].append("no assumption report for " + name)
            continue
        rep = reports[i]
        if rep.startswith("Closed under"):
            res["assumptions"][name] = []
        else:
            axs = re.findall(r"^([A-Za-z_][\w.']*)\s*:", rep[len("Axioms:"):], flags=re.M)
            res["assumptions"][name] = axs
            badax = [a for a in axs if a not in ALLOWED_AXIOMS]
            if badax:
                res["failed"].append("theorem %s depends on axioms outside the allowlist: %s" % (name, badax))
    for th in theorems:
        if th not in printed:
            res["failed"].append("theorem %s has no Print Assumptions" % th)
        else:
            ok_theorems += 1
    # pinned statements: `Check name : stmt.` must be present for every theorem (they fail compilation if wrong)
    # forbidden vernacular anywhere in the development
    hits = []
    for root, _, files in os.walk(COQ_DIR):
        for f in files:
            if f.endswith(".v"):
                txt = open(os.path.join(root, f)).read()
                txt_nc = re.sub(r"\(\*.*?\*\)", "", txt, flags=re.S)
                for m in FORBIDDEN.finditer(txt_nc):
                    hits.append("%s: %s" % (os.path.relpath(os.path.join(root, f), COQ_DIR), m.group(0)))
    if hits:
        res["failed"].append("forbidden vernacular: " + "; ".join(hits[:10]))
    if tier == "thorough":
        # independent re-check of the compiled property file and everything it depends on
        res["obligations"] += 1
        rc, out, err = run_cmd(["timeout", "3000", "coqchk", "-silent", "-o", "-Q", ".", "BddVerif", "BddVerif.Properties.%s" % pid], cwd=COQ_DIR, timeout=3100)
        txt = out + err
        m = re.search(r"\* Axioms:\s*(.*?)\n\s*\n", txt + "\n\n", flags=re.S)
        axioms = m.group(1).strip() if m else "?"
        res["coqchk"] = {"exit": rc, "axioms": axioms}
        if rc != 0 or axioms != "<none>":
            bad = [a for a in re.findall(r"^\s*([A-Za-z_][\w.']*)\s*$", axioms, flags=re.M) if a not in ALLOWED_AXIOMS]
            if rc != 0 or bad or axioms == "?":
                res["failed"].append("coqchk: exit %s, axioms: %s" % (rc, axioms[:300]))
    res["discharged"] = res["obligations"] - (len(res["failed"]) if res["failed"] else 0)
    if not res["failed"]:
        res["discharged"] = res["obligations"]
    else:
        res["discharged"] = max(0, min(res["obligations"] - 1, ok_theorems))
    res["wall_s"] = time.time() - t0
    return res


# ----------------------------------------------------------------------------- builds
HARNESS_BIN_IN_USE = [HARNESS_BIN]


def build_harness(features=None):
    """builds the harness against the repository's working tree; with `features` into its own target directory"""
    cmd = ["timeout", "1500", "cargo", "build", "--release", "--offline"]
    env = None
    if features:
        tdir = os.path.join(HARNESS_DIR, "target-" + features.replace(",", "-"))
        cmd += ["--features", features]
        env = {"CARGO_TARGET_DIR": tdir}
        HARNESS_BIN_IN_USE[0] = os.path.join(tdir, "release", "bddh")
    with Lock("cargo" + ("-" + features if features else "")):
        rc, out, err = run_cmd(cmd, cwd=HARNESS_DIR, timeout=1600, env=env)
    if rc != 0:
        raise RuntimeError("harness build failed against /repo's working tree:\n" + err[-3000:])


def build_driver():
    with Lock("coq"):
        model_ml = os.path.join(DRIVER_DIR, "model.ml")
        if not os.path.exists(model_ml) or not os.path.exists(os.path.join(COQ_DIR, "Extract.vo")):
            if not os.path.exists(os.path.join(COQ_DIR, "Makefile")):
                run_cmd(["coq_makefile", "-f", "_CoqProject", "-o", "Makefile"], cwd=COQ_DIR)
            rc, out, err = run_cmd(["timeout", "1500", "make", "-j16", "Extract.vo"], cwd=COQ_DIR, timeout=1600)
            if rc != 0:
                raise RuntimeError("extraction failed:\n" + (out + err)[-3000:])
        drv = DRIVER_BIN
        srcs = [os.path.join(DRIVER_DIR, f) for f in os.listdir(DRIVER_DIR)
                if f.endswith((".ml", ".mli", ".sh")) and f != "dispatch.ml"]
        if not os.path.exists(drv) or any(os.path.getmtime(s) > os.path.getmtime(drv) for s in srcs):
            rc, out, err = run_cmd(["sh", "build.sh"], cwd=DRIVER_DIR, timeout=600)
            if rc != 0:
                raise RuntimeError("driver build failed:\n" + (out + err)[-3000:])


# ----------------------------------------------------------------------------- transcripts
STEP_TIMEOUT = int(os.environ.get("VERIF_STEP_TIMEOUT", "2400"))


def run_programs(workdir, programs, shards=16):
    """programs: list of lists of case s-expressions (first element = id, unique over the run).
    Returns list of (case_id, call, impl_result, model_result, aux)."""
    os.makedirs(workdir, exist_ok=True)
    shards = max(1, min(shards, len(programs)))
    files = []
    for s in range(shards):
        path = os.path.join(workdir, "in_%d.txt" % s)
        with open(path, "w") as f:
            for prog in programs[s::shards]:
                for case in prog:
                    f.write(sx_str(case) + "\n")
        files.append(path)
    import subprocess
    from concurrent.futures import ThreadPoolExecutor

    def run_shard(s):
        """runs the harness over shard s.  If the PROCESS dies inside a library call (allocation failure, abort, stack overflow, a
        signal) the transcript — flushed after every case — shows which case it was: that case gets the outcome ABORT, the rest
        of its program is skipped (later cases may refer to its result) and a fresh process resumes with the next program."""
        lines = [l for l in open(files[s]).read().split("\n") if l.strip()]
        bnds, n = [], 0
        for prog in programs[s::shards]:
            bnds.append((n, n + len(prog)))
            n += len(prog)
        tpath = os.path.join(workdir, "tr_%d.txt" % s)
        out_lines, crashes, path = [], 0, files[s]
        while True:
            part_path = os.path.join(workdir, "tr_%d.part%d" % (s, crashes))
            p = subprocess.Popen([HARNESS_BIN_IN_USE[0], path], stdout=open(part_path, "w"), stderr=subprocess.PIPE)
            try:
                _, err = p.communicate(timeout=STEP_TIMEOUT)
            except subprocess.TimeoutExpired:
                p.kill()
                raise RuntimeError("harness did not finish within %d s on %s" % (STEP_TIMEOUT, path))
            part = [l for l in open(part_path).read().split("\n") if l.strip()]
            if p.returncode != 0 and part and not part[-1].endswith(")"):
                part = part[:-1]                                  # a partially written last line
            out_lines += part
            if p.returncode == 0:
                break
            if p.returncode == 3:
                raise RuntimeError("harness does not know an operation (exit 3) on %s: %s" % (path, err.decode()[-2000:]))
            crashes += 1
            k = len(part)
            if crashes > 25 or k >= len(lines):
                raise RuntimeError("harness crashed (exit %s, crash %d) on %s: %s" % (p.returncode, crashes, path, err.decode()[-2000:]))
            lo, hi = next((a, b) for a, b in bnds if a <= k < b)
            c = sx_parse(lines[k])
            out_lines.append(sx_str([c[0], c[1:], "ABORT"]))
            for l in lines[k + 1:hi]:
                c = sx_parse(l)
                out_lines.append(sx_str([c[0], c[1:], "SKIP"]))
            lines = lines[hi:]
            bnds = [(a - hi, b - hi) for a, b in bnds if a >= hi]
            if not lines:
                break
            path = os.path.join(workdir, "in_%d_r%d.txt" % (s, crashes))
            with open(path, "w") as f:
                f.write("\n".join(lines) + "\n")
        with open(tpath, "w") as f:
            f.write("".join(l + "\n" for l in out_lines))
        return tpath

    with ThreadPoolExecutor(max_workers=shards) as ex:
        tpaths = list(ex.map(run_shard, range(shards)))
    procs = [(None, tp) for tp in tpaths]
    mprocs = []
    for s, (p, tpath) in enumerate(procs):
        mpath = os.path.join(workdir, "mo_%d.txt" % s)
        mprocs.append((subprocess.Popen(["sh", "-c", "ulimit -s unlimited 2>/dev/null; exec \"$0\" \"$1\"", DRIVER_BIN, tpath],
                                        stdout=open(mpath, "w"), stderr=subprocess.PIPE), tpath, mpath))
    out = []
    for p, tpath, mpath in mprocs:
        try:
            _, err = p.communicate(timeout=STEP_TIMEOUT)
        except subprocess.TimeoutExpired:
            for q, _, _ in mprocs:
                q.kill()
            subprocess.run(["pkill", "-f", DRIVER_BIN + " " + workdir])
            raise RuntimeError("model driver did not finish within %d s on %s" % (STEP_TIMEOUT, tpath))
        if p.returncode != 0:
            raise RuntimeError("model driver crashed (exit %s) on %s: %s" % (p.returncode, tpath, err.decode()[-2000:]))
        with open(tpath) as tf, open(mpath) as mf:
            for tl, ml in zip(tf, mf):
                t = sx_parse(tl.rstrip("\n"))
                m = sx_parse(ml.rstrip("\n"))
                assert t[0] == m[0], (t[0], m[0])
                if m[1] == "BAD:ternary-models-disagree":
                    # driver/ops_core.ml tern3: the order-faithful ternary engine (Model/Apply3.v) and the compositional
                    # model (Model/Ops.v) differ on well-formed operands and a total consistent table, contradicting
                    # Proofs/Apply3Sem.v ternary_faithful_eq: a model/extraction/driver bug, a hard error for EVERY
                    # property (also for those whose judge does not look at the model's result of the step)
                    raise RuntimeError("ternary models disagree (model-internal cross-check) on step %s: %s" % (t[0], sx_str(t[1])[:600]))
                if m[1] == "BAD:count-models-disagree":
                    # driver/ops_count.ml `counted`: on a small operand the memoised counting functions (Model/CountFast.v), the
                    # dispatching `_auto` functions and the un-memoised reference recursions (Model/Count.v) differ, or wfb_fast
                    # differs from wfb, contradicting Proofs/CountFast.v (*_fast_eq, *_auto_eq, wfb_fast_eq): a
                    # model/extraction/driver bug, a hard error for EVERY property
                    raise RuntimeError("counting models disagree (model-internal cross-check) on step %s: %s" % (t[0], sx_str(t[1])[:600]))
                out.append((t[0], t[1], t[2], m[1], m[2]))
    return out


ENGINES = ("slow", "fast", "stack")
VM_SUFFIXES = ("", "_fast", "_stack")


def _binary_operands(call):
    return (call[5], call[6]) if call[0] == "fbin" else (call[2], call[3]) if call[0] == "named" else (call[2], call[3])


def _small_binary(st, max_nodes):
    if st[1][0] not in ("fbin", "bin", "named") or not isinstance(st[3], list):
        return False
    return all(is_bdd(x) and len(x) <= 1 + 3 * max_nodes for x in _binary_operands(st[1]))


# The other loops with a fast twin (driver/ops_core.ml `use_fast`): size-limited engine and dry run (Model/ApplyFast2.v), ternary
# engine (Model/Apply3Fast.v), nested apply (Model/NestedFast.v).  BDD_ENGINE=fast forces the twin, slow/stack the reference.
TWIN_FAMILIES = {
    "limit": ("fbinlim", "binlim"),
    "dry": ("dry", "drybin"),
    "ternary": ("ite", "tern", "ftern"),
    "nested": ("nested", "exists", "for_all", "bin_exists", "bin_for_all"),
}
TWIN_OPS = {op: fam for fam, ops in TWIN_FAMILIES.items() for op in ops}
# Families whose Rust loop also has a STEP-FAITHFUL explicit-stack machine in the model (Model/ApplyLimitStack.v, Model/DryStack.v,
# Model/Apply3Stack.v, Model/NestedStack.v; proved equal to the reference definitions in Proofs/ApplyLimitStack.v, Proofs/DryStack.v,
# Proofs/Apply3Stack.v, Proofs/NestedStack.v).  BDD_ENGINE=stack selects the machine when no operand has more than STACK_MAX_NODES
# nodes (driver/ops_core.ml `pick3` / `both_nested`; above that the fast twin answers).  Nested family: the outer loop of
# `nested_apply`, the inner loop of `inner_apply` (run to completion inside one outer step) and the copy loop of `fix_bdd_alignment`.
STACK_FAMILIES = ("limit", "dry", "ternary", "nested")
STACK_MAX_NODES = 300
CROSS_DETAIL = {}


def _twin_step(st, max_nodes):
    """a step of one of the twin families whose Bdd operands all have at most max_nodes nodes and whose model answer
    is a value (not a machinery marker)"""
    if st[1][0] not in TWIN_OPS or st[2] == "SKIP":
        return False
    if isinstance(st[3], str) and st[3] not in ("N", "PANIC"):
        return False
    return all(len(x) <= 1 + 3 * max_nodes for x in st[1][1:] if is_bdd(x))


def _twin_sample(steps, per_family, max_nodes):
    """per family: the steps with the largest operands (served by the fast twin in the normal run) + an even spread"""
    out = []
    for fam in TWIN_FAMILIES:
        cand = [s for s in steps if TWIN_OPS.get(s[1][0]) == fam and _twin_step(s, max_nodes)]
        cand.sort(key=lambda s: -max([len(x) for x in s[1][1:] if is_bdd(x)] or [0]))
        head = cand[:per_family // 4]
        rest = cand[per_family // 4:]
        stride = max(1, len(rest) // max(1, per_family - len(head)))
        out += head + rest[::stride][:per_family - len(head)]
    return out


def _stack_sample(steps, per_family, exclude):
    """per stack-machine family: steps all of whose operands are small enough to be served by the explicit-stack machine under
    BDD_ENGINE=stack — the largest such operands first, then an even spread; steps already in `exclude` are not repeated"""
    seen = set(id(s) for s in exclude)
    out = []
    for fam in STACK_FAMILIES:
        cand = [s for s in steps if TWIN_OPS.get(s[1][0]) == fam and _twin_step(s, STACK_MAX_NODES) and id(s) not in seen]
        cand.sort(key=lambda s: -max([len(x) for x in s[1][1:] if is_bdd(x)] or [0]))
        head = cand[:per_family // 4]
        rest = cand[per_family // 4:]
        stride = max(1, len(rest) // max(1, per_family - len(head)))
        out += head + rest[::stride][:per_family - len(head)]
    return out


def engine_crosscheck(workdir, steps, limit=400, max_nodes=2000, twin_limit=100, twin_max_nodes=800, stack_limit=60):
    """Cross-checks the extracted engines on a sample of this run's steps.  Binary operators (fbin/bin/named): the
    reference engine (Model/Apply.v), the fast one (Model/ApplyFast.v, proved equal in Proofs/ApplyFast.v) and the
    step-faithful explicit-stack machine (Model/ApplyStack.v, one step = one iteration of the Rust loop, proved equal in
    Proofs/ApplyStack.v).  Size-limited operator, dry run, ternary operators and nested apply / quantifiers: the reference
    definitions (Model/Apply.v, Model/Apply3.v, Model/Nested.v) and their fast twins (Model/ApplyFast2.v,
    Model/Apply3Fast.v, Model/NestedFast.v; proved equal in Proofs/ApplyFast2.v, Proofs/Apply3Fast.v, Proofs/NestedFast.v);
    for all four of these families also the step-faithful explicit-stack machines of their own Rust loops
    (Model/ApplyLimitStack.v, Model/DryStack.v, Model/Apply3Stack.v, Model/NestedStack.v; proved equal in
    Proofs/ApplyLimitStack.v, Proofs/DryStack.v, Proofs/Apply3Stack.v, Proofs/NestedStack.v), which BDD_ENGINE=stack selects on
    operands of at most STACK_MAX_NODES nodes (above: the fast twin).  On top of the twin sample an extra sample of
    steps small enough for the machines is taken per stack family (_stack_sample), so that they are exercised up to their
    threshold.  All engines are forced on the same transcript lines (BDD_ENGINE=slow|fast|stack) and must print identical
    results, equal to the normal run's model answer.  Operands above max_nodes (twin families: twin_max_nodes) nodes are left
    to the fast engines only."""
    import subprocess
    cand = [s for s in steps if _small_binary(s, max_nodes)]
    twins = _twin_sample(steps, twin_limit, twin_max_nodes)
    twins += _stack_sample(steps, stack_limit, twins)
    CROSS_DETAIL["engine_crosscheck_twin_families"] = {fam: sum(1 for s in twins if TWIN_OPS[s[1][0]] == fam) for fam in TWIN_FAMILIES}
    # how many of the sampled steps are answered by an explicit-stack machine (not by the fast twin) under BDD_ENGINE=stack
    CROSS_DETAIL["engine_crosscheck_stack_machine_families"] = {
        fam: sum(1 for s in twins if TWIN_OPS[s[1][0]] == fam and _twin_step(s, STACK_MAX_NODES)) for fam in STACK_FAMILIES}
    if not cand and not twins:
        return 0, 0
    # the largest operands first (they are the ones served by the fast engine in the normal run), then an even spread
    cand.sort(key=lambda s: -max(len(x) for x in _binary_operands(s[1])))
    head = cand[:limit // 4]
    rest = cand[limit // 4:]
    stride = max(1, len(rest) // max(1, limit - len(head)))
    sample = head + rest[::stride][:limit - len(head)] + twins
    tpath = os.path.join(workdir, "engine_tr.txt")
    with open(tpath, "w") as f:
        for (cid, call, impl, model, aux) in sample:
            f.write(sx_str([cid, call, impl]) + "\n")
    outs = {}
    procs = {}
    for eng in ENGINES:
        env = dict(os.environ)
        env["BDD_ENGINE"] = eng
        procs[eng] = subprocess.Popen(["sh", "-c", "ulimit -s unlimited 2>/dev/null; exec \"$0\" \"$1\"", DRIVER_BIN, tpath],
                                      env=env, stdout=subprocess.PIPE, stderr=subprocess.PIPE, text=True)
    for eng in ENGINES:
        try:
            out, err = procs[eng].communicate(timeout=3600)
        except subprocess.TimeoutExpired:
            for q in procs.values():
                q.kill()
            raise
        if procs[eng].returncode != 0:
            raise RuntimeError("model driver crashed in the engine cross-check (%s): %s" % (eng, err[-2000:]))
        outs[eng] = [sx_parse(l)[1] for l in out.splitlines() if l]
    if any(len(outs[e]) != len(sample) for e in ENGINES):
        raise RuntimeError("engine cross-check: driver printed %s lines for %d steps" % ("/".join(str(len(outs[e])) for e in ENGINES), len(sample)))
    agree = sum(1 for i, st in enumerate(sample) if all(outs[e][i] == st[3] for e in ENGINES))
    return len(sample), agree


def _coq_bdd(x):
    return "[" + "; ".join("mkNode %d %d %d" % nd for nd in bdd_nodes(x)) + "]"


def _coq_tab(t, ctor="op_of_table"):
    return "(%s [" % ctor + "; ".join({"-": "None", "0": "Some false", "1": "Some true"}[c] for c in t[2:]) + "])"


def _coq_ov(x):
    return "None" if x == "N" else "(Some %s)" % x[1]


def _coq_nlist(x):
    return "[" + "; ".join(x[1:]) + "]"


def vm_crosscheck_twins(workdir, steps, per_family=6, max_nodes=40):
    """the same validation for the fast twins of the size-limited operator, the dry run, the ternary engine and the
    nested apply: a sample of small steps of each family is re-evaluated with vm_compute inside coqc with the REFERENCE
    definition and with the FAST twin — and, for the families that have one (STACK_FAMILIES), with the explicit-stack
    MACHINE of the loop; all must equal the extracted binary's answer"""
    sample = []
    for fam in TWIN_FAMILIES:
        sample += [s for s in steps if TWIN_OPS.get(s[1][0]) == fam and _twin_step(s, max_nodes)][:per_family]
    CROSS_DETAIL["vm_compute_crosscheck_twin_families"] = {fam: sum(1 for s in sample if TWIN_OPS[s[1][0]] == fam) for fam in TWIN_FAMILIES}
    if not sample:
        return 0, 0
    lines = ["From Coq Require Import List NArith. Import ListNotations.",
             "From BddVerif Require Import Model.Bdd Model.Apply Model.Ops Model.ApplyFast Model.ApplyFast2 Model.Apply3 Model.Apply3Fast Model.Nested Model.NestedFast.",
             "From BddVerif Require Import Model.ApplyLimitStack Model.DryStack Model.Apply3Stack Model.NestedStack.",
             "Open Scope N_scope.",
             "Definition tr (r : bdd) := map (fun n => (nvar n, nlow n, nhigh n)) r.",
             "Definition showb (o : outcome bdd) : N * list (N * N * N) := match o with Ok r => (0, tr r) | Panic => (1, []) | OutOfFuel => (2, []) end.",
             "Definition showl (o : outcome (option bdd)) : N * list (N * N * N) := match o with Ok (Some r) => (0, tr r) | Ok None => (3, []) | Panic => (1, []) | OutOfFuel => (2, []) end.",
             "Definition showd (o : outcome (option (bool * N))) : N * list (N * N * N) := match o with Ok (Some (f, c)) => (0, [((if f then 1 else 0), c, 0)]) | Ok None => (3, []) | Panic => (1, []) | OutOfFuel => (2, []) end."]
    nev = []   # number of evaluations per sampled step
    for (cid, call, impl, model, aux) in sample:
        op = call[0]
        sfxs = ("", "_fast", "_stack") if TWIN_OPS[op] in STACK_FAMILIES else ("", "_fast")
        nev.append(len(sfxs))
        for sfx in sfxs:
            tsfx = "_stack" if sfx == "_stack" else "_faithful" + sfx   # ternary / nested entry points: *_faithful, *_faithful_fast, *_stack
            if op in ("fbinlim", "binlim"):
                lim, t = call[1], call[2]
                fa, fb, fo, a, b = (call[3:8] if op == "fbinlim" else ["N", "N", "N"] + call[3:5])
                e = "showl (fused_binary_flip_op_with_limit%s %s %s %s %s %s %s %s)" % (sfx, lim, _coq_bdd(a), _coq_bdd(b), _coq_ov(fa), _coq_ov(fb), _coq_ov(fo), _coq_tab(t))
            elif op in ("dry", "drybin"):
                lim, t = call[1], call[2]
                fa, fb, fo, a, b = (call[3:8] if op == "dry" else ["N", "N", "N"] + call[3:5])
                e = "showd (check_fused_binary_flip_op%s %s %s %s %s %s %s %s)" % (sfx, lim, _coq_bdd(a), _coq_bdd(b), _coq_ov(fa), _coq_ov(fb), _coq_ov(fo), _coq_tab(t))
            elif op == "ite":
                e = "showb (if_then_else%s %s %s %s)" % (tsfx, _coq_bdd(call[1]), _coq_bdd(call[2]), _coq_bdd(call[3]))
            elif op == "tern":
                e = "showb (ternary_op%s %s %s %s %s)" % (tsfx, _coq_bdd(call[2]), _coq_bdd(call[3]), _coq_bdd(call[4]), _coq_tab(call[1], "op3_of_table"))
            elif op == "ftern":
                e = "showb (fused_ternary_flip_op%s %s %s %s %s %s %s %s %s)" % (
                    tsfx, _coq_bdd(call[6]), _coq_bdd(call[7]), _coq_bdd(call[8]), _coq_ov(call[2]), _coq_ov(call[3]), _coq_ov(call[4]), _coq_ov(call[5]),
                    _coq_tab(call[1], "op3_of_table"))
            elif op in ("exists", "for_all"):
                e = "showb (bdd_%s%s %s %s)" % (op, tsfx, _coq_bdd(call[1]), _coq_nlist(call[2]))
            elif op in ("bin_exists", "bin_for_all"):
                e = "showb (binary_op_with_%s%s %s %s %s %s)" % (op[4:], tsfx, _coq_bdd(call[2]), _coq_bdd(call[3]), _coq_tab(call[1]), _coq_nlist(call[4]))
            else:   # nested
                trig = "[" + "; ".join("true" if c == "1" else "false" for c in call[5][1:]) + "]"
                e = "showb (nested_apply%s %s %s %s %s %s)" % (tsfx, _coq_bdd(call[3]), _coq_bdd(call[4]), trig, _coq_tab(call[1]), _coq_tab(call[2]))
            lines.append("Eval vm_compute in %s." % e)
    path = os.path.join(workdir, "cases_twins.v")
    open(path, "w").write("\n".join(lines) + "\n")
    rc, out, err = run_cmd(["timeout", "600", "coqc", "-noglob", "-Q", COQ_DIR, "BddVerif", path], cwd=workdir, timeout=700)
    if rc != 0:
        raise RuntimeError("vm_compute cross-check (fast twins) failed to compile: " + (out + err)[-2000:])
    vals = re.findall(r"=\s*\((\d+),\s*(\[.*?\])\)\s*:\s*N \* list", out, flags=re.S)
    if len(vals) != sum(nev):
        raise RuntimeError("vm_compute cross-check (fast twins, stack machines): %d answers for %d evaluations" % (len(vals), sum(nev)))

    def triples(v):
        return [tuple(int(x) for x in re.findall(r"\d+", t)) for t in re.findall(r"\(([^()]*)\)", v)]

    def want_of(model):
        if model == "PANIC":
            return (1, [])
        if model == "FUEL":
            return (2, [])
        if model == "N":
            return (3, [])
        mb = unwrap_bdd(model)
        if mb is not None:
            return (0, bdd_nodes(mb))
        if isinstance(model, list) and model[0] == "S" and isinstance(model[1], list) and model[1][0] == "P":
            return (0, [(1 if model[1][1] == "T" else 0, int(model[1][2]), 0)])
        return None

    agree = 0
    off = 0
    for i, (cid, call, impl, model, aux) in enumerate(sample):
        want = want_of(model)
        if want is not None and all((int(vals[off + j][0]), triples(vals[off + j][1])) == want for j in range(nev[i])):
            agree += 1
        off += nev[i]
    CROSS_DETAIL["vm_compute_crosscheck_stack_machine_steps"] = sum(1 for k in nev if k == 3)
    return len(sample), agree


def vm_crosscheck(workdir, steps, limit=40):
    """Validates extraction against kernel evaluation: re-evaluates a sample of fbin/bin/named steps (small
    operands) with vm_compute inside coqc, with the reference engine, the fast engine and the explicit-stack
    machine, and compares all three with the extracted binary's answers; then the same for the fast twins of the
    other loops (vm_crosscheck_twins)."""
    n1, a1 = _vm_crosscheck_binary(workdir, steps, limit)
    n2, a2 = vm_crosscheck_twins(workdir, steps)
    return n1 + n2, a1 + a2


def _vm_crosscheck_binary(workdir, steps, limit=40):
    sample = [s for s in steps if _small_binary(s, 300)][:limit]
    if not sample:
        return 0, 0
    lines = ["From Coq Require Import List NArith. Import ListNotations.",
             "From BddVerif Require Import Model.Bdd Model.Apply Model.ApplyFast Model.ApplyStack.", "Open Scope N_scope.",
             "Definition show (o : outcome bdd) : list (N * N * N) := match o with Ok r => map (fun n => (nvar n, nlow n, nhigh n)) r | _ => [] end."]

    def coq_bdd(x):
        return "[" + "; ".join("mkNode %d %d %d" % nd for nd in bdd_nodes(x)) + "]"

    def coq_tab(t):
        return "(op_of_table [" + "; ".join({"-": "None", "0": "Some false", "1": "Some true"}[c] for c in t[2:]) + "])"

    def coq_ov(x):
        return "None" if x == "N" else "(Some %s)" % x[1]

    named = {"and": "op_and", "or": "op_or", "imp": "op_imp", "iff": "op_iff", "xor": "op_xor", "and_not": "op_and_not"}
    for (cid, call, impl, model, aux) in sample:
        for sfx in VM_SUFFIXES:
            if call[0] == "fbin":
                t, fa, fb, fo, a, b = call[1:7]
                lines.append("Eval vm_compute in show (fused_binary_flip_op%s %s %s %s %s %s %s)." % (sfx, coq_bdd(a), coq_bdd(b), coq_ov(fa), coq_ov(fb), coq_ov(fo), coq_tab(t)))
            elif call[0] == "bin":
                t, a, b = call[1:4]
                lines.append("Eval vm_compute in show (binary_op%s %s %s %s)." % (sfx, coq_bdd(a), coq_bdd(b), coq_tab(t)))
            else:
                lines.append("Eval vm_compute in show (binary_op%s %s %s %s)." % (sfx, coq_bdd(call[2]), coq_bdd(call[3]), named[call[1]]))
    path = os.path.join(workdir, "cases.v")
    open(path, "w").write("\n".join(lines) + "\n")
    rc, out, err = run_cmd(["timeout", "600", "coqc", "-noglob", "-Q", COQ_DIR, "BddVerif", path], cwd=workdir, timeout=700)
    if rc != 0:
        raise RuntimeError("vm_compute cross-check failed to compile: " + (out + err)[-2000:])
    vals = re.findall(r"=\s*(\[.*?\])\s*:\s*list", out, flags=re.S)
    ne = len(VM_SUFFIXES)
    if len(vals) != ne * len(sample):
        raise RuntimeError("vm_compute cross-check: %d answers for %d evaluations" % (len(vals), ne * len(sample)))

    def triples(v):
        return [tuple(int(x) for x in re.findall(r"\d+", t)) for t in re.findall(r"\(([^()]*)\)", v)]

    agree = 0
    for i, (cid, call, impl, model, aux) in enumerate(sample):
        mb = unwrap_bdd(model)
        want = bdd_nodes(mb) if mb is not None else []
        if all(triples(vals[ne * i + j]) == want for j in range(ne)):
            agree += 1
    return len(sample), agree


# ----------------------------------------------------------------------------- known findings
def load_known_findings():
    path = os.path.join(VERIF, "known_findings.txt")
    findings = []
    if os.path.exists(path):
        for line in open(path):
            line = line.strip()
            if line.startswith("finding:"):
                m = re.match(r"finding:\s*property=(\w+)\s+key=(\S+)\s+(.*)", line)
                if m:
                    findings.append({"property": m.group(1), "key": m.group(2), "text": m.group(3)})
    return findings


def step_key(call):
    return hashlib.sha256(sx_str(call).encode()).hexdigest()[:16]


# ----------------------------------------------------------------------------- verdict + evidence
class Verdict:
    def __init__(self, pid, tier, seed):
        self.pid, self.tier, self.seed = pid, tier, seed
        self.violations = []      # dicts
        self.known = []
        self.evaluations = 0
        self.nontrivial = set()
        self.samples = []
        self.dist = {}
        self.skipped = 0
        self.notes = []

    def count(self, key, n=1):
        self.dist[key] = self.dist.get(key, 0) + n


def write_replay(pid, n, payload):
    d = os.path.join(VERIF, "evidence", "replay")
    os.makedirs(d, exist_ok=True)
    path = os.path.join(d, "%s-%d.json" % (pid, n))
    json.dump(payload, open(path, "w"), indent=1)
    return path


def violation_hang(pid, st):
    from props.base import violation
    return violation(pid, st, "the operation did not return within the time limit of the harness (VERIF_HANG_SECS, default 120 s): non-termination",
                     oracle={"model_result": sx_str(st[3])[:300]}, confirmed=True, relation="every operation returns")


def violation_abort(pid, st):
    from props.base import violation
    return violation(pid, st, "the library took the whole process down inside this call (allocation failure / abort / stack overflow / signal): "
                     "no property tolerates that on inputs inside its quantifier", oracle={"model_result": sx_str(st[3])[:300]}, confirmed=True,
                     relation="every operation returns or panics")


def finish(v, coq, t0, rule, exhaustive=False, extra=None, cross=(0, 0), engines=(0, 0)):
    """prints VIOLATION / KNOWN-FINDING lines, writes the evidence file, returns exit code"""
    exit_code = 0
    nviol = 0
    known = load_known_findings()
    lines = []
    if coq["failed"]:
        # a proof obligation no longer checks: report (a failing input, if any, is in the step violations below)
        if not v.violations:
            path = write_replay(v.pid, 0, {"property": v.pid, "kind": "proof-obligation", "failed": coq["failed"], "log": coq.get("log", "")})
            lines.append("VIOLATION property=%s replay=%s no-failing-input-found" % (v.pid, path))
            nviol += 1
    for i, viol in enumerate(v.violations):
        kf = [k for k in known if k["property"] == v.pid and k["key"] == viol.get("key")]
        if kf:
            lines.append("KNOWN-FINDING: property=%s %s" % (v.pid, kf[0]["text"]))
            continue
        if nviol >= 5:
            nviol += 1
            continue
        path = write_replay(v.pid, nviol + 1, viol)
        suffix = "" if viol.get("confirmed") else " no-failing-input-found"
        lines.append("VIOLATION property=%s replay=%s%s" % (v.pid, path, suffix))
        nviol += 1
    for l in lines:
        print(l)
    if nviol:
        exit_code = 1
    cov = {
        "obligations": coq["obligations"] + 1,
        "discharged": coq["discharged"] + (0 if v.violations else 1),
        "checker_cmd": "make -C coq Properties/%s.vo && coqc -Q coq BddVerif coq/Properties/%s.v (Print Assumptions audit) ; correspondence: harness/target/release/bddh | driver/driver" % (v.pid, v.pid),
        "trusted_base": TRUSTED_BASE,
        "theorems": coq["theorems"],
        "assumptions_reported": coq["assumptions"],
        "proof_failures": coq["failed"],
        "translators": coq.get("translators", {}),
        "evaluations": v.evaluations,
        "distinct_nontrivial": len(v.nontrivial),
        "rule": rule,
        "samples": v.samples[:6],
        "traces_validated_against_impl": v.evaluations,
        "input_distribution": v.dist,
        "skipped_steps": v.skipped,
        "exhaustive": exhaustive,
        "vm_compute_crosscheck": {"cases": cross[0], "agree": cross[1]},
        "engine_crosscheck_fast_vs_reference": {"cases": engines[0], "agree": engines[1]},
        "engine_crosscheck_engines": list(ENGINES),
        "notes": v.notes,
    }
    cov.update(CROSS_DETAIL)
    if extra:
        cov.update(extra)
    ev = {
        "property_id": v.pid,
        "tier": v.tier,
        "seed": v.seed,
        "level": "proof",
        "coverage": cov,
        "assumptions": TRUSTED_BASE,
        "wall_s": round(time.time() - t0, 2),
        "violations": nviol,
    }
    os.makedirs(os.path.join(VERIF, "evidence"), exist_ok=True)
    json.dump(ev, open(os.path.join(VERIF, "evidence", v.pid + ".json"), "w"), indent=1)
    return exit_code
