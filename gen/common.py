"""Shared pieces of the check driver: s-expressions, an independent raw-array evaluator
(the failing-input oracle), canonical-array construction from truth tables (input generation only),
non-canonical variants of valid diagrams, process runners."""
import itertools
import os
import random
import subprocess
import sys
import time

VERIF = os.path.dirname(os.path.dirname(os.path.abspath(__file__)))
HARNESS_DIR = os.path.join(VERIF, "harness")
HARNESS_BIN = os.path.join(HARNESS_DIR, "target", "release", "bddh")
DRIVER_DIR = os.path.join(VERIF, "driver")
DRIVER_BIN = os.path.join(DRIVER_DIR, "driver")
COQ_DIR = os.path.join(VERIF, "coq")


# ----------------------------------------------------------------------------- s-expressions
def sx_parse(src):
    pos = 0
    n = len(src)

    def go():
        nonlocal pos
        while pos < n and src[pos] in " \t":
            pos += 1
        if src[pos] == "(":
            pos += 1
            items = []
            while True:
                while pos < n and src[pos] in " \t":
                    pos += 1
                if src[pos] == ")":
                    pos += 1
                    return items
                items.append(go())
        st = pos
        while pos < n and src[pos] not in " \t()":
            pos += 1
        return src[st:pos]

    return go()


def sx_str(x):
    if isinstance(x, str):
        return x
    if isinstance(x, int):
        return str(x)
    return "(" + " ".join(sx_str(y) for y in x) + ")"


def is_bdd(x):
    return isinstance(x, list) and len(x) >= 1 and x[0] == "b"


def bdd_nodes(x):
    """(b v l h ...) -> list of (v,l,h) ints"""
    it = [int(t) for t in x[1:]]
    return [tuple(it[i:i + 3]) for i in range(0, len(it), 3)]


def bdd_sx(nodes):
    out = ["b"]
    for (v, l, h) in nodes:
        out += [str(v), str(l), str(h)]
    return out


def unwrap_bdd(x):
    """the Bdd inside a result, if any: b / (S b) / (OK b)"""
    if is_bdd(x):
        return x
    if isinstance(x, list) and len(x) == 2 and x[0] in ("S", "OK") and is_bdd(x[1]):
        return x[1]
    return None


def optvar(x):
    return "N" if x is None else ["S", str(x)]


def hexs(b):
    if isinstance(b, str):
        b = b.encode("utf-8")
    return "h:" + b.hex()


def unhex(a):
    return bytes.fromhex(a[2:])


# ----------------------------------------------------------------------------- raw-array oracle
class EvalDiverges(Exception):
    pass


def raw_eval(nodes, val):
    """Independent evaluator over a raw node array. val: sequence of bools (missing => False).
    Raises EvalDiverges when more than len(nodes)+2 steps are needed or an index is out of range."""
    p = len(nodes) - 1
    steps = 0
    while p >= 2:
        if p >= len(nodes):
            raise EvalDiverges("pointer out of range")
        v, l, h = nodes[p]
        bit = val[v] if v < len(val) else False
        p = h if bit else l
        steps += 1
        if steps > len(nodes) + 2:
            raise EvalDiverges("walk does not terminate")
    return p == 1


def raw_tt(nodes, nv=None):
    """truth table as a tuple of bools; index i has variable 0 as most significant bit"""
    if nv is None:
        nv = nodes[0][0]
    out = []
    for i in range(1 << nv):
        val = [(i >> (nv - 1 - k)) & 1 == 1 for k in range(nv)]
        out.append(raw_eval(nodes, val))
    return tuple(out)


def tt_str(tt):
    return "".join("1" if b else "0" for b in tt)


def val_of_index(i, nv):
    return [(i >> (nv - 1 - k)) & 1 == 1 for k in range(nv)]


def vbits(val):
    return "v" + "".join("1" if b else "0" for b in val)


# ----------------------------------------------------------------------------- building inputs
def bdd_from_fn(nv, variables, fn):
    """Canonical array (library layout: DFS post-order, high child first) of the function
    fn(assignment dict var->bool) that depends only on `variables` (sorted list)."""
    variables = sorted(variables)
    nodes = [(nv, 0, 0), (nv, 1, 1)]
    index = {}
    memo = {}

    def build(k, assign):
        if k == len(variables):
            return 1 if fn(dict(assign)) else 0
        key = (k, tuple(sorted(assign.items())))
        x = variables[k]
        a1 = dict(assign)
        a1[x] = True
        hi = build(k + 1, a1)
        a0 = dict(assign)
        a0[x] = False
        lo = build(k + 1, a0)
        if lo == hi:
            return lo
        nd = (x, lo, hi)
        if nd in index:
            return index[nd]
        nodes.append(nd)
        index[nd] = len(nodes) - 1
        return index[nd]

    root = build(0, {})
    if root == 0:
        return [(nv, 0, 0)]
    if root == 1:
        return [(nv, 0, 0), (nv, 1, 1)]
    return nodes


def redundant_topo_variant(rng, nodes, k=1, allow_false=False):
    """a valid NON-REDUCED array denoting the same function that keeps the other structural habits of library output:
    children are stored before parents, the root is last, every node is reachable; k redundant tests (x, c, c) are spliced
    into edges parent -> c that skip the level x (c is never the 0 terminal unless allow_false)"""
    nodes = list(nodes)
    if len(nodes) < 3:
        return nodes
    for _ in range(k):
        cands = []
        for q in range(2, len(nodes)):
            for side in (1, 2):
                c = nodes[q][side]
                if c == 0 and not allow_false:
                    continue
                lo, hi = nodes[q][0] + 1, nodes[c][0] - 1
                if lo <= hi:
                    cands.append((q, side, c, lo, hi))
        if not cands:
            break
        q, side, c, lo, hi = rng.choice(cands)
        x = rng.randint(lo, hi)
        # insert the new node immediately before its parent q: indices >= q shift by one
        new = (x, c, c)
        out = nodes[:q] + [new]
        for v, l, h in nodes[q:]:
            out.append((v, l + 1 if l >= q else l, h + 1 if h >= q else h))
        nd = list(out[q + 1])
        nd[side] = q
        out[q + 1] = tuple(nd)
        nodes = out
    return nodes


def raw_implies(a, b):
    """a => b for two valid raw arrays over the same variable count, by a memoised product walk (independent of model and
    library; linear in the number of reachable node pairs, any number of variables)"""
    import sys
    nv = a[0][0]
    memo = {}
    la, lb = len(a), len(b)

    def var(nodes, p, n):
        return nv if p < 2 or n == 1 else nodes[p][0]
    stack = [(la - 1 if la > 1 else 0, lb - 1 if lb > 1 else 0)]
    seen = set()
    while stack:
        p, q = stack.pop()
        if (p, q) in seen:
            continue
        seen.add((p, q))
        pa = p if la > 1 else 0
        qb = q if lb > 1 else 0
        if pa == 0 or qb == 1:
            continue
        if pa == 1 and qb == 0:
            return False
        va = nv if pa < 2 else a[pa][0]
        vb = nv if qb < 2 else b[qb][0]
        v = min(va, vb)
        pl, ph = (a[pa][1], a[pa][2]) if va == v else (pa, pa)
        ql, qh = (b[qb][1], b[qb][2]) if vb == v else (qb, qb)
        stack.append((pl, ql))
        stack.append((ph, qh))
    return True


def bdd_from_graph(nv, root, expand):
    """Canonical array (library layout: DFS post-order, high child first) of the function described by a state graph:
    expand(state) -> True | False | (var, low_state, high_state), variables increasing along edges.  Nodes are
    hash-consed, so different states may denote the same function.  Recursion depth = number of levels."""
    nodes = [(nv, 0, 0), (nv, 1, 1)]
    index, memo = {}, {}

    def build(s):
        if s is True or s is False:
            return 1 if s else 0
        r = memo.get(s)
        if r is not None:
            return r
        e = expand(s)
        if e is True or e is False:
            r = 1 if e else 0
        else:
            x, lo_s, hi_s = e
            hi = build(hi_s)
            lo = build(lo_s)
            if lo == hi:
                r = lo
            else:
                nd = (x, lo, hi)
                r = index.get(nd)
                if r is None:
                    nodes.append(nd)
                    r = index[nd] = len(nodes) - 1
        memo[s] = r
        return r

    root = build(root)
    if root == 0:
        return [(nv, 0, 0)]
    if root == 1:
        return [(nv, 0, 0), (nv, 1, 1)]
    return nodes


def pairing_bdd(n, reversed_partner=False):
    """AND_i (x_i <=> x_partner(i)) over 2n variables, partner(i) = n+i (or 2n-1-i): all x_i ordered before their partners,
    so the diagram has exactly 3*2^n - 1 nodes (a complete tree over x_0..x_{n-1}, then one comparison chain per suffix)"""
    def expand(s):
        kind, k, bits = s          # bits: tuple of the x_i read so far (top) / still to be compared (bottom)
        if kind == "t":
            if k == n:
                return expand(("b", 0, bits))
            return (k, ("t", k + 1, bits + (False,)), ("t", k + 1, bits + (True,)))
        if k == n:
            return True
        if reversed_partner:      # level n+k compares with x_{n-1-k}: the LAST pending bit
            want, rest = bits[-1], bits[:-1]
        else:                     # level n+k compares with x_k: the FIRST pending bit
            want, rest = bits[0], bits[1:]
        nxt = ("b", k + 1, rest)
        return (n + k, False, nxt) if want else (n + k, nxt, False)
    return bdd_from_graph(2 * n, ("t", 0, ()), expand)


def block_equality_bdd(n):
    """X == Y for X = x_0..x_{n-1}, Y = x_{n+1}..x_{2n} over 2n+1 variables (x_n is left free for a lone "switch" variable
    between the blocks): 3*2^n - 1 nodes"""
    def expand(s):
        kind, k, bits = s
        if kind == "t":
            if k == n:
                return expand(("b", 0, bits))
            return (k, ("t", k + 1, bits + (False,)), ("t", k + 1, bits + (True,)))
        if k == n:
            return True
        want, rest = bits[0], bits[1:]
        nxt = ("b", k + 1, rest)
        return (n + 1 + k, False, nxt) if want else (n + 1 + k, nxt, False)
    return bdd_from_graph(2 * n + 1, ("t", 0, ()), expand)


def bdd_from_tt(nv, variables, ttbits):
    """ttbits: sequence of 2^k bools over `variables` (first variable most significant)."""
    variables = sorted(variables)
    k = len(variables)

    def fn(assign):
        i = 0
        for x in variables:
            i = (i << 1) | (1 if assign[x] else 0)
        return ttbits[i]

    return bdd_from_fn(nv, variables, fn)


def structured_tt(rng, k):
    """truth table (first variable most significant) of a STRUCTURED function of k variables: symmetric functions (parity,
    threshold, exactly-m, majority), self-dual functions, functions invariant under flipping one variable together with the
    output, cubes and clauses, a multiplexer, equality of two halves — the shapes random tables practically never produce"""
    n = 1 << k
    ones = lambda i: bin(i).count("1")
    kind = rng.choice(["parity", "threshold", "exactly", "majority", "selfdual", "flipsym", "cube", "clause", "mux", "halves", "monotone"])
    if k == 0:
        return [rng.random() < 0.5]
    if kind == "parity":
        odd = rng.random() < 0.5
        return [(ones(i) % 2 == 1) == odd for i in range(n)]
    if kind == "threshold":
        m = rng.randint(0, k + 1)
        return [ones(i) >= m for i in range(n)]
    if kind == "exactly":
        m = rng.randint(0, k)
        return [ones(i) == m for i in range(n)]
    if kind == "majority":
        return [2 * ones(i) > k for i in range(n)]
    if kind == "selfdual":            # f(not x) = not f(x): choose the lower half freely
        tt = [False] * n
        for i in range(n // 2):
            tt[i] = rng.random() < 0.5
            tt[n - 1 - i] = not tt[i]
        return tt
    if kind == "flipsym":             # f(x with variable j flipped) = not f(x)
        j = rng.randrange(k)
        bit = 1 << (k - 1 - j)
        tt = [False] * n
        for i in range(n):
            if not i & bit:
                tt[i] = rng.random() < 0.5
                tt[i | bit] = not tt[i]
        return tt
    if kind in ("cube", "clause"):
        lits = [(j, rng.random() < 0.5) for j in range(k) if rng.random() < 0.7]
        sat = lambda i: [bool(i >> (k - 1 - j) & 1) == c for j, c in lits]
        return [all(sat(i)) if kind == "cube" else any(sat(i)) for i in range(n)]
    if kind == "mux" and k >= 3:      # first variable selects between two functions of the rest
        half = n // 2
        g = [rng.random() < 0.5 for _ in range(half)]
        h = g if rng.random() < 0.2 else [rng.random() < 0.5 for _ in range(half)]
        return g + h
    if kind == "halves" and k >= 2:   # the first half of the variables equals (or differs everywhere from) the second half
        a = k // 2
        eq = rng.random() < 0.5
        out = []
        for i in range(n):
            bits = [bool(i >> (k - 1 - j) & 1) for j in range(k)]
            same = all(bits[j] == bits[a + j] for j in range(a))
            out.append(same == eq)
        return out
    # monotone: an upward closed set generated by a few random minterms
    gens = [rng.randrange(n) for _ in range(rng.randint(1, 3))]
    return [any(i & g == g for g in gens) for i in range(n)]


def random_bdd(rng, nv, max_support=None, density=None):
    """random function over a random subset of the variables (skipped levels are common); one in six is a structured function
    (symmetric, self-dual, flip-symmetric, cube, clause, multiplexer, ...: `structured_tt`)"""
    if max_support is None:
        max_support = min(nv, 5)
    k = rng.randint(0, min(nv, max_support))
    variables = sorted(rng.sample(range(nv), k))
    if density is None and rng.random() < 1 / 6:
        return bdd_from_tt(nv, variables, structured_tt(rng, k))
    p = density if density is not None else rng.choice([0.15, 0.3, 0.5, 0.7, 0.85])
    tt = [rng.random() < p for _ in range(1 << k)]
    return bdd_from_tt(nv, variables, tt)


def all_functions(nv):
    """every function of nv variables as canonical arrays (nv <= 3 in practice)"""
    out = []
    for bits in itertools.product([False, True], repeat=1 << nv):
        out.append(bdd_from_tt(nv, list(range(nv)), list(bits)))
    return out


def is_wf(nodes):
    """independent validity check (ordered, links in range, terminals)"""
    if len(nodes) < 1:
        return False
    nv = nodes[0][0]
    if nodes[0] != (nv, 0, 0):
        return False
    if len(nodes) >= 2 and nodes[1] != (nv, 1, 1):
        return False
    for p in range(2, len(nodes)):
        v, l, h = nodes[p]
        if not (v < nv and l < len(nodes) and h < len(nodes)):
            return False
        if not (v < nodes[l][0] and v < nodes[h][0]):
            return False
    return True


def raw_count(nodes):
    """independent exact model count over a raw array (Python ints are unbounded): memoised recursion from the root with
    level-gap weights, one value per node (linear in the node count however much sharing there is); None for an invalid
    array; cross-checked against the truth table when the variable count is small"""
    if not is_wf(nodes):
        return None
    nv = nodes[0][0]
    memo = {}

    def cnt(p):      # number of assignments of variables var(p)..nv-1 satisfying the sub-diagram
        if p == 0:
            return 0
        if p == 1:
            return 1
        if p in memo:
            return memo[p]
        v, l, h = nodes[p]
        vl = nodes[l][0]
        vh = nodes[h][0]
        r = cnt(l) * (1 << (vl - v - 1)) + cnt(h) * (1 << (vh - v - 1))
        memo[p] = r
        return r
    root = len(nodes) - 1
    sys.setrecursionlimit(max(10000, 4 * len(nodes), sys.getrecursionlimit()))
    total = cnt(root) * (1 << nodes[root][0]) if root >= 2 else (cnt(root) << nv)
    if nv <= 12:
        assert total == sum(1 for t in raw_tt(nodes) if t)
    return total


def noncanonical_variant(rng, nodes, kind=None):
    """a valid (ordered, in-range) but non-canonical array denoting the same function"""
    if len(nodes) < 3:
        return list(nodes)
    nodes = list(nodes)
    nv = nodes[0][0]
    if kind is None:
        kind = rng.choice(["dup", "unreach", "redundant", "shuffle", "dup", "redundant"])
    root = len(nodes) - 1
    if kind == "dup":
        # duplicate a decision node, redirect one parent edge to the copy; root stays last
        p = rng.randrange(2, len(nodes))
        parents = [(q, side) for q in range(2, len(nodes)) for side in (1, 2) if nodes[q][side] == p]
        if not parents:
            kind = "unreach"
        else:
            q, side = rng.choice(parents)
            copy_idx = len(nodes)
            nodes.append(nodes[p])
            nd = list(nodes[q])
            nd[side] = copy_idx
            nodes[q] = tuple(nd)
            # move the root to the end again
            nodes.append(nodes[root])
            # old root slot stays as an (unreachable, but valid) duplicate
            return nodes
    if kind == "redundant":
        # insert a redundant test on a variable strictly between a parent and its child
        cands = []
        for q in range(2, len(nodes)):
            for side in (1, 2):
                c = nodes[q][side]
                lo = nodes[q][0] + 1
                hi = nodes[c][0] - 1
                if lo <= hi:
                    cands.append((q, side, c, lo, hi))
        if cands:
            q, side, c, lo, hi = rng.choice(cands)
            x = rng.randint(lo, hi)
            idx = len(nodes)
            nodes.append((x, c, c))
            nd = list(nodes[q])
            nd[side] = idx
            nodes[q] = tuple(nd)
            nodes.append(nodes[root])
            return nodes
        kind = "unreach"
    if kind == "shuffle":
        # permute the decision nodes (root stays last): children may now follow parents
        body = list(range(2, root))
        perm = body[:]
        rng.shuffle(perm)
        newidx = {0: 0, 1: 1, root: root}
        for old, new in zip(body, perm):
            newidx[old] = new
        out = [None] * len(nodes)
        out[0], out[1] = nodes[0], nodes[1]
        for old in range(2, len(nodes)):
            v, l, h = nodes[old]
            out[newidx[old]] = (v, newidx[l], newidx[h])
        return out
    # unreachable extra node before the root
    v = rng.randrange(0, nv) if nv > 0 else 0
    # children must have larger variables: use terminals
    extra = (v, 0, 1)
    return nodes[:root] + [extra] + [nodes[root]]


def partial_table(rng, conn, eagerness=None):
    """A consistent partial operator table (9 entries, index 3*i(l)+i(r), i(None)=0,i(F)=1,i(T)=2)
    for the binary connective conn (4 bools indexed 2*l+r): total on total inputs, and answering on
    partial inputs only where every completion agrees; each such entry is included with
    probability `eagerness` (None => random per table)."""
    if eagerness is None:
        eagerness = rng.choice([0.0, 1.0, 0.5, 0.5])
    opts = [None, False, True]
    s = ""
    for l in opts:
        for r in opts:
            ls = [l] if l is not None else [False, True]
            rs = [r] if r is not None else [False, True]
            vals = {conn[2 * int(a) + int(b)] for a in ls for b in rs}
            if l is not None and r is not None:
                s += "1" if conn[2 * int(l) + int(r)] else "0"
            elif len(vals) == 1 and rng.random() < eagerness:
                s += "1" if vals.pop() else "0"
            else:
                s += "-"
    return "t:" + s


def partial_table3(rng, conn, eagerness=None):
    if eagerness is None:
        eagerness = rng.choice([0.0, 1.0, 0.5, 0.5])
    opts = [None, False, True]
    s = ""
    for a in opts:
        for b in opts:
            for c in opts:
                as_ = [a] if a is not None else [False, True]
                bs = [b] if b is not None else [False, True]
                cs = [c] if c is not None else [False, True]
                vals = {conn[4 * int(x) + 2 * int(y) + int(z)] for x in as_ for y in bs for z in cs}
                if a is not None and b is not None and c is not None:
                    s += "1" if conn[4 * int(a) + 2 * int(b) + int(c)] else "0"
                elif len(vals) == 1 and rng.random() < eagerness:
                    s += "1" if vals.pop() else "0"
                else:
                    s += "-"
    return "t:" + s


def conn_of_table(t):
    """the Boolean connective (tuple of 4 bools, index 2*l+r) of a 9-entry table"""
    s = t[2:]
    return tuple(s[3 * (1 + l) + (1 + r)] == "1" for l in (0, 1) for r in (0, 1))


def conn3_of_table(t):
    s = t[2:]
    return tuple(s[9 * (1 + a) + 3 * (1 + b) + (1 + c)] == "1" for a in (0, 1) for b in (0, 1) for c in (0, 1))


# ----------------------------------------------------------------------------- large operands (truth tables as byte strings / big integers)
def big_bdd_from_tt(nv, ttbytes):
    """Canonical array (library layout: DFS post-order, high child first, root last) of the function of
    nv >= 3 variables whose truth table is `ttbytes` (2^nv bits, variable 0 most significant in the index,
    index j stored at bit 7-(j&7) of byte j>>3).  Iterative: level-by-level unique table bottom-up (the
    three lowest levels through a per-byte cache), then an explicit-stack DFS for the layout."""
    assert nv >= 3 and len(ttbytes) == (1 << nv) // 8
    uniq = {}
    absn = [None, None]   # abstract id -> (var, lo id, hi id); ids 0/1 are the terminals

    def mk(k, lo, hi):
        if lo == hi:
            return lo
        key = (k, lo, hi)
        a = uniq.get(key)
        if a is None:
            a = len(absn)
            absn.append(key)
            uniq[key] = a
        return a

    bytecache = {}

    def of_byte(bv):
        r = bytecache.get(bv)
        if r is None:
            bits = [(bv >> (7 - j)) & 1 for j in range(8)]
            l1 = [mk(nv - 1, bits[2 * q], bits[2 * q + 1]) for q in range(4)]
            l2 = [mk(nv - 2, l1[2 * q], l1[2 * q + 1]) for q in range(2)]
            r = mk(nv - 3, l2[0], l2[1])
            bytecache[bv] = r
        return r

    ids = [of_byte(bv) for bv in ttbytes]
    for k in range(nv - 4, -1, -1):
        ids = [mk(k, ids[2 * i], ids[2 * i + 1]) for i in range(1 << k)]
    root = ids[0]
    if root == 0:
        return [(nv, 0, 0)]
    out = [(nv, 0, 0), (nv, 1, 1)]
    if root == 1:
        return out
    index = {0: 0, 1: 1}
    stack = [(root, False)]
    while stack:
        a, children_done = stack.pop()
        if a in index:
            continue
        k, lo, hi = absn[a]
        if children_done:
            index[a] = len(out)
            out.append((k, index[lo], index[hi]))
        else:
            stack.append((a, True))
            stack.append((lo, False))
            stack.append((hi, False))   # popped first: high subtree is laid out first
    return out


def big_random_bdd(rng, nv):
    return big_bdd_from_tt(nv, rng.getrandbits(1 << nv).to_bytes((1 << nv) // 8, "big"))



# Truth tables of nv >= 3 variables as Python integers of 2^nv bits: the value at index j (variable 0 most significant
# in j) is bit (2^nv - 1 - j) of the integer, i.e. int.from_bytes(ttbytes, "big") for the byte layout of
# big_bdd_from_tt.  Pointwise connectives are the integer bit operations; used by the generators to know the exact
# size of a large result in advance and by the oracles as an exact, independent description of the expected function.
def tt_mask(nv):
    return (1 << (1 << nv)) - 1


def tt_var(nv, k):
    """truth table of the projection x_k"""
    m = 1 << (nv - 1 - k)          # run length: m indices with x_k = 0, then m with x_k = 1
    if m >= 8:
        unit = b"\x00" * (m // 8) + b"\xff" * (m // 8)
    else:
        unit = bytes([{4: 0x0F, 2: 0x33, 1: 0x55}[m]])
    return int.from_bytes(unit * ((1 << nv) // 8 // len(unit)), "big")


def tt_flip(nv, t, k):
    """truth table of v -> t(v with x_k inverted); k None = identity"""
    if k is None:
        return t
    m = 1 << (nv - 1 - k)
    vk = tt_var(nv, k)
    return ((t & vk) << m) | ((t & ~vk & tt_mask(nv)) >> m)


def tt_quant(nv, t, k, universal=False):
    """truth table of exists x_k . t (or forall)"""
    m = 1 << (nv - 1 - k)
    vk = tt_var(nv, k)
    f1 = t & vk
    f0 = t & ~vk & tt_mask(nv)
    c1 = f1 | (f1 << m)            # cofactor x_k = 1 spread over both halves
    c0 = f0 | (f0 >> m)
    return (c0 & c1) if universal else (c0 | c1)


def tt_of_small(nv, variables, bits):
    """truth table of the function over the sorted `variables` whose table is `bits` (first variable most significant)"""
    variables = sorted(variables)
    mask = tt_mask(nv)
    vs = [tt_var(nv, x) for x in variables]
    out = 0
    for i, b in enumerate(bits):
        if b:
            term = mask
            for j, x in enumerate(variables):
                bit = (i >> (len(variables) - 1 - j)) & 1
                term &= vs[j] if bit else (~vs[j] & mask)
            out |= term
    return out


def tt_to_bytes(nv, t):
    return t.to_bytes((1 << nv) // 8, "big")


def tt_conn2(nv, conn, ta, tb):
    """pointwise binary connective (4 bools indexed 2*l+r)"""
    mask = tt_mask(nv)
    out = 0
    for l in (0, 1):
        for r in (0, 1):
            if conn[2 * l + r]:
                out |= (ta if l else ~ta & mask) & (tb if r else ~tb & mask)
    return out


def tt_conn3(nv, conn, ta, tb, tc):
    mask = tt_mask(nv)
    out = 0
    for a in (0, 1):
        for b in (0, 1):
            for c in (0, 1):
                if conn[4 * a + 2 * b + c]:
                    out |= (ta if a else ~ta & mask) & (tb if b else ~tb & mask) & (tc if c else ~tc & mask)
    return out


def big_random_tt(rng, nv):
    return rng.getrandbits(1 << nv)


def small_fn_tt(rng, nv, kmin=2, kmax=3, min_nodes=4):
    """(canonical array, truth table) of a small non-constant function over kmin..kmax of the nv variables"""
    while True:
        k = rng.randint(kmin, kmax)
        variables = sorted(rng.sample(range(nv), k))
        bits = [rng.random() < 0.5 for _ in range(1 << k)]
        a = bdd_from_tt(nv, variables, bits)
        if len(a) >= min_nodes:
            return a, tt_of_small(nv, variables, bits)


def sampled_disagreement(nv, result_nodes, expected_fn, seed, samples=3000):
    """independent oracle for large operands: raw evaluation of the result array against `expected_fn` (itself built on
    raw_eval of the operand arrays) on `samples` random valuations; returns (confirmed, description)"""
    rr = random.Random(seed)
    for i in range(samples):
        val = [rr.random() < 0.5 for _ in range(nv)]
        try:
            got = raw_eval(result_nodes, val)
        except (EvalDiverges, IndexError) as e:
            return True, "result array cannot be evaluated: %s" % e
        exp = expected_fn(val)
        if got != exp:
            return True, {"valuation": vbits(val), "expected": exp, "observed": got, "valuations_tried": i + 1}
    return False, "no failing valuation among %d random valuations" % samples


# ----------------------------------------------------------------------------- running things
def run_cmd(cmd, cwd=None, timeout=1800, env=None, stdin_data=None):
    e = dict(os.environ)
    e["CARGO_NET_OFFLINE"] = "true"
    if env:
        e.update(env)
    p = subprocess.run(cmd, cwd=cwd, env=e, input=stdin_data, stdout=subprocess.PIPE, stderr=subprocess.PIPE,
                       timeout=timeout, text=True)
    return p.returncode, p.stdout, p.stderr


# ----------------------------------------------------------------------------- independent canonicity scan
def is_canonical(nodes):
    """valid + reduced + library layout (DFS post-order, high child first, root last, nothing unreachable)"""
    if not is_wf(nodes):
        return False, "not a valid ordered diagram"
    n = len(nodes)
    if n == 1:
        return True, None
    seen = set()
    for p in range(2, n):
        v, l, h = nodes[p]
        if l == h:
            return False, "redundant node %d" % p
        if nodes[p] in seen:
            return False, "duplicate node %d" % p
        seen.add(nodes[p])
    if n == 2:
        return True, None
    # structural order check
    lim = 2
    stack = [(n - 1, 0)]
    # iterative version of chk: visit high, then low, then the node itself must be the next index
    sys.setrecursionlimit(max(10000, 4 * n))

    def chk(p, lim):
        if p < lim:
            return lim
        v, l, h = nodes[p]
        l1 = chk(h, lim)
        if l1 is None:
            return None
        l2 = chk(l, l1)
        if l2 is None or p != l2:
            return None
        return l2 + 1

    res = chk(n - 1, 2)
    if res != n:
        return False, "node order is not the DFS post-order (high first) of the reachable nodes"
    return True, None
